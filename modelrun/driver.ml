(* driver.ml — line-protocol co-process around the extracted model (model.ml).
   One command per line on stdin, answers on stdout.  A line starting with '='
   is the answer; a line starting with '?' is a question to the peer (the Rust
   harness) which must be answered by a line starting with '!'.
   Everything semantic is in model.ml (extracted from Coq); this file only
   parses, prints and dispatches. *)
module ZA = Z
open Model

(* ---------- numbers ---------- *)
let rec pos_to_z = function
  | XH -> ZA.one
  | XO p -> ZA.shift_left (pos_to_z p) 1
  | XI p -> ZA.succ (ZA.shift_left (pos_to_z p) 1)
let n_to_z = function N0 -> ZA.zero | Npos p -> pos_to_z p
let rec z_to_pos z =
  if ZA.equal z ZA.one then XH
  else let h = z_to_pos (ZA.shift_right z 1) in
    if ZA.testbit z 0 then XI h else XO h
let z_to_n z = if ZA.sign z <= 0 then N0 else Npos (z_to_pos z)
let n_of_string s =
  if s = "" then failwith "empty number";
  String.iter (fun c -> if c < '0' || c > '9' then failwith ("bad number " ^ s)) s;
  z_to_n (ZA.of_string s)
let string_of_n n = ZA.to_string (n_to_z n)
let zz_of_string s =
  let z = ZA.of_string s in
  if ZA.sign z = 0 then Z0 else if ZA.sign z > 0 then Zpos (z_to_pos z) else Zneg (z_to_pos (ZA.neg z))
let string_of_zz = function
  | Z0 -> "0" | Zpos p -> ZA.to_string (pos_to_z p) | Zneg p -> "-" ^ ZA.to_string (pos_to_z p)
let rec nat_of_int i = if i <= 0 then O else S (nat_of_int (i - 1))

(* ---------- tokens ---------- *)
let oid_of_string s =
  let n = n_of_string (String.sub s 1 (String.length s - 1)) in
  match s.[0] with 'u' -> Uuid n | 'l' -> Ulid n | _ -> failwith ("bad oid " ^ s)
let string_of_oid = function Uuid n -> "u" ^ string_of_n n | Ulid n -> "l" ^ string_of_n n
let side_of_string = function "B" -> Buy | "S" -> Sell | s -> failwith ("bad side " ^ s)
let string_of_side = function Buy -> "B" | Sell -> "S"
let tif_of_string s = match s with
  | "GTC" -> Gtc | "IOC" -> Ioc | "FOK" -> Fok | "DAY" -> Day
  | _ when String.length s > 3 && String.sub s 0 3 = "GTD" ->
    Gtd (n_of_string (String.sub s 3 (String.length s - 3)))
  | _ -> failwith ("bad tif " ^ s)
let string_of_tif = function
  | Gtc -> "GTC" | Ioc -> "IOC" | Fok -> "FOK" | Day -> "DAY" | Gtd n -> "GTD" ^ string_of_n n
let peg_of_string = function
  | "BB" -> BestBid | "BA" -> BestAsk | "MP" -> MidPrice | "LT" -> LastTrade
  | s -> failwith ("bad peg " ^ s)
let string_of_peg = function BestBid -> "BB" | BestAsk -> "BA" | MidPrice -> "MP" | LastTrade -> "LT"

let order_of_string s =
  match String.split_on_char ':' s with
  | kind :: id :: price :: side :: ts :: tif :: rest ->
    let c = { c_id = oid_of_string id; c_price = n_of_string price; c_side = side_of_string side;
              c_ts = n_of_string ts; c_tif = tif_of_string tif } in
    (match kind, rest with
     | "S", [q] -> Standard (c, n_of_string q)
     | "I", [v; h] -> Iceberg (c, n_of_string v, n_of_string h)
     | "P", [q] -> PostOnly (c, n_of_string q)
     | "T", [q; t; l] -> TrailingStop (c, n_of_string q, n_of_string t, n_of_string l)
     | "G", [q; off; p] -> Pegged (c, n_of_string q, zz_of_string off, peg_of_string p)
     | "M", [q] -> MarketToLimit (c, n_of_string q)
     | "R", [v; h; t; a; au] ->
       Reserve (c, n_of_string v, n_of_string h, n_of_string t,
                (if a = "-" then None else Some (n_of_string a)), au = "1")
     | _ -> failwith ("bad order " ^ s))
  | _ -> failwith ("bad order " ^ s)

let string_of_order o =
  let c = com o in
  let hd k = String.concat ":" [k; string_of_oid c.c_id; string_of_n c.c_price; string_of_side c.c_side;
                                string_of_n c.c_ts; string_of_tif c.c_tif] in
  match o with
  | Standard (_, q) -> hd "S" ^ ":" ^ string_of_n q
  | Iceberg (_, v, h) -> hd "I" ^ ":" ^ string_of_n v ^ ":" ^ string_of_n h
  | PostOnly (_, q) -> hd "P" ^ ":" ^ string_of_n q
  | TrailingStop (_, q, t, l) -> String.concat ":" [hd "T"; string_of_n q; string_of_n t; string_of_n l]
  | Pegged (_, q, off, p) -> String.concat ":" [hd "G"; string_of_n q; string_of_zz off; string_of_peg p]
  | MarketToLimit (_, q) -> hd "M" ^ ":" ^ string_of_n q
  | Reserve (_, v, h, t, a, au) ->
    String.concat ":" [hd "R"; string_of_n v; string_of_n h; string_of_n t;
                       (match a with None -> "-" | Some a -> string_of_n a); (if au then "1" else "0")]

let string_of_oorder = function None -> "-" | Some o -> string_of_order o
let oorder_of_string s = if s = "-" then None else Some (order_of_string s)

(* mres: consumed/updated/hidden_reduced/remaining *)
let string_of_mres r =
  String.concat "/" [string_of_n r.m_consumed; string_of_oorder r.m_updated;
                     string_of_n r.m_hidden_reduced; string_of_n r.m_remaining]
let mres_of_string s =
  match String.split_on_char '/' s with
  | [c; u; h; r] -> { m_consumed = n_of_string c; m_updated = oorder_of_string u;
                      m_hidden_reduced = n_of_string h; m_remaining = n_of_string r }
  | _ -> failwith ("bad mres " ^ s)

let update_of_string s =
  match String.split_on_char ':' s with
  | ["UP"; k; np] -> UpdatePrice (oid_of_string k, n_of_string np)
  | ["UQ"; k; nq] -> UpdateQuantity (oid_of_string k, n_of_string nq)
  | ["UPQ"; k; np; nq] -> UpdatePriceAndQuantity (oid_of_string k, n_of_string np, n_of_string nq)
  | ["C"; k] -> Cancel (oid_of_string k)
  | ["RP"; k; p; q; sd] -> Replace (oid_of_string k, n_of_string p, n_of_string q, side_of_string sd)
  | _ -> failwith ("bad update " ^ s)

let list_str f l = "[" ^ String.concat "," (List.map f l) ^ "]"
let parse_list f s =
  (* "[a,b,c]" *)
  let n = String.length s in
  if n < 2 || s.[0] <> '[' || s.[n-1] <> ']' then failwith ("bad list " ^ s);
  let body = String.sub s 1 (n - 2) in
  if body = "" then [] else List.map f (String.split_on_char ',' body)

(* ---------- session state ---------- *)
type session = {
  mutable lvl : level;
  mutable gen : n;
  mutable oracle : bool;       (* mf = ask the peer *)
  mutable iface_ok : bool;     (* every oracle answer met I_cons *)
  mutable asks : int;
  mutable q : queue;           (* stand-alone queue for C19 *)
}
let ses = { lvl = new_level N0; gen = N0; oracle = false; iface_ok = true; asks = 0; q = empty_queue }
(* fork: second level for C11 *)
let fork : level option ref = ref None
let fork_gen = ref N0
let fq : order list ref = ref []
(* ideal time-priority level (Spec/Priority.v), run beside the concrete one for C04 *)
let il : ilevel ref = ref (inew N0)
let il_gen = ref N0
let taints : string list ref = ref []

let fuel = nat_of_int 20000

(* ---------- concurrency (Model/Conc.v) ---------- *)
let conc : config option ref = ref None
let qconc : qconfig option ref = ref None

let obj_of_string = function
  | "vis" -> OVis | "hid" -> OHid | "cnt" -> OCnt | "sadd" -> OSAdded | "srem" -> OSRemoved
  | "sexe" -> OSExec | "sqty" -> OSQty | "sval" -> OSValue | "gen" -> OGen
  | s -> failwith ("bad obj " ^ s)
let string_of_obj = function
  | OVis -> "vis" | OHid -> "hid" | OCnt -> "cnt" | OSAdded -> "sadd" | OSRemoved -> "srem"
  | OSExec -> "sexe" | OSQty -> "sqty" | OSValue -> "sval" | OGen -> "gen"

let ask o inc =
  print_string ("? " ^ string_of_order o ^ " " ^ string_of_n inc ^ "\n"); flush stdout;
  let l = input_line stdin in
  if String.length l < 2 || l.[0] <> '!' then failwith ("expected answer, got " ^ l);
  let r = mres_of_string (String.sub l 2 (String.length l - 2)) in
  ses.asks <- ses.asks + 1;
  if not (i_cons_b o inc r) then ses.iface_ok <- false;
  r

let mf o inc = if ses.oracle then ask o inc else match_against o inc

let string_of_tx t =
  String.concat "/" [string_of_n t.tx_idx; string_of_oid t.tx_taker; string_of_oid t.tx_maker;
                     string_of_n t.tx_price; string_of_n t.tx_qty; string_of_side t.tx_side]

let string_of_result r =
  Printf.sprintf "txs=%s rem=%s complete=%d filled=%s exec=%s"
    (list_str string_of_tx r.r_txs) (string_of_n r.r_remaining) (if r.r_complete then 1 else 0)
    (list_str string_of_oid r.r_filled) (string_of_n (executed_quantity r))

let string_of_state l =
  Printf.sprintf "cv=%s ch=%s cc=%s st=%s/%s/%s/%s/%s map=%s tk=%s vec=%s"
    (string_of_n l.cvis) (string_of_n l.chid) (string_of_n l.ccnt)
    (string_of_n l.st.s_added) (string_of_n l.st.s_removed) (string_of_n l.st.s_executed)
    (string_of_n l.st.s_qty) (string_of_n l.st.s_value)
    (list_str string_of_order l.lq.qmap) (list_str string_of_oid l.lq.tickets)
    (list_str string_of_order (to_vec l.lq))

let string_of_uout = function UOk o -> "ok:" ^ string_of_oorder o | UErr -> "err"
let uout_of_string s =
  if s = "err" then UErr
  else if String.length s > 3 && String.sub s 0 3 = "ok:" then UOk (oorder_of_string (String.sub s 3 (String.length s - 3)))
  else failwith ("bad update outcome " ^ s)
(* transactions as the judges see them: txid/taker/maker/price/qty/side (the id is not judged) *)
let judge_tx_of_string s =
  match String.split_on_char '/' s with
  | [_; tk; mk; pr; q; sd] -> { tx_idx = N0; tx_taker = oid_of_string tk; tx_maker = oid_of_string mk;
                                tx_price = n_of_string pr; tx_qty = n_of_string q; tx_side = side_of_string sd }
  | _ -> failwith ("bad tx " ^ s)

(* listing oracle: the peer's listing must be a timestamp-sorted permutation of ours *)
let rec sorted_ts = function
  | a :: (b :: _ as t) -> ZA.leq (n_to_z (ts_of a)) (n_to_z (ts_of b)) && sorted_ts t
  | _ -> true
let perm_of_map (l : level) (os : order list) =
  let m = l.lq.qmap in
  List.length m = List.length os
  && List.for_all (fun o -> match lookup (oid_of o) m with Some x -> order_eqb x o | None -> false) os
  && List.for_all (fun o -> match lookup (oid_of o) os with Some x -> order_eqb x o | None -> false) m

let do_match (l : level) (gen : n) qty taker =
  match match_order mf fuel l gen qty taker with
  | Some ((l', gen'), r) -> Some (l', gen', r)
  | None -> None

(* event tokens of the C15 judges (JUDGE stats / JUDGE statsr); rebuild events only where allowed *)
let stats_ev_of (rebuilds : bool) (s : string) =
  match String.split_on_char '|' s with
  | ["A"; o] -> let o = order_of_string o in (OAdd o, OutAdd o)
  | ["M"; q; taker; txs; rem; complete] ->
    (OMatch (n_of_string q, oid_of_string taker),
     OutMatch { r_taker = oid_of_string taker; r_txs = parse_list judge_tx_of_string txs;
                r_remaining = n_of_string rem; r_complete = (complete = "1"); r_filled = [] })
  | ["U"; u; out] -> (OUpdate (update_of_string u), OutUpdate (uout_of_string out))
  | ["B"; "snap"; listing] when rebuilds -> (ORebuildSnap (parse_list order_of_string listing), OutRebuilt)
  | ["B"; "data"; listing] when rebuilds -> (ORebuildData (parse_list order_of_string listing), OutRebuilt)
  | _ -> failwith ("bad event " ^ s)

let rebuild via (l : level) (listing : order list) : level =
  match via with
  | "snap" ->
    from_snapshot { sn_price = l.price; sn_vis = l.cvis; sn_hid = l.chid; sn_cnt = l.ccnt; sn_orders = listing }
  | "data" -> from_data l.price listing
  | _ -> failwith ("bad via " ^ via)

let ooid_of_string s = if s = "-" then None else Some (oid_of_string s)
let string_of_ooid = function None -> "-" | Some k -> string_of_oid k

(* event token: fields separated by '~' *)
let ev_of_fields = function
  | [x] when String.length x > 3 && String.sub x 0 3 = "FA:" ->
    (match String.split_on_char ':' x with
     | [_; o; n; old] -> EFetchAdd (obj_of_string o, n_of_string n, n_of_string old)
     | _ -> failwith ("bad event " ^ x))
  | [x] when String.length x > 3 && String.sub x 0 3 = "FS:" ->
    (match String.split_on_char ':' x with
     | [_; o; n; old] -> EFetchSub (obj_of_string o, n_of_string n, n_of_string old)
     | _ -> failwith ("bad event " ^ x))
  | [x] when String.length x > 3 && String.sub x 0 3 = "LD:" ->
    (match String.split_on_char ':' x with
     | [_; o; v] -> ELoad (obj_of_string o, n_of_string v)
     | _ -> failwith ("bad event " ^ x))
  | ["INS"; o] -> EInsert (order_of_string o)
  | ["REM"; k; r] -> ERemove (oid_of_string k, oorder_of_string r)
  | ["GET"; k; r] -> EGet (oid_of_string k, oorder_of_string r)
  | ["PUSH"; k] -> EPush (oid_of_string k)
  | ["POP"; r] -> EPop (ooid_of_string r)
  | ["ITER"; n] -> EIter (n_of_string n)
  | ["LEN"; n] -> EIter (n_of_string n)
  | ["EMPTY"; n] -> EIter (n_of_string n)
  | l -> failwith ("bad event " ^ String.concat "~" l)

let string_of_ev = function
  | EFetchAdd (o, n, old) -> Printf.sprintf "FA:%s:%s:%s" (string_of_obj o) (string_of_n n) (string_of_n old)
  | EFetchSub (o, n, old) -> Printf.sprintf "FS:%s:%s:%s" (string_of_obj o) (string_of_n n) (string_of_n old)
  | ELoad (o, v) -> Printf.sprintf "LD:%s:%s" (string_of_obj o) (string_of_n v)
  | EInsert o -> "INS~" ^ string_of_order o
  | ERemove (k, r) -> "REM~" ^ string_of_oid k ^ "~" ^ string_of_oorder r
  | EGet (k, r) -> "GET~" ^ string_of_oid k ^ "~" ^ string_of_oorder r
  | EPush k -> "PUSH~" ^ string_of_oid k
  | EPop r -> "POP~" ^ string_of_ooid r
  | EIter n -> "ITER~" ^ string_of_n n

let call_of_string s =
  match String.split_on_char '~' s with
  | ["ADD"; o] -> CAdd (order_of_string o)
  | ["MATCH"; q; t] -> CMatch (n_of_string q, oid_of_string t)
  | ["UPD"; u] -> CUpdate (update_of_string u)
  | ["RV"] -> CReadVis | ["RH"] -> CReadHid | ["RC"] -> CReadCnt | ["LIST"] -> CList
  | ["NEXT"] -> CNext
  | ["SNAP"] -> CSnapshot
  | _ -> failwith ("bad call " ^ s)

let string_of_result_semi r =
  String.concat ";" (String.split_on_char ' ' (string_of_result r))

let string_of_ret = function
  | RetAdd o -> "add:" ^ string_of_order o
  | RetMatch r -> "match:" ^ string_of_result_semi r
  | RetUpd (UOk o) -> "upd:ok:" ^ string_of_oorder o
  | RetUpd UErr -> "upd:err"
  | RetNum n -> "num:" ^ string_of_n n
  | RetList l -> "list:" ^ list_str string_of_order l
  | RetSnap (v, h, c, l) ->
    Printf.sprintf "snap:%s/%s/%s/%s" (string_of_n v) (string_of_n h) (string_of_n c) (list_str string_of_order l)

let thread_rets (t : thread) =
  (* returns of completed calls, plus the current one if it is Done *)
  t.th_rets @ (match t.th_pc with Done r -> [r] | _ -> [])

let rec nodup_oids = function
  | [] -> true
  | k :: t -> not (List.exists (fun x -> oid_eqb x k) t) && nodup_oids t

(* AlignedStrong (Spec/Priority.v) as a boolean on the two model states *)
let aligned_strong (l : level) (i : ilevel) =
  let a = abs l.lq in
  let ii = List.map oid_of i.iorders in
  List.length a = List.length ii && List.for_all2 oid_eqb a ii
  && List.length l.lq.qmap = List.length i.iorders
  && List.for_all (fun o -> match lookup (oid_of o) l.lq.qmap with Some x -> order_eqb x o | None -> false) i.iorders
  && nodup_oids (live_tickets l.lq)

let ideal_suffix () =
  Printf.sprintf " aligned=%d taint=%s iord=%s" (if aligned_strong ses.lvl !il then 1 else 0)
    (if !taints = [] then "-" else String.concat "," (List.rev !taints))
    (list_str string_of_oid (List.map oid_of (!il).iorders))

(* a known deviation (K1 / K2) is recorded when an operation loses the alignment *)
let note_taint pre cause =
  if pre && not (aligned_strong ses.lvl !il) && not (List.mem cause !taints) then taints := cause :: !taints

(* re-base the ideal level on the concrete pop order (after a known deviation) *)
let resync () =
  let l = ses.lvl in
  let os = List.filter_map (fun k -> lookup k l.lq.qmap) (abs l.lq) in
  il := { iprice = l.price; iorders = os };
  taints := []


(* ---------- pure helper API (Model/Helpers.v): command group `H <fn> <args...>` ----------
   `H`  answers as a build WITH overflow checks behaves (debug profile: an overflowing u64
        `*` / `+` / sum panics -> "panic"),
   `HR` as a build without them (release profile: the wrapped value).
   The Rust side (harness/src/helpers.rs, mode `helpers`) prints the implementation's answers in
   the same one-line form. *)
let tx_of_string s =
  match String.split_on_char '/' s with
  | [i; tk; mk; pr; q; sd] -> { tx_idx = n_of_string i; tx_taker = oid_of_string tk; tx_maker = oid_of_string mk;
                                tx_price = n_of_string pr; tx_qty = n_of_string q; tx_side = side_of_string sd }
  | _ -> failwith ("bad tx " ^ s)
let b01 b = if b then "1" else "0"
let string_of_cmp = function Lt -> "L" | Eq -> "E" | Gt -> "G"
let stats_op_of_string s =
  match String.split_on_char ':' s with
  | ["a"] -> SAdded | ["r"] -> SRemoved | ["z"] -> SReset
  | ["e"; q; p] -> SExec (n_of_string q, n_of_string p)
  | _ -> failwith ("bad stats op " ^ s)
let string_of_stats st =
  String.concat "/" [string_of_n st.s_added; string_of_n st.s_removed; string_of_n st.s_executed;
                     string_of_n st.s_qty; string_of_n st.s_value]
let result_of_txs txs = { r_taker = oid_nil; r_txs = txs; r_remaining = N0; r_complete = false; r_filled = [] }
let checked release ovf v = if (not release) && ovf then "panic" else string_of_n v

let helper (release : bool) (fn : string) (args : string list) : string =
  match fn, args with
  | "opp", [s] -> string_of_side (opposite (side_of_string s))
  | "oid_u64", [n] -> string_of_oid (oid_from_u64 (n_of_string n))
  | "oid_nil", [] -> string_of_oid oid_nil
  | "oid_default", [] ->
    (* only the variant is determined (a fresh random ULID) *)
    if oid_is_ulid (Ulid N0) && not (oid_is_ulid (Uuid N0)) then "ulid" else "?"
  | "tif_imm", [t] -> b01 (tif_is_immediate (tif_of_string t))
  | "tif_hasexp", [t] -> b01 (tif_has_expiry (tif_of_string t))
  | "tif_expired", [t; now; close] ->
    b01 (tif_is_expired (tif_of_string t) (n_of_string now) (if close = "-" then None else Some (n_of_string close)))
  | "acc", [o] ->
    let o = order_of_string o in
    Printf.sprintf "id=%s price=%s side=%s ts=%s tif=%s vis=%s hid=%s imm=%s fok=%s po=%s"
      (string_of_oid (oid_of o)) (string_of_n (price_of o)) (string_of_side (side_of o)) (string_of_n (ts_of o))
      (string_of_tif (tif_of o)) (string_of_n (vis o)) (string_of_n (hid o))
      (b01 (order_is_immediate o)) (b01 (order_is_fill_or_kill o)) (b01 (order_is_post_only o))
  | "wrq", [o; q] -> string_of_order (with_reduced_quantity (order_of_string o) (n_of_string q))
  | "refresh", [o; amt] ->
    let (o', used) = refresh_iceberg (order_of_string o) (n_of_string amt) in
    string_of_order o' ^ "/" ^ string_of_n used
  | "tx_maker", [t] -> string_of_side (tx_maker_side (tx_of_string t))
  | "tx_value", [t] -> let t = tx_of_string t in checked release (tx_total_value_ovf t) (tx_total_value t)
  | "mr_execq", [txs] ->
    let r = result_of_txs (parse_list tx_of_string txs) in
    checked release (executed_quantity_ovf r) (executed_quantity_w r)
  | "mr_execv", [txs] ->
    let r = result_of_txs (parse_list tx_of_string txs) in
    checked release (executed_value_ovf r) (executed_value r)
  | "mr_filled", [ks] ->
    let r = List.fold_left add_filled (result_of_txs []) (parse_list oid_of_string ks) in
    list_str string_of_oid r.r_filled
  | "txl", [txs] ->
    let l = txl_from_vec (parse_list tx_of_string txs) in
    Printf.sprintf "len=%s empty=%s vec=%s" (string_of_n (txl_len l)) (b01 (txl_is_empty l))
      (list_str string_of_tx (txl_into_vec l))
  | "lvl_cmp", [p1; os1; p2; os2] ->
    let a = from_data (n_of_string p1) (parse_list order_of_string os1)
    and b = from_data (n_of_string p2) (parse_list order_of_string os2) in
    let c = level_cmp a b in
    Printf.sprintf "eq=%s ne=%s cmp=%s pcmp=%s lt=%s le=%s gt=%s ge=%s"
      (b01 (level_eqb a b)) (b01 (not (level_eqb a b))) (string_of_cmp c) (string_of_cmp c)
      (b01 (level_ltb a b)) (b01 (level_leb a b)) (b01 (level_ltb b a)) (b01 (level_leb b a))
  | "lvl_total", [p; os] ->
    let l = from_data (n_of_string p) (parse_list order_of_string os) in
    Printf.sprintf "price=%s vis=%s hid=%s cnt=%s total=%s" (string_of_n l.price) (string_of_n l.cvis)
      (string_of_n l.chid) (string_of_n l.ccnt)
      (checked release (level_total_quantity_ovf l) (level_total_quantity_w l))
  | "stats", [ops] ->
    let ops = parse_list stats_op_of_string ops in
    if release then string_of_stats (stats_run stats0 ops)
    else (match stats_run_debug N0 stats0 ops with
        | (st, None) -> string_of_stats st
        | (st, Some i) -> "panic@" ^ string_of_n i ^ " " ^ string_of_stats st)
  | _ -> "error unknown helper call: " ^ String.concat " " (fn :: args)

let handle line =
  match String.split_on_char ' ' line with
  | ["MA"; o; inc] -> "= " ^ string_of_mres (match_against (order_of_string o) (n_of_string inc))
  | ["MS"; o; inc] -> "= " ^ string_of_mres (match_spec (order_of_string o) (n_of_string inc))
  | ["MA2"; o; inc] ->
    let o = order_of_string o and inc = n_of_string inc in
    "= " ^ string_of_mres (match_against o inc) ^ " " ^ string_of_mres (match_spec o inc)
  | ["NEW"; p; mode] ->
    ses.lvl <- new_level (n_of_string p); ses.gen <- N0; ses.oracle <- (mode = "O");
    ses.iface_ok <- true; ses.asks <- 0; fork := None; fork_gen := N0;
    il := inew (n_of_string p); il_gen := N0; taints := [];
    "= ok"
  | ["ADD"; o] ->
    let o = order_of_string o in
    let pre = aligned_strong ses.lvl !il in
    ses.lvl <- add_order ses.lvl o;
    let fk = (match !fork with
        | Some f -> let f' = add_order f o in fork := Some f';
          " || ret=" ^ string_of_order o ^ " " ^ string_of_state f'
        | None -> "") in
    il := iadd !il o;
    note_taint pre "K2";
    "= ret=" ^ string_of_order o ^ " " ^ string_of_state ses.lvl ^ ideal_suffix () ^ fk
  | ["MATCH"; qty; taker] ->
    let qty = n_of_string qty and taker = oid_of_string taker in
    let g0 = ses.gen in
    let pre = aligned_strong ses.lvl !il in
    let main =
      (match do_match ses.lvl ses.gen qty taker with
       | Some (l', g', r) -> ses.lvl <- l'; ses.gen <- g';
         string_of_result r ^ " " ^ string_of_state l'
       | None -> "nofuel") in
    let ideal =
      (match imatch mf fuel !il g0 qty taker with
       | Some ((i', _), r) -> il := i';
         " ideal=" ^ String.concat ";" (String.split_on_char ' ' (string_of_result r))
       | None -> " ideal=nofuel") in
    note_taint pre "K1";
    let main = main ^ ideal ^ (if pre then " pre=1" else " pre=0") ^ ideal_suffix () in
    let fk =
      (match !fork with
       | Some f ->
         (match do_match f !fork_gen qty taker with
          | Some (f', g', r) -> fork := Some f'; fork_gen := g';
            " || " ^ string_of_result r ^ " " ^ string_of_state f'
          | None -> " || nofuel")
       | None -> "") in
    "= " ^ main ^ fk
  | ["UPD"; u] ->
    let u = update_of_string u in
    let pre = aligned_strong ses.lvl !il in
    let (l', out) = update_order ses.lvl u in
    ses.lvl <- l';
    let fk = (match !fork with
        | Some f -> let (f', out') = update_order f u in fork := Some f';
          " || out=" ^ string_of_uout out' ^ " " ^ string_of_state f'
        | None -> "") in
    let (i', iout) = iupdate !il u in
    il := i';
    note_taint pre "K2";
    "= out=" ^ string_of_uout out ^ " " ^ string_of_state l' ^ " iout=" ^ string_of_uout iout ^ ideal_suffix () ^ fk
  | ["SNAP"] ->
    let s = snapshot_of ses.lvl in
    Printf.sprintf "= price=%s cv=%s ch=%s cc=%s vec=%s total=%s" (string_of_n s.sn_price) (string_of_n s.sn_vis)
      (string_of_n s.sn_hid) (string_of_n s.sn_cnt) (list_str string_of_order s.sn_orders)
      (string_of_n (total_quantity ses.lvl))
  | ["STATE"] -> "= " ^ string_of_state ses.lvl
  | ["REBUILD"; via; listing] ->
    let os = parse_list order_of_string listing in
    let okp = perm_of_map ses.lvl os && sorted_ts os in
    ses.lvl <- rebuild via ses.lvl os;
    resync ();
    Printf.sprintf "= perm=%d %s" (if okp then 1 else 0) (string_of_state ses.lvl)
  | ["GEN"; n] -> ses.gen <- n_of_string n; "= ok"
  | ["RESYNC"] -> resync (); "= ok" ^ ideal_suffix ()
  | ["ADDTX"; init; qs] ->
    let taker = oid_of_string "u424242" in
    let qs = parse_list n_of_string qs in
    let (res, steps) = List.fold_left (fun (r, acc) q ->
        let r' = add_transaction r { tx_idx = N0; tx_taker = taker; tx_maker = oid_of_string "u1"; tx_price = n_of_string "1";
                                     tx_qty = q; tx_side = Buy } in
        (r', acc @ [string_of_n r'.r_remaining ^ "/" ^ (if r'.r_complete then "1" else "0")]))
        (result_new taker (n_of_string init), []) qs in
    Printf.sprintf "= steps=[%s] rem=%s complete=%d exec=%s n=%d" (String.concat "," steps) (string_of_n res.r_remaining)
      (if res.r_complete then 1 else 0) (string_of_n (executed_quantity res)) (List.length res.r_txs)
  | ["EXT"; via; cv; ch; cc; listing] ->
    let os = parse_list order_of_string listing in
    let p = ses.lvl.price in
    ses.lvl <- (match via with
        | "snap" -> from_snapshot { sn_price = p; sn_vis = n_of_string cv; sn_hid = n_of_string ch;
                                    sn_cnt = n_of_string cc; sn_orders = os }
        | "data" -> from_data p os
        | _ -> failwith ("bad via " ^ via));
    resync ();
    "= " ^ string_of_state ses.lvl
  | ["FORK"; via; listing] ->
    let os = parse_list order_of_string listing in
    let okp = perm_of_map ses.lvl os && sorted_ts os in
    let f = rebuild via ses.lvl os in
    fork := Some f; fork_gen := N0;
    Printf.sprintf "= perm=%d %s" (if okp then 1 else 0) (string_of_state f)
  | ["CTHREADS"; ts] ->
    let sh = shared_of_level ses.lvl ses.gen in
    let progs = List.map (fun t -> if t = "" then [] else List.map call_of_string (String.split_on_char ';' t))
        (String.split_on_char '#' ts) in
    (* a thread with no calls has a dummy Done pc whose return value is not reported *)
    conc := Some { cf_sh = sh; cf_threads = List.map (thread_init sh.sh_price) progs };
    "= ok"
  | "CTRACE" :: toks ->
    (match !conc with
     | None -> "= error no config"
     | Some c ->
       let tr = List.filter_map (fun tok ->
           if tok = "" then None else
             match String.split_on_char '~' tok with
             | tid :: fields -> Some (nat_of_int (int_of_string tid), ev_of_fields fields)
             | [] -> None) toks in
       let (c', bad) = accept mf tr c O in
       conc := Some c';
       let sh = c'.cf_sh in
       let l = level_of_shared sh in
       ses.lvl <- l; ses.gen <- sh.sh_gen;
       (match bad with
        | None ->
          let rets = String.concat "#" (List.map (fun t ->
              String.concat "|" (List.map string_of_ret (thread_rets t))) c'.cf_threads) in
          Printf.sprintf "= accepted quiescent=%d rets=%s %s" (if quiescent c' then 1 else 0) rets (string_of_state l)
        | Some pos ->
          let rec to_int = function O -> 0 | S n -> 1 + to_int n in
          let p = to_int pos in
          let (tid, e) = List.nth tr p in
          let exp = (match cstep mf c' tid with
              | Some (_, e') -> string_of_ev e'
              | None -> "thread-cannot-move") in
          Printf.sprintf "= rejected pos=%d thread=%d got=%s expected=%s" p (to_int tid) (string_of_ev e) exp))
  | ["QCTHREADS"; ts] ->
    let qcall_of_string s = (match String.split_on_char '~' s with
        | ["QPUSH"; o] -> QCPush (order_of_string o) | ["QPOP"] -> QCPop
        | ["QREMOVE"; k] -> QCRemove (oid_of_string k) | ["QFIND"; k] -> QCFind (oid_of_string k)
        | ["QLEN"] -> QCLen | ["QEMPTY"] -> QCEmpty | ["QVEC"] -> QCVec
        | _ -> failwith ("bad qcall " ^ s)) in
    let progs = List.map (fun t -> if t = "" then [] else List.map qcall_of_string (String.split_on_char ';' t))
        (String.split_on_char '#' ts) in
    qconc := Some { qc_sh = qshared_of_queue ses.q; qc_threads = List.map qthread_init progs };
    "= ok"
  | "QCTRACE" :: toks ->
    (match !qconc with
     | None -> "= error no config"
     | Some c ->
       let tr = List.filter_map (fun tok ->
           if tok = "" then None else
             match String.split_on_char '~' tok with
             | tid :: fields -> Some (nat_of_int (int_of_string tid), ev_of_fields fields)
             | [] -> None) toks in
       let (c', bad) = qaccept tr c O in
       qconc := Some c';
       ses.q <- queue_of_qshared c'.qc_sh;
       let string_of_qret = function
         | QRetUnit -> "unit" | QRetOrd o -> "ord:" ^ string_of_oorder o | QRetNum n -> "num:" ^ string_of_n n
         | QRetBool b -> "bool:" ^ (if b then "1" else "0") | QRetVec l -> "vec:" ^ list_str string_of_order l in
       (match bad with
        | None ->
          let rets = String.concat "#" (List.map (fun t ->
              String.concat "|" (List.map string_of_qret (t.qt_rets @ (match t.qt_pc with QDone r when t.qt_rets <> [] || true -> [r] | _ -> []))))
              c'.qc_threads) in
          Printf.sprintf "= accepted quiescent=%d rets=%s map=%s tk=%s" (if qquiescent c' then 1 else 0) rets
            (list_str string_of_order c'.qc_sh.qs_map) (list_str string_of_oid c'.qc_sh.qs_tk)
        | Some pos ->
          let rec to_int = function O -> 0 | S n -> 1 + to_int n in
          let p = to_int pos in
          let (tid, e) = List.nth tr p in
          let exp = (match qcstep c' tid with Some (_, e') -> string_of_ev e' | None -> "thread-cannot-move") in
          Printf.sprintf "= rejected pos=%d thread=%d got=%s expected=%s" p (to_int tid) (string_of_ev e) exp))
  | "CTRACEP" :: keep :: toks ->
    (* projected acceptance: only events on the object classes listed in [keep] (comma list of
       map,tk,cnt,stats,gen) are compared; the model performs the other steps of a thread silently
       when that thread next has a compared event (or at the end).  Sound for properties whose
       proofs depend only on the evolution of the kept objects. *)
    (match !conc with
     | None -> "= error no config"
     | Some c0 ->
       let keeps = String.split_on_char ',' keep in
       let cls = function
         | EInsert _ | ERemove _ | EGet _ | EIter _ -> "map"
         | EPush _ | EPop _ -> "tk"
         | EFetchAdd (o, _, _) | EFetchSub (o, _, _) | ELoad (o, _) ->
           (match o with OVis | OHid | OCnt -> "cnt" | OGen -> "gen" | _ -> "stats") in
       let kept e = List.mem (cls e) keeps in
       let obj_class o = (match o with "vis" | "hid" | "cnt" -> "cnt" | "gen" -> "gen" | _ -> "stats") in
       let tr = List.filter_map (fun tok ->
           if tok = "" then None else
             match String.split_on_char '~' tok with
             | [tid; f] when String.length f > 3 && String.sub f 0 3 = "ST:" ->
               (* a plain store: the model never stores; compared only if its object class is kept
                  (then it is rejected as an event the model cannot produce) *)
               (match String.split_on_char ':' f with
                | _ :: o :: _ when not (List.mem (obj_class o) keeps) -> None
                | _ -> Some (nat_of_int (int_of_string tid), EIter (n_of_string "18446744073709551615")))
             | tid :: fields -> let e = ev_of_fields fields in
               if kept e then Some (nat_of_int (int_of_string tid), e) else None
             | [] -> None) toks in
       let rec to_int = function O -> 0 | S n -> 1 + to_int n in
       (* advance thread [tid] silently up to its next kept event; returns the config before that event *)
       let rec next_kept c tid guard =
         if guard = 0 then (c, None) else
           match cstep mf c tid with
           | None -> (c, None)
           | Some (c', e') -> if kept e' then (c, Some (c', e')) else next_kept c' tid (guard - 1) in
       let rec go c tr pos =
         match tr with
         | [] -> (c, None)
         | (tid, e) :: rest ->
           (match next_kept c tid 100000 with
            | (_, Some (c', e')) when ev_eqb e e' -> go c' rest (pos + 1)
            | (cb, Some (_, e')) -> (cb, Some (pos, to_int tid, string_of_ev e, string_of_ev e'))
            | (cb, None) -> (cb, Some (pos, to_int tid, string_of_ev e, "thread-has-no-more-compared-steps"))) in
       let (c1, bad) = go c0 tr 0 in
       (match bad with
        | Some (pos, tid, got, exp) ->
          conc := Some c1;
          Printf.sprintf "= rejected pos=%d thread=%d got=%s expected=%s" pos tid got exp
        | None ->
          (* flush: every thread runs to completion; no compared event may be left *)
          let n = List.length c1.cf_threads in
          let extra = ref None in
          let c = ref c1 in
          for i = 0 to n - 1 do
            let fin = ref false and guard = ref 100000 in
            while not !fin && !guard > 0 do
              decr guard;
              (match cstep mf !c (nat_of_int i) with
               | None -> fin := true
               | Some (c', e') ->
                 if kept e' && !extra = None then extra := Some (i, string_of_ev e');
                 c := c')
            done
          done;
          conc := Some !c;
          let l = level_of_shared (!c).cf_sh in
          ses.lvl <- l; ses.gen <- (!c).cf_sh.sh_gen;
          (match !extra with
           | Some (i, e) -> Printf.sprintf "= rejected pos=end thread=%d got=nothing expected=%s" i e
           | None ->
             let rets = String.concat "#" (List.map (fun t ->
                 String.concat "|" (List.map string_of_ret (thread_rets t))) (!c).cf_threads) in
             Printf.sprintf "= accepted quiescent=%d rets=%s %s" (if quiescent !c then 1 else 0) rets (string_of_state l))))
  | ["CDRAIN"; taker] ->
    (match do_match ses.lvl ses.gen (n_of_string "18446744073709551615") (oid_of_string taker) with
     | Some (l', g', r) -> ses.lvl <- l'; ses.gen <- g'; "= " ^ string_of_result r ^ " " ^ string_of_state l'
     | None -> "= nofuel")
  | ["IFACE"] -> Printf.sprintf "= iface=%d asks=%d" (if ses.iface_ok then 1 else 0) ses.asks
  (* ---- stand-alone queue (C19) ---- *)
  | ["QNEW"] -> ses.q <- empty_queue; fq := []; "= ok"
  | ["QFROM"; listing] ->
    let os = parse_list order_of_string listing in
    ses.q <- from_vec os; fq := os; "= built || built fresh=1"
  | [("QPUSH" | "QPOP" | "QFIND" | "QREMOVE" | "QLEN" | "QEMPTY" | "QVEC") as c] | [("QPUSH" | "QFIND" | "QREMOVE") as c; _]
    when true ->
    let arg = (match String.split_on_char ' ' line with [_; a] -> a | _ -> "") in
    let op = (match c with
        | "QPUSH" -> QPush (order_of_string arg) | "QPOP" -> QPop | "QFIND" -> QFind (oid_of_string arg)
        | "QREMOVE" -> QRemove (oid_of_string arg) | "QLEN" -> QLen | "QEMPTY" -> QEmpty | _ -> QVec) in
    let fresh = (match op with
        | QPush o -> not (List.exists (fun k -> oid_eqb k (oid_of o)) ses.q.tickets)
        | _ -> true) in
    let (q', r) = step_q ses.q op in
    let (f', rf) = step_f !fq op in
    ses.q <- q'; fq := f';
    let so = function
      | RUnit -> "unit" | ROrd o -> string_of_oorder o | RLen n -> string_of_n n
      | RBool b -> if b then "1" else "0" | RVec l -> list_str string_of_order l in
    Printf.sprintf "= %s || %s fresh=%d" (so r) (so rf) (if fresh then 1 else 0)
  | ["QSTATE"] -> "= map=" ^ list_str string_of_order ses.q.qmap ^ " tk=" ^ list_str string_of_oid ses.q.tickets
                  ^ " abs=" ^ list_str string_of_oid (abs ses.q)
  (* ---- judges extracted from Spec/Judges.v, applied to the implementation's observations ---- *)
  | ["JUDGE"; "agg"; cv; ch; cc; listing] ->
    if agg_b (n_of_string cv) (n_of_string ch) (n_of_string cc) (parse_list order_of_string listing) then "= 1" else "= 0"
  | ["JUDGE"; "listing"; listing] ->
    if listing_ok_b (parse_list order_of_string listing) then "= 1" else "= 0"
  | ["JUDGE"; "acct"; p; qty; taker; before; txs; rem; complete] ->
    let r = { r_taker = oid_of_string taker; r_txs = parse_list judge_tx_of_string txs; r_remaining = n_of_string rem;
              r_complete = (complete = "1"); r_filled = [] } in
    if accounting_b (n_of_string p) (n_of_string qty) (oid_of_string taker) (parse_list order_of_string before) r
    then "= 1" else "= 0"
  (* C06: JUDGE exhaust <requested> <listing before> <listing after> <executed> <remaining> *)
  | ["JUDGE"; "exhaust"; qty; before; after; exec; rem] ->
    if exhaust_b (n_of_string qty) (parse_list order_of_string before) (parse_list order_of_string after)
        (n_of_string exec) (n_of_string rem) then "= 1" else "= 0"
  (* C07: JUDGE upd <level price> <listing before> <cv/ch/cc before> <update> <outcome> <listing after> <cv/ch/cc after> *)
  | ["JUDGE"; "upd"; p; before; cb; u; out; after; ca] ->
    let three s = (match String.split_on_char '/' s with
        | [a; b; c] -> (n_of_string a, n_of_string b, n_of_string c)
        | _ -> failwith ("bad counters " ^ s)) in
    let (cv, ch, cc) = three cb and (cv', ch', cc') = three ca in
    let p = n_of_string p and before = parse_list order_of_string before and u = update_of_string u in
    if update_ok_b p before u (uout_of_string out) (parse_list order_of_string after)
       && update_counts_b p before u cv ch cc cv' ch' cc' then "= 1" else "= 0"
  (* C15: JUDGE stats <level price> <added> <removed> <quantity> <value> <event> ...   with events
     A|<order>   M|<qty>|<taker>|<txs>|<remaining>|<complete>   U|<update>|<outcome> *)
  | "JUDGE" :: "stats" :: p :: added :: removed :: qty :: value :: evs ->
    if stats_b (n_of_string p) (List.map (stats_ev_of false) (List.filter (fun s -> s <> "") evs))
        (n_of_string added) (n_of_string removed) (n_of_string qty) (n_of_string value)
    then "= 1" else "= 0"
  (* C15 across rebuilds: JUDGE statsr <level price> <added> <removed> <quantity> <value> <event> ...   events as for
     `stats`, plus   B|snap|<listing>   B|data|<listing>   (a rebuild of the level from its own snapshot-like /
     data-like form; <listing> = the orders handed over).  Spec/Judges.v stats_rebuild_b *)
  | "JUDGE" :: "statsr" :: p :: added :: removed :: qty :: value :: evs ->
    if stats_rebuild_b (n_of_string p) (List.map (stats_ev_of true) (List.filter (fun s -> s <> "") evs))
        (n_of_string added) (n_of_string removed) (n_of_string qty) (n_of_string value)
    then "= 1" else "= 0"
  (* ---- judges of the concurrent properties (Spec/ConcJudges.v) on the scheduler's event log ---- *)
  (* C12: JUDGE range <sq>/<sn>/<cv>/<ch>/<cc> ...   one token per scheduled step: quantity and orders supplied
     so far, then the three aggregates read after the step *)
  | "JUDGE" :: "range" :: rows ->
    let row_of s = (match String.split_on_char '/' s with
        | [sq; sn; cv; ch; cc] -> ((n_of_string sq, n_of_string sn), ((n_of_string cv, n_of_string ch), n_of_string cc))
        | _ -> failwith ("bad row " ^ s)) in
    if range_b (List.map row_of (List.filter (fun s -> s <> "") rows)) then "= 1" else "= 0"
  (* C08: JUDGE handout <listing after set-up> <tid>~<event> ...   (events as in CTRACE) *)
  | "JUDGE" :: "handout" :: init :: toks ->
    let tr = List.filter_map (fun tok ->
        if tok = "" then None else
          match String.split_on_char '~' tok with
          | tid :: fields -> Some (nat_of_int (int_of_string tid), ev_of_fields fields)
          | [] -> None) toks in
    if handout_b (ids (parse_list order_of_string init)) tr then "= 1" else "= 0"
  (* C08: JUDGE cells <listing after set-up> <listing at quiescence | -> <tid>~<event> ... *)
  | "JUDGE" :: "cells" :: init :: fin :: toks ->
    let tr = List.filter_map (fun tok ->
        if tok = "" then None else
          match String.split_on_char '~' tok with
          | tid :: fields -> Some (nat_of_int (int_of_string tid), ev_of_fields fields)
          | [] -> None) toks in
    let m0 = parse_list order_of_string init in
    if cells_b m0 tr && (fin = "-" || final_cells_b m0 tr (parse_list order_of_string fin)) then "= 1" else "= 0"
  (* C08: JUDGE drained <remaining> <listing after the draining match> <cv> <ch> <cc> *)
  | ["JUDGE"; "drained"; rem; after; cv; ch; cc] ->
    if drained_b (n_of_string rem) (parse_list order_of_string after) (n_of_string cv) (n_of_string ch) (n_of_string cc)
    then "= 1" else "= 0"
  | "H" :: fn :: args -> "= " ^ helper false fn args
  | "HR" :: fn :: args -> "= " ^ helper true fn args
  | ["PING"] -> "= pong"
  | _ -> "= error unknown command: " ^ line

let () =
  try
    while true do
      let line = input_line stdin in
      let ans = (try handle line with Failure m -> "= error " ^ m | Not_found -> "= error notfound"
                                    | Invalid_argument m -> "= error " ^ m) in
      print_string ans; print_char '\n'; flush stdout
    done
  with End_of_file -> ()
