(* driver_json.ml — line-protocol co-process around the extracted JSON / snapshot
   package model (model_json.ml, from coq/ExtractJson.v).  One command per line on
   stdin, one answer line ("= ...") on stdout.  Everything semantic is in
   model_json.ml; this file parses, prints and dispatches.

   Compact value encoding: the one of harness/src/enc.rs / modelrun/driver.ml for
   ids (u<n> | l<n>), sides (B|S), time in force (GTC|IOC|FOK|DAY|GTD<n>), peg
   (BB|BA|MP|LT), orders (K:id:price:side:ts:tif:...), updates (UP|UQ|UPQ|C|RP:...),
   extended (same as harness/src/json.rs) with
     uuid      decimal u128
     tx        txid/taker/maker/price/qty/side/ts
     txlist    [tx,tx,...]
     result    taker;[tx,...];remaining;complete(0|1);[oid,...]
     data      price;vis;hid;cnt;[order,...]        (PriceLevelData, PriceLevelSnapshot)
     package   version;x<hex of checksum text>;price;vis;hid;cnt;[order,...]
     stats     added/removed/executed/qty/value/last_exec/first_arrival/sum_wait
     level     TOJSON input: price;[order,...] (new + add_order);
               output: price;vis;hid;cnt;[orders sorted by (timestamp, id token)]
     queue     [order,...]
   JSON text and byte strings travel hex-encoded.

   Commands
     TOJSON <type> <value>      -> = ok <hex of print_json (to_json v)>
     OFJSON <type> <hex text>   -> = ok <value> | = err      (parse_top, then of_json_<type>)
     SER <data>                 -> = ok <hex of ser s>        (the checksum input)
     DIGEST <hex payload> <hex digest>   -> = ok   (tells the driver H(payload); H is SHA-256,
                                            computed OUTSIDE (python hashlib) — the Coq model
                                            has H as a Section variable)
     PKGNEW <data>              -> = ok <package> <hex text_of_package>
     PKGOF <price> <[orders]>   -> = ok <package> <hex text>   (snapshot_package of new+add_order)
     PKGEDIT <package>          -> = validate=<ok|err> into=<ok data|err> restore=<ok level|err> json=<hex>
     RESTORE <hex text>         -> = ok <level> seq=<[orders as parsed]> pkg=<version;xchecksum;price;vis;hid;cnt as parsed> | = err
   Any command that needs H on a payload the driver has no digest for answers
     = need <hex payload>
   and changes nothing; the caller sends DIGEST and repeats the command. *)
module ZA = Z
open Model_json

(* ---------- numbers ---------- *)
let rec pos_to_z = function
  | XH -> ZA.one
  | XO p -> ZA.shift_left (pos_to_z p) 1
  | XI p -> ZA.succ (ZA.shift_left (pos_to_z p) 1)
let n_to_z = function N0 -> ZA.zero | Npos p -> pos_to_z p
let rec z_to_pos z =
  if ZA.equal z ZA.one then XH
  else let h = z_to_pos (ZA.shift_right z 1) in
    if ZA.testbit z 0 then XI h else XO h
let z_to_n z = if ZA.sign z <= 0 then N0 else Npos (z_to_pos z)
let n_of_string s =
  if s = "" then failwith "empty number";
  String.iter (fun c -> if c < '0' || c > '9' then failwith ("bad number " ^ s)) s;
  z_to_n (ZA.of_string s)
let string_of_n n = ZA.to_string (n_to_z n)
let zz_of_string s =
  let z = ZA.of_string s in
  if ZA.sign z = 0 then Z0 else if ZA.sign z > 0 then Zpos (z_to_pos z) else Zneg (z_to_pos (ZA.neg z))
let string_of_zz = function
  | Z0 -> "0" | Zpos p -> ZA.to_string (pos_to_z p) | Zneg p -> "-" ^ ZA.to_string (pos_to_z p)

(* ---------- text ---------- *)
let explode (s : string) : char list = List.init (String.length s) (String.get s)
let implode (l : char list) : string =
  let b = Buffer.create 256 in List.iter (Buffer.add_char b) l; Buffer.contents b
let hexs (s : string) : string =
  let b = Buffer.create (2 * String.length s) in
  String.iter (fun c -> Buffer.add_string b (Printf.sprintf "%02x" (Char.code c))) s; Buffer.contents b
let unhex (s : string) : string =
  let n = String.length s in
  if n mod 2 <> 0 then failwith ("bad hex " ^ s);
  let v c = match c with
    | '0'..'9' -> Char.code c - 48 | 'a'..'f' -> Char.code c - 87 | 'A'..'F' -> Char.code c - 55
    | _ -> failwith ("bad hex " ^ s) in
  String.init (n / 2) (fun i -> Char.chr (16 * v s.[2*i] + v s.[2*i+1]))

(* ---------- tokens (as modelrun/driver.ml) ---------- *)
let oid_of_string s =
  let n = n_of_string (String.sub s 1 (String.length s - 1)) in
  match s.[0] with 'u' -> Uuid n | 'l' -> Ulid n | _ -> failwith ("bad oid " ^ s)
let string_of_oid = function Uuid n -> "u" ^ string_of_n n | Ulid n -> "l" ^ string_of_n n
let side_of_string = function "B" -> Buy | "S" -> Sell | s -> failwith ("bad side " ^ s)
let string_of_side = function Buy -> "B" | Sell -> "S"
let tif_of_string s = match s with
  | "GTC" -> Gtc | "IOC" -> Ioc | "FOK" -> Fok | "DAY" -> Day
  | _ when String.length s > 3 && String.sub s 0 3 = "GTD" ->
    Gtd (n_of_string (String.sub s 3 (String.length s - 3)))
  | _ -> failwith ("bad tif " ^ s)
let string_of_tif = function
  | Gtc -> "GTC" | Ioc -> "IOC" | Fok -> "FOK" | Day -> "DAY" | Gtd n -> "GTD" ^ string_of_n n
let peg_of_string = function
  | "BB" -> BestBid | "BA" -> BestAsk | "MP" -> MidPrice | "LT" -> LastTrade
  | s -> failwith ("bad peg " ^ s)
let string_of_peg = function BestBid -> "BB" | BestAsk -> "BA" | MidPrice -> "MP" | LastTrade -> "LT"

let order_of_string s =
  match String.split_on_char ':' s with
  | kind :: id :: price :: side :: ts :: tif :: rest ->
    let c = { c_id = oid_of_string id; c_price = n_of_string price; c_side = side_of_string side;
              c_ts = n_of_string ts; c_tif = tif_of_string tif } in
    (match kind, rest with
     | "S", [q] -> Standard (c, n_of_string q)
     | "I", [v; h] -> Iceberg (c, n_of_string v, n_of_string h)
     | "P", [q] -> PostOnly (c, n_of_string q)
     | "T", [q; t; l] -> TrailingStop (c, n_of_string q, n_of_string t, n_of_string l)
     | "G", [q; off; p] -> Pegged (c, n_of_string q, zz_of_string off, peg_of_string p)
     | "M", [q] -> MarketToLimit (c, n_of_string q)
     | "R", [v; h; t; a; au] ->
       Reserve (c, n_of_string v, n_of_string h, n_of_string t,
                (if a = "-" then None else Some (n_of_string a)), au = "1")
     | _ -> failwith ("bad order " ^ s))
  | _ -> failwith ("bad order " ^ s)

let com = function
  | Standard (c, _) | Iceberg (c, _, _) | PostOnly (c, _) | TrailingStop (c, _, _, _)
  | Pegged (c, _, _, _) | MarketToLimit (c, _) | Reserve (c, _, _, _, _, _) -> c

let string_of_order o =
  let c = com o in
  let hd k = String.concat ":" [k; string_of_oid c.c_id; string_of_n c.c_price; string_of_side c.c_side;
                                string_of_n c.c_ts; string_of_tif c.c_tif] in
  match o with
  | Standard (_, q) -> hd "S" ^ ":" ^ string_of_n q
  | Iceberg (_, v, h) -> hd "I" ^ ":" ^ string_of_n v ^ ":" ^ string_of_n h
  | PostOnly (_, q) -> hd "P" ^ ":" ^ string_of_n q
  | TrailingStop (_, q, t, l) -> String.concat ":" [hd "T"; string_of_n q; string_of_n t; string_of_n l]
  | Pegged (_, q, off, p) -> String.concat ":" [hd "G"; string_of_n q; string_of_zz off; string_of_peg p]
  | MarketToLimit (_, q) -> hd "M" ^ ":" ^ string_of_n q
  | Reserve (_, v, h, t, a, au) ->
    String.concat ":" [hd "R"; string_of_n v; string_of_n h; string_of_n t;
                       (match a with None -> "-" | Some a -> string_of_n a); (if au then "1" else "0")]

let update_of_string s =
  match String.split_on_char ':' s with
  | ["UP"; k; np] -> UpdatePrice (oid_of_string k, n_of_string np)
  | ["UQ"; k; nq] -> UpdateQuantity (oid_of_string k, n_of_string nq)
  | ["UPQ"; k; np; nq] -> UpdatePriceAndQuantity (oid_of_string k, n_of_string np, n_of_string nq)
  | ["C"; k] -> Cancel (oid_of_string k)
  | ["RP"; k; p; q; sd] -> Replace (oid_of_string k, n_of_string p, n_of_string q, side_of_string sd)
  | _ -> failwith ("bad update " ^ s)
let string_of_update = function
  | UpdatePrice (k, np) -> String.concat ":" ["UP"; string_of_oid k; string_of_n np]
  | UpdateQuantity (k, nq) -> String.concat ":" ["UQ"; string_of_oid k; string_of_n nq]
  | UpdatePriceAndQuantity (k, np, nq) ->
    String.concat ":" ["UPQ"; string_of_oid k; string_of_n np; string_of_n nq]
  | Cancel k -> "C:" ^ string_of_oid k
  | Replace (k, p, q, s) ->
    String.concat ":" ["RP"; string_of_oid k; string_of_n p; string_of_n q; string_of_side s]

let list_str f l = "[" ^ String.concat "," (List.map f l) ^ "]"
let parse_list f s =
  let n = String.length s in
  if n < 2 || s.[0] <> '[' || s.[n-1] <> ']' then failwith ("bad list " ^ s);
  let body = String.sub s 1 (n - 2) in
  if body = "" then [] else List.map f (String.split_on_char ',' body)

(* ---------- new value types ---------- *)
let tx_of_string s =
  match String.split_on_char '/' s with
  | [i; tk; mk; p; q; sd; ts] ->
    { jt_id = n_of_string i; jt_taker = oid_of_string tk; jt_maker = oid_of_string mk;
      jt_price = n_of_string p; jt_qty = n_of_string q; jt_side = side_of_string sd; jt_ts = n_of_string ts }
  | _ -> failwith ("bad tx " ^ s)
let string_of_tx t =
  String.concat "/" [string_of_n t.jt_id; string_of_oid t.jt_taker; string_of_oid t.jt_maker;
                     string_of_n t.jt_price; string_of_n t.jt_qty; string_of_side t.jt_side;
                     string_of_n t.jt_ts]
let result_of_string s =
  match String.split_on_char ';' s with
  | [k; txs; rem; c; f] ->
    { jr_taker = oid_of_string k; jr_txs = parse_list tx_of_string txs; jr_rem = n_of_string rem;
      jr_complete = (c = "1"); jr_filled = parse_list oid_of_string f }
  | _ -> failwith ("bad result " ^ s)
let string_of_result r =
  String.concat ";" [string_of_oid r.jr_taker; list_str string_of_tx r.jr_txs; string_of_n r.jr_rem;
                     (if r.jr_complete then "1" else "0"); list_str string_of_oid r.jr_filled]
let data_of_parts = function
  | [p; v; h; c; os] ->
    { sn_price = n_of_string p; sn_vis = n_of_string v; sn_hid = n_of_string h; sn_cnt = n_of_string c;
      sn_orders = parse_list order_of_string os }
  | _ -> failwith "bad data"
let data_of_string s = data_of_parts (String.split_on_char ';' s)
let string_of_data s =
  String.concat ";" [string_of_n s.sn_price; string_of_n s.sn_vis; string_of_n s.sn_hid;
                     string_of_n s.sn_cnt; list_str string_of_order s.sn_orders]
let package_of_string s =
  match String.split_on_char ';' s with
  | v :: c :: rest when String.length c >= 1 && c.[0] = 'x' ->
    { p_version = n_of_string v; p_snap = data_of_parts rest;
      p_checksum = explode (unhex (String.sub c 1 (String.length c - 1))) }
  | _ -> failwith ("bad package " ^ s)
let string_of_package p =
  String.concat ";" [string_of_n p.p_version; "x" ^ hexs (implode p.p_checksum); string_of_data p.p_snap]
let stats_of_string s =
  match List.map n_of_string (String.split_on_char '/' s) with
  | [a; r; e; q; v; l; f; w] ->
    { js_added = a; js_removed = r; js_executed = e; js_qty = q; js_value = v; js_last = l;
      js_first = f; js_wait = w }
  | _ -> failwith ("bad stats " ^ s)
let string_of_stats s =
  String.concat "/" (List.map string_of_n [s.js_added; s.js_removed; s.js_executed; s.js_qty; s.js_value;
                                           s.js_last; s.js_first; s.js_wait])
let sort_orders os =
  List.sort (fun a b ->
      let c = ZA.compare (n_to_z (ts_of a)) (n_to_z (ts_of b)) in
      if c <> 0 then c else String.compare (string_of_oid (oid_of a)) (string_of_oid (oid_of b))) os
let string_of_level (l : level) =
  String.concat ";" [string_of_n l.price; string_of_n l.cvis; string_of_n l.chid; string_of_n l.ccnt;
                     list_str string_of_order (sort_orders l.lq.qmap)]
let level_of_string s =
  match String.split_on_char ';' s with
  | [p; os] -> from_data (n_of_string p) (parse_list order_of_string os)
  | _ -> failwith ("bad level " ^ s)

(* ---------- SHA-256 from the outside ---------- *)
exception Need of string
let digests : (string, string) Hashtbl.t = Hashtbl.create 1024
let h (payload : char list) : char list =
  let k = implode payload in
  match Hashtbl.find_opt digests k with
  | Some d -> explode d
  | None -> raise (Need k)
let hex = hex_lower

(* ---------- dispatch ---------- *)
let to_json ty v : json =
  match ty with
  | "side" -> to_json_side (side_of_string v)
  | "tif" -> to_json_tif (tif_of_string v)
  | "peg" -> to_json_peg (peg_of_string v)
  | "oid" -> to_json_oid (oid_of_string v)
  | "order" -> to_json_order (order_of_string v)
  | "update" -> to_json_update (update_of_string v)
  | "uuid" -> to_json_uuid (n_of_string v)
  | "tx" -> to_json_tx (tx_of_string v)
  | "txlist" -> to_json_txlist (parse_list tx_of_string v)
  | "result" -> to_json_result (result_of_string v)
  | "data" -> to_json_data (data_of_string v)
  | "level" -> to_json_level (level_of_string v)
  | "snapshot" -> to_json_snapshot (data_of_string v)
  | "package" -> to_json_package (package_of_string v)
  | "stats" -> to_json_stats (stats_of_string v)
  | "queue" -> to_json_orders (parse_list order_of_string v)
  | _ -> failwith ("unknown type " ^ ty)

let okf f = function Some v -> "ok " ^ f v | None -> "err"

let of_json ty (j : json) : string =
  match ty with
  | "side" -> okf string_of_side (of_json_side j)
  | "tif" -> okf string_of_tif (of_json_tif j)
  | "peg" -> okf string_of_peg (of_json_peg j)
  | "oid" -> okf string_of_oid (of_json_oid j)
  | "order" -> okf string_of_order (of_json_order j)
  | "update" -> okf string_of_update (of_json_update j)
  | "uuid" -> okf string_of_n (of_json_uuid j)
  | "tx" -> okf string_of_tx (of_json_tx j)
  | "txlist" -> okf (list_str string_of_tx) (of_json_txlist j)
  | "result" -> okf string_of_result (of_json_result j)
  | "data" -> okf string_of_data (of_json_data j)
  | "level" -> okf string_of_level (of_json_level j)
  | "snapshot" -> okf string_of_data (of_json_snapshot j)
  | "package" -> okf string_of_package (of_json_package j)
  | "stats" -> okf string_of_stats (of_json_stats N0 j)
  | "queue" -> okf (fun (q : queue) -> list_str string_of_order (sort_orders q.qmap)) (of_json_queue j)
  | _ -> failwith ("unknown type " ^ ty)

let handle line =
  match String.split_on_char ' ' line with
  | ["TOJSON"; ty; v] -> "= ok " ^ hexs (implode (print_json (to_json ty v)))
  | ["OFJSON"; ty; t] ->
    (match parse_top (explode (unhex t)) with
     | Some j -> "= " ^ of_json ty j
     | None -> "= err")
  | ["SER"; d] -> "= ok " ^ hexs (implode (ser (data_of_string d)))
  | ["DIGEST"; p; d] -> Hashtbl.replace digests (unhex p) (unhex d); "= ok"
  | ["PKGNEW"; d] ->
    let p = package_new h hex (data_of_string d) in
    "= ok " ^ string_of_package p ^ " " ^ hexs (implode (text_of_package p))
  | ["PKGOF"; price; os] ->
    let l = level_of_string (price ^ ";" ^ os) in
    let p = snapshot_package h hex l in
    "= ok " ^ string_of_package p ^ " " ^ hexs (implode (snapshot_to_json h hex l))
  | ["PKGEDIT"; ps] ->
    let p = package_of_string ps in
    let v = if validate h hex p then "ok" else "err" in
    let into = okf string_of_data (into_snapshot h hex p) in
    let rs = okf string_of_level (from_snapshot_package h hex p) in
    Printf.sprintf "= validate=%s into=%s restore=%s json=%s" v into rs (hexs (implode (text_of_package p)))
  | ["RESTORE"; t] ->
    let text = explode (unhex t) in
    (match from_snapshot_json h hex text with
     | Some l ->
       let seq = (match package_from_json text with
           | Some p ->
             list_str string_of_order p.p_snap.sn_orders ^ " pkg=" ^
             String.concat ";" [string_of_n p.p_version; "x" ^ hexs (implode p.p_checksum);
                                string_of_n p.p_snap.sn_price; string_of_n p.p_snap.sn_vis;
                                string_of_n p.p_snap.sn_hid; string_of_n p.p_snap.sn_cnt]
           | None -> "?") in
       "= ok " ^ string_of_level l ^ " seq=" ^ seq
     | None -> "= err")
  | ["PING"] -> "= pong"
  | _ -> "= error unknown command: " ^ line

let () =
  try
    while true do
      let line = input_line stdin in
      let ans = (try handle line with
          | Need k -> "= need " ^ hexs k
          | Failure m -> "= error " ^ m | Not_found -> "= error notfound"
          | Invalid_argument m -> "= error " ^ m) in
      print_string ans; print_char '\n'; flush stdout
    done
  with End_of_file -> ()
