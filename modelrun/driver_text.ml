(* driver_text.ml — line-protocol co-process around the extracted text-codec model
   (model_text.ml, extracted by coq/ExtractText.v).  Used by ./check C16 and C18;
   the Rust side (harness/src/text.rs, `harness text`) reads the same commands
   and prints the same canonical answer lines, so python diffs line by line.
   Everything semantic is in model_text.ml; this file only parses, prints and
   dispatches.

   Commands (one per line, fields separated by one space):
     PRINT <type> <value>       ->  t <hex of the text's bytes>
     PARSE <type> <hex bytes>   ->  ok <value> | err | panic
     SWEEP <side|tif> <hex prefix> <hex suffix>
                                ->  sweep <cp>:<value>,...   every Unicode scalar value cp for
                                    which PARSE of prefix ++ utf8(cp) ++ suffix is ok
     PING                       ->  pong
   anything malformed           ->  error <message>

   <type> and the compact <value> encoding (that of harness/src/enc.rs and
   modelrun/driver.ml for ids, orders and updates, extended):
     side    B | S
     tif     GTC | IOC | FOK | DAY | GTD<n>
     peg     BB | BA | MP | LT
     oid     u<decimal u128> | l<decimal u128>
     uuid    <decimal u128>                         (Uuid::from_str / Display alone)
     order   <K>:<oid>:<price>:<side>:<ts>:<tif>:<variant fields...>   (see enc.rs)
     update  UP:k:np | UQ:k:nq | UPQ:k:np:nq | C:k | RP:k:p:q:side
     txn     <tid>/<taker oid>/<maker oid>/<price>/<qty>/<side>/<ts>
     txlist  [txn,txn,...]
     mr      <oid>|<remaining>|<complete 0/1>|[txn,...]|[oid,...]
     mrold   as mr, parsed with the scanner as it was before the repair (model only)
     stats   a/r/e/q/v/l/f/w                        (the eight counters in Display order)
     snap    price/visible/hidden/count
     queue   [order,...]       PRINT: pushed in this order; PARSE answer: the listing
                               (to_vec of the queue built by pushing the parsed orders)
     level   PRINT: <price>|[order,...]  (new + add_order each, then printed)
             PARSE answer: <price>|<visible>|<hidden>|<count>|[listing]
                               (from_data = new + add_order of the parsed orders) *)
module ZA = Z
open Model_text

(* ---------- numbers ---------- *)
let rec pos_to_z = function
  | XH -> ZA.one
  | XO p -> ZA.shift_left (pos_to_z p) 1
  | XI p -> ZA.succ (ZA.shift_left (pos_to_z p) 1)
let n_to_z = function N0 -> ZA.zero | Npos p -> pos_to_z p
let rec z_to_pos z =
  if ZA.equal z ZA.one then XH
  else let h = z_to_pos (ZA.shift_right z 1) in
    if ZA.testbit z 0 then XI h else XO h
let z_to_n z = if ZA.sign z <= 0 then N0 else Npos (z_to_pos z)
let n_of_string s =
  if s = "" then failwith "empty number";
  String.iter (fun c -> if c < '0' || c > '9' then failwith ("bad number " ^ s)) s;
  z_to_n (ZA.of_string s)
let string_of_n n = ZA.to_string (n_to_z n)
let zz_of_string s =
  let z = ZA.of_string s in
  if ZA.sign z = 0 then Z0 else if ZA.sign z > 0 then Zpos (z_to_pos z) else Zneg (z_to_pos (ZA.neg z))
let string_of_zz = function
  | Z0 -> "0" | Zpos p -> ZA.to_string (pos_to_z p) | Zneg p -> "-" ^ ZA.to_string (pos_to_z p)

(* ---------- bytes ---------- *)
let chars_of_string s = List.init (String.length s) (String.get s)
let string_of_chars l = let b = Buffer.create 64 in List.iter (Buffer.add_char b) l; Buffer.contents b
let hex_of_string s =
  let b = Buffer.create (2 * String.length s) in
  String.iter (fun c -> Buffer.add_string b (Printf.sprintf "%02x" (Char.code c))) s;
  Buffer.contents b
let string_of_hex h =
  let n = String.length h in
  if n mod 2 <> 0 then failwith "odd hex";
  String.init (n / 2) (fun i -> Char.chr (int_of_string ("0x" ^ String.sub h (2 * i) 2)))
let utf8_of_cp cp =
  let b = Buffer.create 4 in
  let add i = Buffer.add_char b (Char.chr i) in
  if cp < 0x80 then add cp
  else if cp < 0x800 then (add (0xC0 lor (cp lsr 6)); add (0x80 lor (cp land 0x3F)))
  else if cp < 0x10000 then
    (add (0xE0 lor (cp lsr 12)); add (0x80 lor ((cp lsr 6) land 0x3F)); add (0x80 lor (cp land 0x3F)))
  else (add (0xF0 lor (cp lsr 18)); add (0x80 lor ((cp lsr 12) land 0x3F));
        add (0x80 lor ((cp lsr 6) land 0x3F)); add (0x80 lor (cp land 0x3F)));
  Buffer.contents b

(* ---------- tokens ---------- *)
let oid_of_string s =
  if String.length s < 2 then failwith ("bad oid " ^ s);
  let n = n_of_string (String.sub s 1 (String.length s - 1)) in
  match s.[0] with 'u' -> Uuid n | 'l' -> Ulid n | _ -> failwith ("bad oid " ^ s)
let string_of_oid = function Uuid n -> "u" ^ string_of_n n | Ulid n -> "l" ^ string_of_n n
let side_of_string = function "B" -> Buy | "S" -> Sell | s -> failwith ("bad side " ^ s)
let string_of_side = function Buy -> "B" | Sell -> "S"
let tif_of_string s = match s with
  | "GTC" -> Gtc | "IOC" -> Ioc | "FOK" -> Fok | "DAY" -> Day
  | _ when String.length s > 3 && String.sub s 0 3 = "GTD" ->
    Gtd (n_of_string (String.sub s 3 (String.length s - 3)))
  | _ -> failwith ("bad tif " ^ s)
let string_of_tif = function
  | Gtc -> "GTC" | Ioc -> "IOC" | Fok -> "FOK" | Day -> "DAY" | Gtd n -> "GTD" ^ string_of_n n
let peg_of_string = function
  | "BB" -> BestBid | "BA" -> BestAsk | "MP" -> MidPrice | "LT" -> LastTrade
  | s -> failwith ("bad peg " ^ s)
let string_of_peg = function BestBid -> "BB" | BestAsk -> "BA" | MidPrice -> "MP" | LastTrade -> "LT"

let order_of_string s =
  match String.split_on_char ':' s with
  | kind :: id :: price :: side :: ts :: tif :: rest ->
    let c = { c_id = oid_of_string id; c_price = n_of_string price; c_side = side_of_string side;
              c_ts = n_of_string ts; c_tif = tif_of_string tif } in
    (match kind, rest with
     | "S", [q] -> Standard (c, n_of_string q)
     | "I", [v; h] -> Iceberg (c, n_of_string v, n_of_string h)
     | "P", [q] -> PostOnly (c, n_of_string q)
     | "T", [q; t; l] -> TrailingStop (c, n_of_string q, n_of_string t, n_of_string l)
     | "G", [q; off; p] -> Pegged (c, n_of_string q, zz_of_string off, peg_of_string p)
     | "M", [q] -> MarketToLimit (c, n_of_string q)
     | "R", [v; h; t; a; au] ->
       Reserve (c, n_of_string v, n_of_string h, n_of_string t,
                (if a = "-" then None else Some (n_of_string a)), au = "1")
     | _ -> failwith ("bad order " ^ s))
  | _ -> failwith ("bad order " ^ s)

let com = function
  | Standard (c, _) | Iceberg (c, _, _) | PostOnly (c, _) | TrailingStop (c, _, _, _)
  | Pegged (c, _, _, _) | MarketToLimit (c, _) | Reserve (c, _, _, _, _, _) -> c

let string_of_order o =
  let c = com o in
  let hd k = String.concat ":" [k; string_of_oid c.c_id; string_of_n c.c_price; string_of_side c.c_side;
                                string_of_n c.c_ts; string_of_tif c.c_tif] in
  match o with
  | Standard (_, q) -> hd "S" ^ ":" ^ string_of_n q
  | Iceberg (_, v, h) -> hd "I" ^ ":" ^ string_of_n v ^ ":" ^ string_of_n h
  | PostOnly (_, q) -> hd "P" ^ ":" ^ string_of_n q
  | TrailingStop (_, q, t, l) -> String.concat ":" [hd "T"; string_of_n q; string_of_n t; string_of_n l]
  | Pegged (_, q, off, p) -> String.concat ":" [hd "G"; string_of_n q; string_of_zz off; string_of_peg p]
  | MarketToLimit (_, q) -> hd "M" ^ ":" ^ string_of_n q
  | Reserve (_, v, h, t, a, au) ->
    String.concat ":" [hd "R"; string_of_n v; string_of_n h; string_of_n t;
                       (match a with None -> "-" | Some a -> string_of_n a); (if au then "1" else "0")]

let update_of_string s =
  match String.split_on_char ':' s with
  | ["UP"; k; np] -> UpdatePrice (oid_of_string k, n_of_string np)
  | ["UQ"; k; nq] -> UpdateQuantity (oid_of_string k, n_of_string nq)
  | ["UPQ"; k; np; nq] -> UpdatePriceAndQuantity (oid_of_string k, n_of_string np, n_of_string nq)
  | ["C"; k] -> Cancel (oid_of_string k)
  | ["RP"; k; p; q; sd] -> Replace (oid_of_string k, n_of_string p, n_of_string q, side_of_string sd)
  | _ -> failwith ("bad update " ^ s)
let string_of_update = function
  | UpdatePrice (k, np) -> String.concat ":" ["UP"; string_of_oid k; string_of_n np]
  | UpdateQuantity (k, nq) -> String.concat ":" ["UQ"; string_of_oid k; string_of_n nq]
  | UpdatePriceAndQuantity (k, np, nq) ->
    String.concat ":" ["UPQ"; string_of_oid k; string_of_n np; string_of_n nq]
  | Cancel k -> "C:" ^ string_of_oid k
  | Replace (k, p, q, sd) ->
    String.concat ":" ["RP"; string_of_oid k; string_of_n p; string_of_n q; string_of_side sd]

let list_str f l = "[" ^ String.concat "," (List.map f l) ^ "]"
let parse_list f s =
  let n = String.length s in
  if n < 2 || s.[0] <> '[' || s.[n-1] <> ']' then failwith ("bad list " ^ s);
  let body = String.sub s 1 (n - 2) in
  if body = "" then [] else List.map f (String.split_on_char ',' body)

let txn_of_string s =
  match String.split_on_char '/' s with
  | [tid; tk; mk; p; q; sd; ts] ->
    { t_id = n_of_string tid; t_taker = oid_of_string tk; t_maker = oid_of_string mk;
      t_price = n_of_string p; t_qty = n_of_string q; t_side = side_of_string sd; t_ts = n_of_string ts }
  | _ -> failwith ("bad txn " ^ s)
let string_of_txn t =
  String.concat "/" [string_of_n t.t_id; string_of_oid t.t_taker; string_of_oid t.t_maker;
                     string_of_n t.t_price; string_of_n t.t_qty; string_of_side t.t_side; string_of_n t.t_ts]

let mr_of_string s =
  match String.split_on_char '|' s with
  | [k; rem; comp; txs; filled] ->
    { mr_order_id = oid_of_string k; mr_txs = parse_list txn_of_string txs; mr_remaining = n_of_string rem;
      mr_complete = (comp = "1"); mr_filled = parse_list oid_of_string filled }
  | _ -> failwith ("bad mr " ^ s)
let string_of_mr r =
  String.concat "|" [string_of_oid r.mr_order_id; string_of_n r.mr_remaining;
                     (if r.mr_complete then "1" else "0"); list_str string_of_txn r.mr_txs;
                     list_str string_of_oid r.mr_filled]

let stats_of_string s =
  match List.map n_of_string (String.split_on_char '/' s) with
  | [a; r; e; q; v; l; f; w] ->
    { x_added = a; x_removed = r; x_executed = e; x_qty = q; x_value = v; x_last = l; x_first = f; x_wait = w }
  | _ -> failwith ("bad stats " ^ s)
let string_of_stats x =
  String.concat "/" (List.map string_of_n [x.x_added; x.x_removed; x.x_executed; x.x_qty; x.x_value;
                                            x.x_last; x.x_first; x.x_wait])
let snap_of_string s =
  match List.map n_of_string (String.split_on_char '/' s) with
  | [p; v; h; c] -> { ss_price = p; ss_vis = v; ss_hid = h; ss_cnt = c }
  | _ -> failwith ("bad snap " ^ s)
let string_of_snap x = String.concat "/" (List.map string_of_n [x.ss_price; x.ss_vis; x.ss_hid; x.ss_cnt])

let string_of_level_content (l : level) =
  String.concat "|" [string_of_n l.price; string_of_n l.cvis; string_of_n l.chid; string_of_n l.ccnt;
                     list_str string_of_order (to_vec l.lq)]

(* ---------- dispatch ---------- *)
let answer_of_outcome f = function
  | POk v -> "ok " ^ f v
  | PErr -> "err"
  | PPanic -> "panic"
let opt_outcome = function Some v -> POk v | None -> PErr

let do_print ty v : str =
  match ty with
  | "side" -> print_side (side_of_string v)
  | "tif" -> print_tif (tif_of_string v)
  | "peg" -> print_peg (peg_of_string v)
  | "oid" -> print_oid (oid_of_string v)
  | "uuid" -> print_uuid (n_of_string v)
  | "order" -> print_order (order_of_string v)
  | "update" -> print_update (update_of_string v)
  | "txn" -> print_txn (txn_of_string v)
  | "txlist" -> print_txlist (parse_list txn_of_string v)
  | "mr" -> print_match_result (mr_of_string v)
  | "stats" -> print_stats (stats_of_string v)
  | "snap" -> print_snapshot (snap_of_string v)
  | "queue" -> print_queue (to_vec (from_vec (parse_list order_of_string v)))
  | "level" ->
    (match String.split_on_char '|' v with
     | [p; os] ->
       let l = from_data (n_of_string p) (parse_list order_of_string os) in
       print_level { lt_price = l.price; lt_vis = l.cvis; lt_hid = l.chid; lt_cnt = l.ccnt;
                     lt_orders = to_vec l.lq }
     | _ -> failwith ("bad level " ^ v))
  | _ -> failwith ("unknown type " ^ ty)

let do_parse ty (s : str) : string =
  match ty with
  | "side" -> answer_of_outcome string_of_side (parse_side s)
  | "tif" -> answer_of_outcome string_of_tif (parse_tif s)
  | "peg" -> answer_of_outcome string_of_peg (parse_peg s)
  | "oid" -> answer_of_outcome string_of_oid (parse_oid s)
  | "uuid" -> answer_of_outcome string_of_n (opt_outcome (parse_uuid s))
  | "order" -> answer_of_outcome string_of_order (parse_order s)
  | "update" -> answer_of_outcome string_of_update (parse_update s)
  | "txn" -> answer_of_outcome string_of_txn (parse_txn s)
  | "txlist" -> answer_of_outcome (list_str string_of_txn) (parse_txlist s)
  | "mr" -> answer_of_outcome string_of_mr (parse_match_result s)
  | "mrold" -> answer_of_outcome string_of_mr (parse_match_result_old s)
  | "stats" -> answer_of_outcome string_of_stats (parse_stats s)
  | "snap" -> answer_of_outcome string_of_snap (parse_snapshot s)
  | "queue" ->
    answer_of_outcome (fun os -> list_str string_of_order (to_vec (from_vec os))) (parse_queue s)
  | "level" ->
    answer_of_outcome (fun (p, os) -> string_of_level_content (from_data p os)) (parse_level s)
  | _ -> failwith ("unknown type " ^ ty)

let do_sweep ty pre suf =
  let b = Buffer.create 1024 in
  let first = ref true in
  for cp = 0 to 0x10FFFF do
    if cp < 0xD800 || cp > 0xDFFF then begin
      let s = chars_of_string (pre ^ utf8_of_cp cp ^ suf) in
      let r = (match ty with
          | "side" -> (match parse_side s with POk v -> Some (string_of_side v) | _ -> None)
          | "tif" -> (match parse_tif s with POk v -> Some (string_of_tif v) | _ -> None)
          | _ -> failwith ("cannot sweep " ^ ty)) in
      match r with
      | Some v ->
        if not !first then Buffer.add_char b ',';
        first := false;
        Buffer.add_string b (Printf.sprintf "%d:%s" cp v)
      | None -> ()
    end
  done;
  "sweep " ^ Buffer.contents b

let handle line =
  match String.split_on_char ' ' line with
  | ["PRINT"; ty; v] -> "t " ^ hex_of_string (string_of_chars (do_print ty v))
  | ["PARSE"; ty; h] -> do_parse ty (chars_of_string (string_of_hex h))
  | ["PARSE"; ty] -> do_parse ty []
  | ["SWEEP"; ty; pre; suf] -> do_sweep ty (string_of_hex pre) (string_of_hex suf)
  | ["PING"] -> "pong"
  | _ -> "error unknown command: " ^ line

let () =
  try
    while true do
      let line = input_line stdin in
      let ans = (try handle line with Failure m -> "error " ^ m | Not_found -> "error notfound"
                                    | Invalid_argument m -> "error " ^ m) in
      print_string ans; print_char '\n'
    done
  with End_of_file -> flush stdout
