"""C15 — level statistics agree with the events that actually happened (sequential half;
the concurrent half runs under the scheduler, see conc.py / c15 run below)."""
from . import gen, lvl, conc
from .lvlprop import *


def judge(rec, price, ops):
    adds = rems = qty = val = 0
    for o in rec["ops"]:
        I = o["I"]
        if I in ("panic", "timeout"):
            return [(o["i"], "implementation " + I)]
        if I == "skipped" or I.startswith("read="):
            continue
        d = lvl.kv(I.split(" || ")[0])
        op = o["op"]
        if op.startswith("ADD "):
            adds += 1
        elif op.startswith("UPD "):
            out = d.get("out", "")
            if out.startswith("ok:") and out != "ok:-":
                u = op[4:].split(":")
                removal = (u[0] == "C") or (u[0] in ("UP", "UPQ", "RP") and int(u[2]) != price)
                if removal:
                    rems += 1
        elif op.startswith("MATCH "):
            for t in gen.parse_list(d["txs"]):
                f = t.split("/")
                qty += int(f[4])
                val += int(f[4]) * int(f[3])
                if int(f[3]) != price:
                    return [(o["i"], "transaction priced %s at a level of price %d" % (f[3], price))]
        if "st" in d:
            a, r, _, q, v = [int(x) for x in d["st"].split("/")]
            if (a, r, q, v) != (adds, rems, qty, val):
                return [(o["i"], "statistics after `%s`: added/removed/quantity/value = %d/%d/%d/%d, events say %d/%d/%d/%d" % (
                    op[:50], a, r, q, v, adds, rems, qty, val))]
    return []


def corr_filter(text):
    return " st " in text or "panic" in text or "model=" in text


def make_cases(rng, tier):
    n = 1200 if tier == "quick" else 30000
    # the property's domain: positive quantities, orders priced at the level price, no rebuild
    return histories(rng, n, allow_zero=False, at_level_price=True, rebuilds=False, forks=False)


def conc_part(ck):
    """Concurrent half: statistics at quiescence under the deterministic scheduler."""
    import random
    pr = check_proofs("C15conc", coqchk=(ck.tier == "thorough"))
    for t in pr["theorems"]:
        ck.oblige("theorem " + t, pr["ok"], pr["failed"] or "")
    if not pr["ok"]:
        ck.violation("conc_proofs", dict(broken=pr["failed"], theorem="Properties/C15conc.v", log=pr["log"][-1500:]), note="no-failing-input-found")
    rng = random.Random(ck.seed + 15)
    n = 400 if ck.tier == "quick" else 8000
    lines, progs = [], []
    for i in range(n):
        g = conc.ProgGen(rng)
        setup, threads = g.program()
        line = conc.prog_line("p%d" % i, g.price, setup, threads, ("r%d" if i % 3 else "p%d") % rng.randint(1, 10 ** 9), "mode=O,proj=map+tk")
        lines.append(line)
    recs = conc.run_progs(lines)
    bad, rej = [], []
    for rec, line in zip(recs, lines):
        prog = conc.parse_prog(line)
        info = conc.analyse(rec, prog)
        j = conc.judge_stats(rec, prog, info)
        if rec["X"]:
            j = j or "; ".join(rec["X"])
        if j:
            bad.append((line, j, rec["K"]))
        if not (rec["V"] or "").startswith("accepted"):
            rej.append((line, rec["V"], rec["K"]))
        elif rec["Q"] and rec["Q"] != "aborted" and conc.kv(rec["V"])["st"] != conc.kv(rec["Q"])["st"]:
            rej.append((line, "final statistics: implementation %s, model %s" % (conc.kv(rec["Q"])["st"], conc.kv(rec["V"])["st"]), rec["K"]))
    ck.cov["evaluations"] += sum(len(r["ev"]) for r in recs)
    ck.extra["concurrent_programs"] = len(recs)
    ck.oblige("concurrent: event trace of every scheduled run accepted by Model/Conc.v", not rej, "%d rejected" % len(rej))
    ck.oblige("concurrent judge: statistics at quiescence = events of the run", not bad, "%d runs" % len(bad))
    if bad:
        line, why, k = bad[0]
        ck.violation("conc_fail", dict(kind="conc-program", program=line, schedule=k, why=why))
    elif rej:
        line, v, k = rej[0]
        ck.violation("conc_unproved", dict(kind="conc-program", broken="correspondence: trace not accepted by Model/Conc.v",
                                           program=line, schedule=k, model_says=v), note="no-failing-input-found")


def run(tier, seed, replay=None):
    if replay:
        import json
        r = json.load(open(replay))
        if r.get("kind") == "conc-program":
            from . import concprop
            return concprop.replay_conc("C15", tier, seed, r, lambda rec, prog, info: conc.judge_stats(rec, prog, info))
    return run_property("C15", tier, seed, replay, make_cases=make_cases, judge=judge, corr_filter=corr_filter,
                        nontrivial=nontrivial_default, extra_obligations=conc_part)
