"""C15 — level statistics agree with the events that actually happened (sequential half;
the concurrent half runs under the scheduler, see conc.py / c15 run below)."""
from . import gen, lvl, conc
from .lvlprop import *
from .c06 import judges_agree


def judge(rec, price, ops):
    adds = rems = qty = val = 0
    for o in rec["ops"]:
        I = o["I"]
        if I in ("panic", "timeout"):
            return [(o["i"], "implementation " + I)]
        if I == "skipped" or I.startswith("read="):
            continue
        d = lvl.kv(I.split(" || ")[0])
        op = o["op"]
        if op.startswith("REBUILD ") and d.get("built", "ok") == "ok":
            # the rebuilt level is a new level object: its statistics count the events since it was built
            # (built through add_order by the text / data forms: `orders_added` then starts at the number of orders; the
            # property does not say which, so the rebuilt level's own report is the baseline)
            if "st" in d:
                adds, rems, _, qty, val = [int(x) for x in d["st"].split("/")]
                if rems or qty or val or adds not in (0, len(gen.parse_list(d["vec"]))):
                    return [(o["i"], "a freshly rebuilt level reports statistics %s" % d["st"])]
            continue
        if op.startswith("ADD "):
            adds += 1
        elif op.startswith("UPD "):
            out = d.get("out", "")
            if out.startswith("ok:") and out != "ok:-":
                u = op[4:].split(":")
                removal = (u[0] == "C") or (u[0] in ("UP", "UPQ", "RP") and int(u[2]) != price)
                if removal:
                    rems += 1
        elif op.startswith("MATCH "):
            for t in gen.parse_list(d["txs"]):
                f = t.split("/")
                qty += int(f[4])
                val += int(f[4]) * int(f[3])
                if int(f[3]) != price:
                    return [(o["i"], "transaction priced %s at a level of price %d" % (f[3], price))]
        if "st" in d:
            a, r, _, q, v = [int(x) for x in d["st"].split("/")]
            if (a, r, q, v) != (adds, rems, qty, val):
                return [(o["i"], "statistics after `%s`: added/removed/quantity/value = %d/%d/%d/%d, events say %d/%d/%d/%d" % (
                    op[:50], a, r, q, v, adds, rems, qty, val))]
    return []


# ---- the statement handed to the extracted Coq judge (Spec/Judges.v: stats_b <=> StatsAgree, stats_rebuild_b <=>
# StatsAgreeR; Properties/Tie.v Tie_judge_stats*): one per history, on the last statistics the implementation reported
# and the events up to there.
# Events: A|<order>   M|<qty>|<taker>|<txs>|<remaining>|<complete>   U|<update>|<outcome>   and, for a rebuild of the
# level from its own snapshot-like (snap, ref, pkg, pjson) / data-like (data, text) form,   B|snap|<listing>
# B|data|<listing>   with <listing> = the implementation's listing of the level just before the rebuild.
# Read-only calls are left out (an ORead event counts 0 in every sum of Spec/StatsSpec.v).  A history without a rebuild
# gets a `stats` statement (C15_stats_mod), a history with rebuilds a `statsr` statement (C15_across_rebuilds_mod: what
# the last rebuild recorded + the events since); a history with any other operation (fork, external data, a rebuild
# that failed) gets no statement.

SNAP_LIKE = ("snap", "ref", "pkg", "pjson")     # harness/src/level.rs via_family: these restart at 0/0/0/0; data, text re-add


def _event_sums(price, evs):
    """counts / sums of Spec/StatsSpec.v over event tokens (no rebuild among them) -> (adds, rems, qty, val, prices ok)"""
    adds = rems = qty = val = 0
    ok = True
    for e in evs:
        f = e.split("|")
        if f[0] == "A":
            adds += 1
        elif f[0] == "U":
            u = f[1].split(":")
            if f[2].startswith("ok:") and f[2] != "ok:-" and (u[0] == "C" or (u[0] in ("UP", "UPQ", "RP") and int(u[2]) != price)):
                rems += 1
        elif f[0] == "M":
            for t in gen.parse_list(f[3]):
                x = t.split("/")
                qty += int(x[4])
                val += int(x[4]) * int(x[3])
                if int(x[3]) != price:
                    ok = False
    return adds, rems, qty, val, ok


def stats_stmt_ok(price, added, removed, quantity, value, evs):
    """python restatement of StatsAgree (Spec/Judges.v) on the event tokens of one history"""
    adds, rems, qty, val, ok = _event_sums(price, evs)
    return ok and (added, removed, quantity, value) == (adds % W, rems % W, qty % W, val % W)


def statsr_stmt_ok(price, added, removed, quantity, value, evs):
    """python restatement of StatsAgreeR (Spec/Judges.v): the counters are what the LAST rebuild recorded (one order added
    per order listed to a data-like rebuild, nothing for a snapshot-like one) plus the counts / sums over the events
    since it; every transaction of the whole history carries the level price"""
    last = max([k for k, e in enumerate(evs) if e.startswith("B|")], default=None)
    base, since = 0, evs
    if last is not None:
        f = evs[last].split("|")
        base = len(gen.parse_list(f[2])) if f[1] == "data" else 0
        since = evs[last + 1:]
    adds, rems, qty, val, _ = _event_sums(price, since)
    ok = _event_sums(price, [e for e in evs if not e.startswith("B|")])[4]
    return ok and (added, removed, quantity, value) == ((base + adds) % W, rems % W, qty % W, val % W)


def statements(rec, price, ops):
    """-> [(opindex, JUDGE query, text, verdict of the python restatement on exactly this statement)]"""
    evs, last = [], None
    vec = "[]"          # the implementation's latest listing of the level (a new level is empty)
    for o in rec["ops"]:
        I = o["I"]
        if I in ("panic", "timeout"):
            break
        if I == "skipped" or I.startswith("read="):
            continue
        d = lvl.kv(I.split(" || ")[0])
        op = o["op"]
        if op.startswith("ADD "):
            evs.append("A|" + op[4:])
        elif op.startswith("UPD "):
            if "out" not in d:
                break
            evs.append("U|%s|%s" % (op[4:], d["out"]))
        elif op.startswith("MATCH "):
            if "txs" not in d:
                break
            _, q, taker = op.split(" ")
            evs.append("M|%s|%s|%s|%s|%s" % (q, taker, d["txs"], d["rem"], d["complete"]))
        elif op.startswith("READ") or op == "SNAP":
            continue
        elif op.startswith("REBUILD "):
            if d.get("built") != "ok":
                break       # the level was not replaced: judged up to here
            evs.append("B|%s|%s" % ("snap" if op.split(" ")[1] in SNAP_LIKE else "data", vec))
        else:
            return []
        if "vec" in d:
            vec = d["vec"]
        if "st" in d:
            last = (o["i"], op, d["st"], len(evs))
    if not last:
        return []
    i, op, st, n = last
    a, r, _, sq, sv = [int(x) for x in st.split("/")]
    evs = evs[:n]
    if any(e.startswith("B|") for e in evs):
        return [(i, "statsr %d %d %d %d %d %s" % (price, a, r, sq, sv, " ".join(evs)),
                 "statistics after `%s` (added/removed/quantity/value = %d/%d/%d/%d) are not what the last rebuild recorded plus the counts and sums over the events since it" % (
                     op[:50], a, r, sq, sv),
                 statsr_stmt_ok(price, a, r, sq, sv, evs))]
    return [(i, "stats %d %d %d %d %d %s" % (price, a, r, sq, sv, " ".join(evs)),
             "statistics after `%s` (added/removed/quantity/value = %d/%d/%d/%d) are not the counts and sums over the events of the history" % (
                 op[:50], a, r, sq, sv),
             stats_stmt_ok(price, a, r, sq, sv, evs))]


_STMTS = []      # (price, ops, opindex, query, python verdict) of the statements judged in this run


def coq_queries(rec, price, ops):
    out = []
    for (i, q, text, py) in statements(rec, price, ops):
        _STMTS.append((price, ops, i, q, py))
        out.append((i, q, text))
    return out


def judges_agree_c15(ck):
    nr = sum(1 for x in _STMTS if x[3].startswith("statsr "))
    ck.extra["judged_statements"] = dict(stats_no_rebuild=len(_STMTS) - nr, statsr_across_rebuilds=nr)
    judges_agree(ck, _STMTS, "StatsAgree / StatsAgreeR, per history; %d with rebuilds" % nr)


def corr_filter(text):
    return " st " in text or "panic" in text or "model=" in text


def make_cases(rng, tier):
    n = 1200 if tier == "quick" else 30000
    # the property's domain: positive quantities, orders priced at the level price, no rebuild
    cs = histories(rng, n, allow_zero=False, at_level_price=True, rebuilds=False, forks=False)
    # levels restored from a snapshot / serialized form carry resting orders and fresh statistics: cancels and matches
    # BEFORE the first add, and adds after them (Coq statement: C15_across_rebuilds_mod, judge `statsr`)
    for i in range(n // 5):
        g = lvl.HistGen(rng, allow_zero=False, at_level_price=True, rebuilds=False, forks=False, reads=False)
        ops = g.history(rng.randint(3, 12))
        ops.append("REBUILD " + rng.choice(lvl.VIAS))
        tail = []
        for _ in range(rng.randint(1, 6)):
            x = rng.random()
            if x < 0.4:
                tail.append("UPD " + g.update())
            elif x < 0.8:
                tail.append("MATCH %d u%d" % (rng.choice([1, 3, 8, 40]), 7100 + len(tail)))
            else:
                tail.append("ADD " + g.new_order())
        tail.append("ADD " + g.new_order())
        tail += ["UPD " + g.update(), "MATCH 5 u7200"]
        cs.append((g.price, ops + tail))
    # several rebuilds of both kinds in one history (the statistics follow the LAST one), some back to back, some as
    # the very first or the very last operation
    for i in range(n // 10):
        g = lvl.HistGen(rng, allow_zero=False, at_level_price=True, rebuilds=False, forks=False, reads=True)
        g.prewarm = False       # no GEN operation in the middle of a history
        ops = ["REBUILD " + rng.choice(lvl.VIAS)] if i % 7 == 0 else []
        for k in range(rng.randint(2, 4)):
            ops += g.history(rng.randint(1, 8))
            ops.append("REBUILD " + lvl.VIAS[(i + k) % len(lvl.VIAS)])
            if rng.random() < 0.2:
                ops.append("REBUILD " + rng.choice(lvl.VIAS))
        if i % 5:
            for _ in range(rng.randint(1, 5)):
                x = rng.random()
                ops.append("UPD " + g.update() if x < 0.35 else
                           "MATCH %d u%d" % (rng.choice([1, 3, 8, 40]), 7300 + len(ops)) if x < 0.75 else "ADD " + g.new_order())
        cs.append((g.price, ops))
    return cs


def conc_part(ck):
    """Concurrent half: statistics at quiescence under the deterministic scheduler."""
    import random
    pr = check_proofs("C15conc", coqchk=(ck.tier == "thorough"))
    for t in pr["theorems"]:
        ck.oblige("theorem " + t, pr["ok"], pr["failed"] or "")
    if not pr["ok"]:
        ck.violation("conc_proofs", dict(broken=pr["failed"], theorem="Properties/C15conc.v", log=pr["log"][-1500:]), note="no-failing-input-found")
    rng = random.Random(ck.seed + 15)
    n = 400 if ck.tier == "quick" else 8000
    lines, progs = [], []
    for i in range(n):
        g = conc.ProgGen(rng)
        setup, threads = g.program()
        line = conc.prog_line("p%d" % i, g.price, setup, threads, ("r%d" if i % 3 else "p%d") % rng.randint(1, 10 ** 9), "mode=O,proj=map+tk")
        lines.append(line)
    recs = conc.run_progs(lines)
    bad, rej = [], []
    for rec, line in zip(recs, lines):
        prog = conc.parse_prog(line)
        info = conc.analyse(rec, prog)
        j = conc.judge_stats(rec, prog, info)
        if rec["X"]:
            j = j or "; ".join(rec["X"])
        if j:
            bad.append((line, j, rec["K"]))
        if rec.get("U"):
            rej.append((line, "shared objects do not match Model/Conc.v: " + "; ".join(rec["U"])[:300], rec["K"]))
        elif not (rec["V"] or "").startswith("accepted"):
            rej.append((line, rec["V"], rec["K"]))
        elif rec["Q"] and rec["Q"] != "aborted" and conc.kv(rec["V"])["st"] != conc.kv(rec["Q"])["st"]:
            rej.append((line, "final statistics: implementation %s, model %s" % (conc.kv(rec["Q"])["st"], conc.kv(rec["V"])["st"]), rec["K"]))
    ck.cov["evaluations"] += sum(len(r["ev"]) for r in recs)
    ck.extra["concurrent_programs"] = len(recs)
    ck.oblige("concurrent: event trace of every scheduled run accepted by Model/Conc.v", not rej, "%d rejected" % len(rej))
    ck.oblige("concurrent judge: statistics at quiescence = events of the run", not bad, "%d runs" % len(bad))
    if bad:
        line, why, k = bad[0]
        ck.violation("conc_fail", dict(kind="conc-program", program=line, schedule=k, why=why))
    elif rej:
        line, v, k = rej[0]
        ck.violation("conc_unproved", dict(kind="conc-program", broken="correspondence: trace not accepted by Model/Conc.v",
                                           program=line, schedule=k, model_says=v), note="no-failing-input-found")


def run(tier, seed, replay=None):
    if replay:
        import json
        r = json.load(open(replay))
        if r.get("kind") == "conc-program":
            from . import concprop
            return concprop.replay_conc("C15", tier, seed, r, lambda rec, prog, info: conc.judge_stats(rec, prog, info))
    return run_property("C15", tier, seed, replay, make_cases=make_cases, judge=judge, corr_filter=corr_filter,
                        nontrivial=nontrivial_default, coq_queries=coq_queries,
                        extra_obligations=lambda ck: (judges_agree_c15(ck), conc_part(ck)))
