"""Text codecs (C16 / C18): value generators in the compact encoding of
harness/src/enc.rs + harness/src/text.rs, string mutators, and the lock-step
runner for `harness text` / `modelrun_text`.  Everything random comes from the
random.Random handed in."""
import os
import subprocess
from concurrent.futures import ThreadPoolExecutor

from . import gen
from .common import MODELRUN_DIR, BuildError, Lock, harness_bin, sh, source_constants

W = 1 << 64
U128 = 1 << 128
MODELRUN_TEXT = os.path.join(MODELRUN_DIR, "modelrun_text")

TRUSTED_BASE_TEXT = [
    "text model extraction (coq/ExtractText.v): ExtrOcamlBasic + ExtrOcamlString directives (ascii -> char, string -> "
    "char list, Ascii.eqb / ascii_dec -> (=)); N/Z/positive/nat/Decimal.uint stay extracted inductives; "
    "modelrun/driver_text.ml (hex / compact value glue); thorough tier re-evaluates a sample with vm_compute",
    "a Rust &str is modelled as a byte list satisfying utf8_valid (Unicode Table 3-7); usize = 64 bit; the i32 bracket "
    "counters carry overflow checks as in the dev profile (the theorems bound the input below 2^31 bytes there)",
    "modelled, not verified: str::to_uppercase reduced to ASCII + U+017F / U+0131 (validated against the implementation "
    "over all Unicode scalar values at keyword positions), the uuid / ulid crates' text formats (validated "
    "differentially), HashMap as a last-insert-wins association list; serde_json entry points are judged on the "
    "implementation only (no model)",
]

TYPES = ["side", "tif", "peg", "oid", "uuid", "order", "update", "txn", "txlist", "mr",
         "stats", "snap", "queue", "level"]
JSON_TYPES = ["side", "tif", "peg", "oid", "order", "update", "txn", "txlist", "mr", "stats",
              "queue", "level", "snap", "snappkg"]

B64 = [0, 1, 2, 9, 10, 80, 255, 256, (1 << 32) - 1, 1 << 32, 1 << 53, (1 << 53) + 1,
       (1 << 63) - 1, 1 << 63, W - 2, W - 1]
_SRC = [v for c in source_constants() for v in (c - 1, c, c + 1)]      # values the code singles out
B64 = B64 + [v for v in _SRC if v not in B64]
BI64 = [0, 1, -1, 9, -9, (1 << 53) + 1, -((1 << 53) + 1), (1 << 63) - 1, -(1 << 63), -(1 << 63) + 1]
B128 = [0, 1, 15, 16, (1 << 53) + 1, (1 << 64) - 1, 1 << 64, (1 << 125) - 1, 1 << 125, 1 << 127,
        U128 - 2, U128 - 1, 0x0123456789abcdef0123456789abcdef, 0xfedcba9876543210fedcba9876543210]


# ---------------------------------------------------------------- builds

def build_modelrun_text():
    with Lock("modelrun"):
        srcs = [os.path.join(MODELRUN_DIR, f) for f in ("model_text.ml", "model_text.mli", "driver_text.ml")]
        for s in srcs:
            if not os.path.exists(s):
                raise BuildError("missing %s (run the Coq build first: ExtractText.v writes it)" % s)
        if os.path.exists(MODELRUN_TEXT) and all(os.path.getmtime(MODELRUN_TEXT) >= os.path.getmtime(s) for s in srcs):
            return
        rc, out = sh("ocamlfind ocamlopt -package zarith -linkpkg -w -a model_text.mli model_text.ml "
                     "driver_text.ml -o modelrun_text", cwd=MODELRUN_DIR)
        if rc != 0:
            raise BuildError("modelrun_text build failed:\n" + out)


# ---------------------------------------------------------------- values

def u64(rng):
    r = rng.random()
    if r < 0.45:
        return rng.choice(B64)
    if r < 0.7:
        return rng.randint(0, 1000)
    return rng.randint(0, W - 1)


def i64(rng):
    r = rng.random()
    if r < 0.5:
        return rng.choice(BI64)
    if r < 0.7:
        return rng.randint(-1000, 1000)
    return rng.randint(-(1 << 63), (1 << 63) - 1)


def u128(rng):
    r = rng.random()
    if r < 0.4:
        return rng.choice(B128)
    if r < 0.5:
        return rng.randint(0, 1000)
    return rng.randint(0, U128 - 1)


def oid(rng):
    return ("u" if rng.random() < 0.5 else "l") + str(u128(rng))


def side(rng):
    return rng.choice("BS")


def tif(rng):
    r = rng.random()
    if r < 0.5:
        return rng.choice(["GTC", "IOC", "FOK", "DAY"])
    return "GTD%d" % u64(rng)


def peg(rng):
    return rng.choice(gen.PEGS)


def realistic_order(rng, k, oid_):
    """An order as a trading system would build it: wall-clock millisecond timestamp, GTD expiry in epoch SECONDS (as the
    crate documents) or milliseconds, moderate quantities, the crate's own default / constant values as parameters."""
    ts = rng.randint(1_600_000_000_000, 1_800_000_000_000)
    t = rng.random()
    tf = ("GTD%d" % (ts // 1000 + rng.randint(0, 5 * 365 * 86400)) if t < 0.45 else
          "GTD%d" % (ts + rng.randint(0, 10 ** 10)) if t < 0.6 else rng.choice(["GTC", "IOC", "FOK", "DAY"]))
    c = source_constants() or [80]
    return gen.order(k, oid=oid_, price=rng.randint(1, 100000), side=side(rng), ts=ts, tif=tf,
                     vis=rng.randint(0, 1000), hid=rng.randint(0, 1000), thr=rng.choice([0, 1, rng.choice(c)]),
                     amt=rng.choice([None, rng.choice(c), rng.choice(c), rng.randint(0, 100)]), auto=rng.random() < 0.6,
                     trail=rng.randint(0, 500), lastref=rng.randint(1, 100000), off=rng.randint(-50, 50), peg=peg(rng))


def order(rng, kind=None, oid_=None, ts=None):
    k = kind or rng.choice(gen.KINDS)
    if ts is None and rng.random() < 0.25:
        return realistic_order(rng, k, oid_ or oid(rng))
    return gen.order(k, oid=oid_ or oid(rng), price=u64(rng), side=side(rng),
                     ts=u64(rng) if ts is None else ts, tif=tif(rng),
                     vis=u64(rng), hid=u64(rng), thr=u64(rng),
                     amt=None if rng.random() < 0.4 else u64(rng), auto=rng.random() < 0.5,
                     trail=u64(rng), lastref=u64(rng), off=i64(rng), peg=peg(rng))


def update(rng, kind=None):
    k = kind or rng.choice(["UP", "UQ", "UPQ", "C", "RP"])
    o = oid(rng)
    if k == "UP":
        return "UP:%s:%d" % (o, u64(rng))
    if k == "UQ":
        return "UQ:%s:%d" % (o, u64(rng))
    if k == "UPQ":
        return "UPQ:%s:%d:%d" % (o, u64(rng), u64(rng))
    if k == "C":
        return "C:%s" % o
    return "RP:%s:%d:%d:%s" % (o, u64(rng), u64(rng), side(rng))


def txn(rng):
    return "%d/%s/%s/%d/%d/%s/%d" % (u128(rng), oid(rng), oid(rng), u64(rng), u64(rng), side(rng), u64(rng))


def lst(items):
    return "[" + ",".join(items) + "]"


def small_len(rng):
    return rng.choice([0, 0, 1, 1, 2, 3, 5])


def txlist(rng, n=None):
    return lst([txn(rng) for _ in range(small_len(rng) if n is None else n)])


def mr(rng):
    return "%s|%d|%d|%s|%s" % (oid(rng), u64(rng), rng.randint(0, 1), txlist(rng),
                               lst([oid(rng) for _ in range(small_len(rng))]))


def stats(rng):
    return "/".join(str(u64(rng)) for _ in range(8))


def snap(rng):
    return "/".join(str(u64(rng)) for _ in range(4))


def order_list(rng, n=None, ties=False):
    """Orders with pairwise distinct ids; timestamps strictly increasing (so that the
    listing is deterministic) unless ties is set."""
    n = small_len(rng) if n is None else n
    ids, out = set(), []
    tss = sorted(rng.sample(range(0, 1000), n)) if rng.random() < 0.7 else \
        sorted(set([0, W - 1] + [u64(rng) for _ in range(n)]))[:n]
    while len(tss) < n:
        tss = sorted(set(tss + [rng.randint(0, W - 1)]))
    if ties and n >= 2:
        tss = [tss[0]] * n
    for i in range(n):
        o = oid(rng)
        while o in ids:
            o = ("u" if rng.random() < 0.5 else "l") + str(rng.randint(0, U128 - 1))
        ids.add(o)
        out.append(order(rng, oid_=o, ts=tss[i]))
    return out


def queue(rng, n=None, ties=False):
    return lst(order_list(rng, n, ties))


def level(rng, n=None, ties=False):
    return "%d|%s" % (u64(rng), lst(order_list(rng, n, ties)))


GENERATORS = dict(side=side, tif=tif, peg=peg, oid=oid, uuid=lambda r: str(u128(r)), order=order,
                  update=update, txn=txn, txlist=txlist, mr=mr, stats=stats, snap=snap,
                  queue=queue, level=level)


def fixed_values():
    """Deterministic boundary values of every type (always part of a run)."""
    v = []
    for s in "BS":
        v.append(("side", s))
    for t in ["GTC", "IOC", "FOK", "DAY"] + ["GTD%d" % n for n in B64]:
        v.append(("tif", t))
    for p in gen.PEGS:
        v.append(("peg", p))
    for n in B128:
        v += [("oid", "u%d" % n), ("oid", "l%d" % n), ("uuid", str(n))]
    hd = dict(oid="u0", price=0, side="B", ts=0, tif="GTC")
    hi = dict(oid="l%d" % (U128 - 1), price=W - 1, side="S", ts=W - 1, tif="GTD%d" % (W - 1))
    for k in gen.KINDS:
        v.append(("order", gen.order(k, vis=0, hid=0, thr=0, amt=None, auto=False, trail=0, lastref=0,
                                     off=0, peg="BB", **hd)))
        v.append(("order", gen.order(k, vis=W - 1, hid=W - 1, thr=W - 1, amt=W - 1, auto=True, trail=W - 1,
                                     lastref=W - 1, off=-(1 << 63), peg="LT", **hi)))
        v.append(("order", gen.order(k, vis=1, hid=(1 << 53) + 1, thr=1, amt=0, auto=True, trail=1,
                                     lastref=(1 << 53) + 1, off=(1 << 63) - 1, peg="MP",
                                     oid="u%d" % (U128 - 1), price=(1 << 53) + 1, side="S", ts=1, tif="GTD0")))
    for o in ["u0", "l0", "u%d" % (U128 - 1), "l%d" % (U128 - 1)]:
        v += [("update", "UP:%s:0" % o), ("update", "UQ:%s:%d" % (o, W - 1)),
              ("update", "UPQ:%s:%d:1" % (o, (1 << 53) + 1)), ("update", "C:%s" % o),
              ("update", "RP:%s:%d:0:B" % (o, W - 1)), ("update", "RP:%s:0:%d:S" % (o, W - 1))]
    t0 = "0/u0/l0/0/0/B/0"
    t1 = "%d/l%d/u%d/%d/%d/S/%d" % (U128 - 1, U128 - 1, U128 - 1, W - 1, W - 1, W - 1)
    t2 = "%d/u1/l1/1/%d/B/1" % ((1 << 53) + 1, (1 << 53) + 1)
    for t in (t0, t1, t2):
        v.append(("txn", t))
    for l in ([], [t0], [t1, t2], [t0, t1, t2, t0]):
        v.append(("txlist", lst(l)))
        v.append(("mr", "u0|0|1|%s|[]" % lst(l)))
        v.append(("mr", "l%d|%d|0|%s|%s" % (U128 - 1, W - 1, lst(l), lst(["u0", "l0", "u%d" % (U128 - 1)]))))
    v.append(("mr", "l0|1|0|[]|[l0]"))
    for n in (0, 1, (1 << 53) + 1, W - 1):
        v.append(("stats", "/".join([str(n)] * 8)))
        v.append(("snap", "/".join([str(n)] * 4)))
    v.append(("stats", "0/1/2/3/4/5/6/%d" % (W - 1)))
    v.append(("snap", "%d/0/%d/1" % (W - 1, W - 1)))
    o1 = gen.order("S", oid="u1", price=5, side="B", ts=1, tif="GTC", vis=W - 1)
    o2 = gen.order("I", oid="l2", price=5, side="B", ts=2, tif="DAY", vis=3, hid=W - 1)
    o3 = gen.order("R", oid="u3", price=5, side="B", ts=3, tif="GTD%d" % (W - 1), vis=1, hid=2, thr=0, amt=None)
    for l in ([], [o1], [o1, o2], [o1, o2, o3]):
        v.append(("queue", lst(l)))
        v.append(("level", "5|" + lst(l)))
    v.append(("level", "%d|[]" % (W - 1)))
    v.append(("level", "0|[]"))
    return v


# ---------------------------------------------------------------- canonical forms / expectations

def canon(ty, line):
    """Canonical form of an answer line: the listing of a queue / level is compared as a multiset."""
    if not line.startswith("ok "):
        return line
    v = line[3:]
    if ty == "queue":
        return "ok " + lst(sorted(gen.parse_list(v)))
    if ty == "level":
        p = v.split("|")
        return "ok " + "|".join(p[:4] + [lst(sorted(gen.parse_list(p[4])))])
    return line


def expected_parse(ty, value):
    """What parsing the printed text of `value` must give back (the C16 statement), canonical."""
    if ty == "queue":
        return "ok " + lst(sorted(gen.parse_list(value)))
    if ty == "level":
        price, os_ = value.split("|")
        os_ = gen.parse_list(os_)
        ds = [gen.parse_order(o) for o in os_]
        return "ok %s|%d|%d|%d|%s" % (price, sum(d["vis"] for d in ds) % W, sum(d["hid"] for d in ds) % W,
                                      len(ds), lst(sorted(os_)))
    return "ok " + value


def has_ties(ty, value):
    if ty not in ("queue", "level"):
        return False
    os_ = gen.parse_list(value.split("|")[-1])
    ts = [gen.parse_order(o)["ts"] for o in os_]
    return len(set(ts)) != len(ts)


# ---------------------------------------------------------------- running both sides

def _run(binary, args, lines, timeout):
    """Feeds the command lines to one process and returns one answer per line.  A watchdog
    exit of the harness (code 3 after `I timeout`) or a dead process marks the case it
    happened on (`timeout` / `abort rc=..`) and the run resumes after it; after three such
    events the rest of the chunk is marked `unrun` (a hanging parser must not hang the check)."""
    out = []
    start = 0
    events = 0
    while start < len(lines):
        if events >= 3:
            out += ["unrun"] * (len(lines) - start)
            break
        inp = "\n".join(lines[start:]) + "\n"
        p = subprocess.run([binary] + args, input=inp, text=True, stdout=subprocess.PIPE,
                           stderr=subprocess.DEVNULL, timeout=timeout)
        got = p.stdout.splitlines()
        if p.returncode == 3 and len(got) >= 2 and got[-2] == "I timeout":
            got = got[:-2]
            out += got
            out.append("timeout")
            start += len(got) + 1
            events += 1
            continue
        out += got
        if len(got) < len(lines) - start:
            # the process died (abort, stack overflow, kill): mark the case it died on
            out.append("abort rc=%s" % p.returncode)
            start += len(got) + 1
            events += 1
            continue
        break
    return out


def run_side(which, lines, jobs=12, timeout=1200, profile="debug"):
    """which = 'impl' | 'model'.  Splits the commands over several processes."""
    if not lines:
        return []
    binary, args = (harness_bin(profile), ["text"]) if which == "impl" else (MODELRUN_TEXT, [])
    n = max(1, min(jobs, len(lines) // 200 + 1))
    size = (len(lines) + n - 1) // n
    chunks = [lines[i:i + size] for i in range(0, len(lines), size)]
    with ThreadPoolExecutor(max_workers=n) as ex:
        res = list(ex.map(lambda c: _run(binary, args, c, timeout), chunks))
    out = []
    for c, r in zip(chunks, res):
        if len(r) != len(c):
            r = (r + ["missing"] * len(c))[:len(c)]
        out += r
    return out


def run_both(lines, profile="debug"):
    with ThreadPoolExecutor(max_workers=2) as ex:
        fi = ex.submit(run_side, "impl", lines, 8, 1200, profile)
        fm = ex.submit(run_side, "model", lines, 8)
        return fi.result(), fm.result()


def hexs(s):
    return s.encode("utf-8").hex()


def unhex(h):
    return bytes.fromhex(h).decode("utf-8", errors="replace")


# ---------------------------------------------------------------- mutation (C18)

ASCII_INS = list(";=:,[]()-+ 09aZz{}\"\\'\n\t\x00\x7f|/") + ["None", "true", "orders=[", "]", "[]", "=;", ";;"]
MULTI = ["\u00e9", "\u017f", "\u0131", "\u00df", "\u0080", "\u07ff",            # 2 bytes
         "\u20ac", "\u212a", "\u0800", "\uffff", "\ufb01", "\u0301",            # 3 bytes
         "\U0001f600", "\U00010000", "\U0010ffff"]                              # 4 bytes
MULTI3 = ["\u00e9", "\u20ac", "\U0001f600"]                                    # one per length


def mutate(rng, s):
    """One random character-level edit of s (a python str = sequence of characters)."""
    n = len(s)
    k = rng.randrange(9)
    ch = rng.choice(MULTI) if rng.random() < 0.5 else rng.choice(ASCII_INS)
    if k == 0 and n:       # deletion
        i = rng.randrange(n)
        return s[:i] + s[i + 1:]
    if k == 1:             # insertion
        i = rng.randint(0, n)
        return s[:i] + ch + s[i:]
    if k == 2 and n:       # substitution
        i = rng.randrange(n)
        return s[:i] + ch + s[i + 1:]
    if k == 3 and n:       # duplication of a segment
        i = rng.randrange(n)
        j = rng.randint(i, min(n, i + rng.choice([1, 2, 5, 20, 80])))
        return s[:j] + s[i:j] + s[j:]
    if k == 4:             # truncation
        return s[:rng.randint(0, n)]
    if k == 5 and n:       # deletion of a segment
        i = rng.randrange(n)
        j = rng.randint(i, min(n, i + rng.choice([1, 2, 5, 20, 80])))
        return s[:i] + s[j:]
    if k == 6 and n:       # duplicate a whole field / element
        seps = [i for i, c in enumerate(s) if c in ";,"]
        if seps:
            i = rng.choice(seps)
            j = min([x for x in seps if x > i] + [n])
            return s[:j] + s[i:j] + s[j:]
    if k == 7 and n:       # case change / digit change of one character
        i = rng.randrange(n)
        c = s[i]
        c2 = c.swapcase() if c.isalpha() else (rng.choice("0123456789") if c.isdigit() else ch)
        return s[:i] + c2 + s[i + 1:]
    # huge number / sign tricks
    i = rng.randint(0, n)
    return s[:i] + rng.choice(["18446744073709551616", "+", "-", "00", "99999999999999999999999", "+0"]) + s[i:]


def exhaustive_mutants(s, chars=MULTI3):
    """Every single-character deletion, truncation, and insertion / substitution of each of
    `chars` at every position of s."""
    out = []
    n = len(s)
    for i in range(n):
        out.append(s[:i] + s[i + 1:])
        out.append(s[:i])
        for ch in chars:
            out.append(s[:i] + ch + s[i + 1:])
    for i in range(n + 1):
        for ch in chars:
            out.append(s[:i] + ch + s[i:])
    return out


CORPUS_C18 = [
    ("mr", "MatchResult:order_id=\u00e9"),
    ("mr", "MatchResult:order_id=\u20ac;"),
    ("mr", "MatchResult:transactions=Transactions:[\u00e9"),
    ("mr", "MatchResult:transactions=Transactions:[\U0001f600]"),
    ("mr", "MatchResult:filled_order_ids=[\u00e9"),
    ("mr", "MatchResult:filled_order_ids=[\u00e9]\u00e9"),
    ("mr", "MatchResult:\u00e9=1"),
    ("mr", "MatchResult:"),
    ("mr", "MatchResult:="),
    ("mr", "MatchResult:order_id"),
    ("mr", "MatchResult:order_id="),
    ("mr", "MatchResult:filled_order_ids=["),
    ("mr", "MatchResult:filled_order_ids=[]"),
    ("mr", "MatchResult:filled_order_ids=[[]]"),
    ("mr", "MatchResult:filled_order_ids=[]]"),
    ("mr", "MatchResult:transactions=Transactions:[]x"),
    ("mr", "MatchResult:transactions=Transactions:["),
    ("mr", "MatchResult:transactions=Transactions:[[[[[[[[[["),
    ("mr", "MatchResult:filled_order_ids=[];;order_id=x"),
    ("txlist", "Transactions:[]"),
    ("txlist", "Transactions:[]]"),
    ("txlist", "Transactions:["),
    ("txlist", "Transactions:[\u00e9]"),
    ("txlist", "Transactions:[,,,]"),
    ("txlist", "Transactions:[]]]]]]]]]]]]]"),
    ("txlist", "Transactions:[[[[,]]],]"),
    ("queue", "OrderQueue:orders=["),
    ("queue", "OrderQueue:orders=[]"),
    ("queue", "OrderQueue:orders=[]]"),
    ("queue", "OrderQueue:orders=[\u00e9]"),
    ("queue", "OrderQueue:orders=[,]"),
    ("level", "PriceLevel:"),
    ("level", "PriceLevel:\u00e9"),
    ("level", "PriceLevel:orders=["),
    ("level", "PriceLevel:orders=[]"),
    ("level", "PriceLevel:price=1;orders=[]"),
    ("level", "PriceLevel:price=1;orders=[\u00e9,\u20ac]"),
    ("level", "PriceLevel:price=1;orders=[,,(,),]"),
    ("level", "PriceLevel:price=1;orders=[x];orders=y"),
    ("level", "PriceLevel:orders=[x]price=1"),
    ("level", "PriceLevel:price=1;orders=[;price=2]"),
    ("level", "PriceLevel:price=1;orders=[))))))),"),
    ("level", "PriceLevel:price=+1"),
    ("level", "PriceLevel:price=1=2"),
    ("side", "\u017fell"), ("side", "\u0131"), ("side", "bu\u00fd"), ("side", "SE\u00dfL"), ("side", ""),
    ("tif", "\u0131oc"), ("tif", "gtd-+5"), ("tif", "GTD-"), ("tif", "GTD--1"), ("tif", "GTD-1-2"),
    ("tif", "gtd-18446744073709551616"), ("tif", "GTD-\u0661"), ("tif", "\ufb01ok"), ("tif", "GTD\u2010" + "5"),
    ("oid", ""), ("oid", "{00000000-0000-0000-0000-000000000000}"), ("oid", "urn:uuid:00000000-0000-0000-0000-000000000000"),
    ("oid", "0" * 32), ("oid", "Z" * 26), ("oid", "8" + "0" * 25), ("oid", "o" * 26), ("oid", "\u00e9" * 13),
    ("oid", "\u00e9" * 16), ("oid", "\u00e9" * 18), ("oid", "{" + "\u00e9" * 18 + "}"), ("oid", "{" * 38),
    ("oid", "urn:uuid:" + "\u20ac" * 12), ("oid", "-" * 36), ("oid", "0000000-00000-0000-0000-000000000000"),
    ("uuid", "\u00e9" * 16), ("uuid", "g" * 32), ("uuid", "{" + "0" * 36 + "}"),
    ("order", "Standard:"), ("order", ":"), ("order", "::"), ("order", ""), ("order", "Standard:id"),
    ("order", "Standard:id=;price=;quantity=;side=;timestamp=;time_in_force="),
    ("update", "Cancel:order_id=" + "0" * 26), ("update", "Cancel:order_id=" + "0" * 26 + ";order_id=x"),
    ("txn", "Transaction:"), ("snap", "PriceLevelSnapshot:"), ("stats", "PriceLevelStatistics:"),
    ("peg", "bestBid"), ("peg", "BESTBID"), ("peg", ""),
]


# ---------------------------------------------------------------- extraction cross-check (thorough)

_COQ_SHOW = r'''From PL Require Import Model.Text.
From Coq Require Import String.
Open Scope N_scope.
Set Printing Width 1000000.
Set Printing Depth 1000000.
Definition bytes (l : list N) : str := map ascii_of_N l.
Definition show {A} (pr : A -> str) (x : outcome A) : string :=
  string_of_list_ascii (match x with POk v => $"ok " ++ pr v | PErr => $"err" | PPanic => $"panic" end).
Definition bar : str := $"|".
Definition show_level (x : N * list order) : str :=
  let l := from_data (fst x) (snd x) in
  print_N (price l) ++ bar ++ print_N (cvis l) ++ bar ++ print_N (chid l) ++ bar ++ print_N (ccnt l) ++ bar ++
  print_queue (to_vec (lq l)).
Definition show_queue (os : list order) : str := print_queue (to_vec (from_vec os)).
Definition opt_o {A} (x : option A) : outcome A := match x with Some v => POk v | None => PErr end.
'''

_COQ_CALL = dict(
    side="show print_side (parse_side %s)", tif="show print_tif (parse_tif %s)", peg="show print_peg (parse_peg %s)",
    oid="show print_oid (parse_oid %s)", uuid="show print_uuid (opt_o (parse_uuid %s))",
    order="show print_order (parse_order %s)", update="show print_update (parse_update %s)",
    txn="show print_txn (parse_txn %s)", txlist="show print_txlist (parse_txlist %s)",
    mr="show print_match_result (parse_match_result %s)", stats="show print_stats (parse_stats %s)",
    snap="show print_snapshot (parse_snapshot %s)", queue="show show_queue (parse_queue %s)",
    level="show show_level (parse_level %s)")


def _sort_listing(t):
    i = t.find("OrderQueue:orders=[")
    if i < 0 or not t.endswith("]"):
        return t
    j = i + len("OrderQueue:orders=[")
    return t[:j] + ",".join(sorted(t[j:-1].split(","))) + "]"


def vm_compute_crosscheck(ck, cases, coq_dir):
    """Re-evaluates PARSE of the sampled (type, string) cases inside Coq with vm_compute and
    compares with the extracted model: same outcome, and for Ok the same value (both rendered
    through the model's own printer)."""
    import re
    path = os.path.join(coq_dir, "cases_text.v")
    with open(path, "w") as f:
        f.write(_COQ_SHOW)
        for ty, s in cases:
            lit = "(bytes [%s])" % "; ".join(str(b) for b in s.encode("utf-8"))
            f.write("Eval vm_compute in (%s).\n" % (_COQ_CALL[ty] % lit))
    rc, out = sh("timeout 900 coqc -noglob -Q . PL cases_text.v", cwd=coq_dir, timeout=1000)
    for ext in (".v", ".vo", ".vok", ".vos", ".glob"):
        try:
            os.remove(os.path.join(coq_dir, "cases_text" + ext))
        except OSError:
            pass
    try:
        os.remove(os.path.join(coq_dir, ".cases_text.aux"))
    except OSError:
        pass
    if rc != 0:
        ck.oblige("extraction cross-check (vm_compute) runs", False, out[-500:])
        return
    got = re.findall(r'= "((?:[^"]|"")*)"%string', out.replace("\n", " "))
    # the model's answers, Ok values rendered back to text with the model's printer
    ans = run_side("model", ["PARSE %s %s" % (ty, hexs(s)) for ty, s in cases])
    reprint, where = [], []
    for k, ((ty, s), a) in enumerate(zip(cases, ans)):
        if a.startswith("ok "):
            v = a[3:]
            if ty == "level":
                p = v.split("|")
                reprint.append("PRINT queue %s" % p[4])
            else:
                reprint.append("PRINT %s %s" % (ty, v))
            where.append(k)
    texts = dict(zip(where, run_side("model", reprint)))
    bad = 0
    for k, ((ty, s), a) in enumerate(zip(cases, ans)):
        if k >= len(got):
            bad += 1
            continue
        if a.startswith("ok "):
            t = unhex(texts[k][2:]) if texts.get(k, "").startswith("t ") else "?"
            if ty == "level":
                t = "|".join(a[3:].split("|")[:4] + [t])
            exp = "ok " + t
        else:
            exp = a
        g = got[k]
        if ty in ("queue", "level"):
            # the listing is compared as a multiset (re-printing re-sorts tied timestamps)
            g, exp = _sort_listing(g), _sort_listing(exp)
        if g != exp:
            bad += 1
    ck.oblige("extracted model = vm_compute inside Coq on %d sampled strings" % len(cases),
              bad == 0 and len(got) == len(cases), "%d differ, %d evaluated" % (bad, len(got)))


# ---------------------------------------------------------------- structural JSON mutants (C18)

JSON_BIG = [0, 1, (1 << 53) + 1, (1 << 63), (1 << 64) - 1, 10 ** 12, 10 ** 18, 10 ** 30, -1]


def _paths(o, pre=()):
    """All (path, value) pairs of a parsed JSON document."""
    yield pre, o
    if isinstance(o, dict):
        for k, v in o.items():
            yield from _paths(v, pre + (k,))
    elif isinstance(o, list):
        for i, v in enumerate(o):
            yield from _paths(v, pre + (i,))


def _edit(o, path, fn):
    import copy
    o = copy.deepcopy(o)
    if not path:
        return fn(None, None, o)
    cur = o
    for k in path[:-1]:
        cur = cur[k]
    fn(cur, path[-1], None)
    return o


def json_struct_mutants(text, rng, limit=60):
    """Structural edits of a JSON document: drop a key, blow a number up, empty / null a value,
    and PAIRS of such edits (a missing key together with a huge number elsewhere)."""
    import json
    try:
        doc = json.loads(text)
    except Exception:
        return []
    paths = [p for p, _ in _paths(doc) if p]
    singles = []
    for p in paths:
        v = doc
        for k in p:
            v = v[k]

        def dele(cur, k, _):
            if isinstance(cur, dict):
                cur.pop(k, None)
            else:
                del cur[k]
        singles.append(("del", p, dele))
        if isinstance(v, int) and not isinstance(v, bool):
            for b in JSON_BIG:
                singles.append(("num", p, (lambda b: lambda cur, k, _: cur.__setitem__(k, b))(b)))
        if isinstance(v, list):
            singles.append(("empty", p, lambda cur, k, _: cur.__setitem__(k, [])))
        singles.append(("null", p, lambda cur, k, _: cur.__setitem__(k, None)))
    out = []
    rng.shuffle(singles)
    for (_, p, fn) in singles[:limit]:
        try:
            out.append(json.dumps(_edit(doc, p, fn), separators=(",", ":")))
        except Exception:
            pass
    # sibling pairs: drop one key of an object and blow up a number in the SAME object (all of them for small objects)
    sib = []
    for p, v in _paths(doc):
        if isinstance(v, dict) and 2 <= len(v) <= 12:
            for kd in v:
                for kn, vn in v.items():
                    if kn != kd and isinstance(vn, int) and not isinstance(vn, bool):
                        for b in ((1 << 64) - 1, 10 ** 15):
                            sib.append((p, kd, kn, b))
    rng.shuffle(sib)
    for (p, kd, kn, b) in sib[:limit * 8]:
        import copy
        d = copy.deepcopy(doc)
        cur = d
        for k in p:
            cur = cur[k]
        cur.pop(kd, None)
        cur[kn] = b
        out.append(json.dumps(d, separators=(",", ":")))
    # pairs: one deletion + one number edit at an unrelated path
    dels = [x for x in singles if x[0] == "del"]
    nums = [x for x in singles if x[0] == "num"]
    for _ in range(min(limit, len(dels) * len(nums))):
        a, b = rng.choice(dels), rng.choice(nums)
        if a[1][:len(b[1])] == b[1] or b[1][:len(a[1])] == a[1]:
            continue
        try:
            d = _edit(doc, b[1], b[2])
            d = _edit(d, a[1], a[2])
            out.append(json.dumps(d, separators=(",", ":")))
        except Exception:
            pass
    return out
