"""Generators: orders, updates, level histories — all from one random.Random."""
import itertools

W = 1 << 64
KINDS = ["S", "I", "P", "T", "G", "M", "R"]
TIFS = ["GTC", "IOC", "FOK", "DAY", "GTD1700000000", "GTD0", "GTD18446744073709551615"]
PEGS = ["BB", "BA", "MP", "LT"]


def order(kind, oid, price, side, ts, tif, vis=0, hid=0, thr=0, amt=None, auto=True,
          trail=7, lastref=9, off=-3, peg="MP"):
    hd = "%s:%s:%d:%s:%d:%s" % (kind, oid, price, side, ts, tif)
    if kind in "SPM":
        return "%s:%d" % (hd, vis)
    if kind == "I":
        return "%s:%d:%d" % (hd, vis, hid)
    if kind == "T":
        return "%s:%d:%d:%d" % (hd, vis, trail, lastref)
    if kind == "G":
        return "%s:%d:%d:%s" % (hd, vis, off, peg)
    if kind == "R":
        return "%s:%d:%d:%d:%s:%d" % (hd, vis, hid, thr, "-" if amt is None else str(amt), 1 if auto else 0)
    raise ValueError(kind)


def parse_order(s):
    p = s.split(":")
    d = dict(kind=p[0], id=p[1], price=int(p[2]), side=p[3], ts=int(p[4]), tif=p[5], hid=0)
    r = p[6:]
    k = p[0]
    if k in "SPM":
        d["vis"] = int(r[0])
    elif k == "I":
        d["vis"], d["hid"] = int(r[0]), int(r[1])
    elif k == "T":
        d["vis"] = int(r[0]); d["params"] = (r[1], r[2])
    elif k == "G":
        d["vis"] = int(r[0]); d["params"] = (r[1], r[2])
    elif k == "R":
        d["vis"], d["hid"] = int(r[0]), int(r[1]); d["params"] = (r[2], r[3], r[4])
    return d


def parse_list(s):
    assert s[0] == "[" and s[-1] == "]", s
    b = s[1:-1]
    return b.split(",") if b else []


def small_grid_c05():
    """7 variants x vis,hid in 0..4 x thr 0..3 x amount {None,0,1,2,3,5} x auto x q 0..6"""
    cases = []
    hd = dict(oid="u7", price=100, side="S", ts=5, tif="GTC")
    for q in range(7):
        for v in range(5):
            for k in "SPTGM":
                cases.append((order(k, vis=v, **hd), q))
            for h in range(5):
                cases.append((order("I", vis=v, hid=h, **hd), q))
                for thr in range(4):
                    for amt in (None, 0, 1, 2, 3, 5):
                        for auto in (True, False):
                            cases.append((order("R", vis=v, hid=h, thr=thr, amt=amt, auto=auto, **hd), q))
    return cases


BOUND = [0, 1, 79, 80, 81, 1 << 63, W - 2, W - 1]


def boundary_grid_c05():
    cases = []
    hd = dict(oid="l340282366920938463463374607431768211455", price=W - 1, side="B", ts=W - 1,
              tif="GTD18446744073709551615")
    for q in BOUND:
        for v in BOUND:
            for k in "SPTGM":
                cases.append((order(k, vis=v, trail=W - 1, lastref=0, off=-(1 << 63), **hd), q))
            for h in BOUND:
                if v + h > W - 1:
                    continue
                cases.append((order("I", vis=v, hid=h, **hd), q))
                for thr in BOUND:
                    for amt in [None] + BOUND:
                        for auto in (True, False):
                            cases.append((order("R", vis=v, hid=h, thr=thr, amt=amt, auto=auto, **hd), q))
    return cases


def rand_qty(rng, cap=W - 1):
    r = rng.random()
    if r < 0.35:
        v = rng.choice([0, 1, 2, 3])
    elif r < 0.8:
        v = rng.randint(0, 120)
    elif r < 0.9:
        v = rng.choice(BOUND)
    else:
        v = rng.randint(0, W - 1)
    return min(v, cap)


def rand_order_c05(rng):
    k = rng.choice(KINDS)
    v = rand_qty(rng)
    h = rand_qty(rng, W - 1 - v) if k in "IR" else 0
    return order(k, oid=rng.choice(["u0", "u1", "l5", "u340282366920938463463374607431768211455"]),
                 price=rand_qty(rng), side=rng.choice("BS"), ts=rand_qty(rng), tif=rng.choice(TIFS),
                 vis=v, hid=h, thr=rand_qty(rng), amt=rng.choice([None, rand_qty(rng)]),
                 auto=rng.random() < 0.6, trail=rand_qty(rng), lastref=rand_qty(rng),
                 off=rng.choice([0, 1, -1, (1 << 63) - 1, -(1 << 63), rng.randint(-1000, 1000)]),
                 peg=rng.choice(PEGS))
