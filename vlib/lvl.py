"""Sequential PriceLevel histories: generation, lock-step execution through the
harness, comparison of implementation and model, parsing for the judges."""
import subprocess
import uuid

from . import gen
from .common import *

NS_MAIN = uuid.UUID("6ba7b810-9dad-11d1-80b4-00c04fd430c8")
NS_FORK = uuid.UUID("6ba7b811-9dad-11d1-80b4-00c04fd430c8")
VIAS = ["snap", "pkg", "pjson", "ref", "data", "text"]
READS = ["list", "snap", "display", "json", "pkg", "stats"]


# ------------------------------------------------------------------ generation

class HistGen:
    """Random single-threaded histories.  Ids are unique among resting orders by
    construction: an id is added only if it was never used or its last operation
    was a cancel / price move (after which it is certainly absent)."""

    def __init__(self, rng, price=None, kinds=None, allow_zero=True, big=False, at_level_price=True,
                 rebuilds=True, forks=False, reads=True, readd=True, k_free=False, tie_ts=True):
        self.rng = rng
        # large quantities only at price 1 so that quantity*price sums stay below 2^64
        self.price = price if price is not None else (1 if big else rng.choice([100, 100, 1, 7, 5000]))
        self.kinds = kinds or gen.KINDS
        self.allow_zero, self.big, self.at_level_price = allow_zero, big, (at_level_price or big)
        self.rebuilds, self.forks, self.reads, self.readd, self.k_free = rebuilds, forks, reads, readd, k_free
        self.tie_ts = tie_ts
        self.next_id = 1
        self.free_again = []       # ids certainly absent (cancelled)
        self.used = []             # ids ever added
        # timestamp regime of the history: small numbers, or wall-clock-like values in ms / us / ns
        # (orders stamped "in the future" of a millisecond clock), or values straddling 2^48 / near 2^64
        self.ts = rng.choice([10, 10, 10, 1_790_000_000_000, 1_790_000_000_000_000, 1_790_000_000_000_000_000,
                              (1 << 48) - 20, (1 << 63) - 20, (1 << 64) - 2000])
        self.budget = (1 << 64) - 1  # keeps total supplied below 2^64
        self.forked = False
        self.big_hidden = set()   # ids whose display must not be amended down (see new_order)

    def qty(self, lo=0, may_big=True):
        r = self.rng.random()
        if self.big and may_big and r < 0.08 and self.budget > (1 << 63) + 1000:
            v = self.rng.choice([1 << 62, (1 << 63) - 1, 1 << 63])
        elif r < 0.15:
            v = 0 if self.allow_zero else 1
        elif r < 0.45:
            v = self.rng.randint(1, 5)
        else:
            v = self.rng.randint(1, 60)
        v = max(v, lo)
        v = min(v, max(self.budget // 4, 0))
        return v

    def new_order(self):
        r = self.rng
        if self.readd and self.free_again and r.random() < 0.5:
            oid = self.free_again.pop(r.randrange(len(self.free_again)))
        elif self.used and r.random() < 0.08 and self._twin(r.choice(self.used)) not in self.used:
            # the same 128 bits in the OTHER id format: a different order id
            oid = self._twin(r.choice([k for k in self.used if self._twin(k) not in self.used]))
        else:
            oid = ("u%d" if r.random() < 0.7 else "l%d") % self.next_id
            self.next_id += 1
        if oid not in self.used:
            self.used.append(oid)
        k = r.choice(self.kinds)
        lo = 0 if self.allow_zero else 1
        v = self.qty(lo)
        # a huge hidden quantity behind a small display means ~10^17 replenishment rounds
        # (terminating, but not in our lifetime): hidden is large only if the display is
        h = self.qty(may_big=(k == "I" and v >= (1 << 60))) if k in "IR" else 0
        self.budget -= (v + h)
        if h >= (1 << 40):
            self.big_hidden.add(oid)
        else:
            self.big_hidden.discard(oid)
        x = r.random()
        if self.tie_ts and x < 0.15:
            ts = self.ts                      # tie with the previous order
        elif self.tie_ts and x < 0.25:
            ts = max(0, self.ts - r.randint(1, 8))   # not monotone in arrival order
        else:
            self.ts += r.randint(1, 3)
            ts = self.ts
        price = self.price if (self.at_level_price or r.random() < 0.85) else self.price + r.choice([1, 13])
        return gen.order(k, oid=oid, price=price, side=r.choice("BS"), ts=ts, tif=r.choice(gen.TIFS),
                         vis=v, hid=h, thr=r.choice([0, 0, 1, 2, 5, 50]),
                         amt=r.choice([None, None, 0, 1, 3, 10, 80, 100]), auto=r.random() < 0.7,
                         trail=r.randint(0, 9), lastref=r.randint(0, 9), off=r.randint(-5, 5), peg=r.choice(gen.PEGS))

    @staticmethod
    def _twin(k):
        return ("l" if k[0] == "u" else "u") + k[1:]

    def pick_id(self):
        r = self.rng
        if self.used and r.random() < 0.8:
            return r.choice(self.used)
        if self.used and r.random() < 0.5:
            return self._twin(r.choice(self.used))      # same bits, other format: usually NOT a resting id
        return "u%d" % r.randint(900, 905)       # never added

    def update(self):
        r = self.rng
        k = self.pick_id()
        t = r.random()
        same = r.random() < 0.6
        p = self.price if same else self.price + r.choice([1, 2, 13, 50])
        nq = self.qty(0 if self.allow_zero else 1, may_big=False)
        if t < 0.3 or k in self.big_hidden:
            u = "C:%s" % k
            gone = True
        elif t < 0.45:
            u = "UP:%s:%d" % (k, p)
            gone = not same
        elif t < 0.7:
            u = "UQ:%s:%d" % (k, nq)
            gone = False
        elif t < 0.85:
            u = "UPQ:%s:%d:%d" % (k, p, nq)
            gone = not same
        else:
            u = "RP:%s:%d:%d:%s" % (k, p, nq, r.choice("BS"))
            gone = not same
        if gone and k in self.used and k not in self.free_again:
            self.free_again.append(k)
        if not gone and u.split(":")[0] in ("UQ", "UPQ", "RP"):
            self.budget -= nq      # an amendment may raise the displayed quantity
        return u

    def history(self, n_ops):
        r = self.rng
        ops = []
        if getattr(self, "prewarm", True) and r.random() < 0.12:
            # a transaction-id generator restored from its serialized state: decimal-length, 2^32, 2^53 and 2^63 boundaries
            k = r.randint(1, 19)
            ops.append("GEN %d" % r.choice([10 ** k - 2, 10 ** k - 1, 10 ** 16 - 3, 10 ** 16 + 5, (1 << 53) - 1, (1 << 53) + 1,
                                            (1 << 32) - 2, (1 << 63) - 2, r.getrandbits(63)]))
        for _ in range(r.randint(1, 4)):
            ops.append("ADD " + self.new_order())
        if getattr(self, "slices", True) and r.random() < 0.04 and self.at_level_price:
            # one maker replenishing through hundreds of slices in a single sweep (per-sweep batch limits: 64, 256, 257 ...)
            n = r.choice([63, 64, 65, 255, 256, 257, 258, 300, 520])
            self.ts += 1
            oid = "u%d" % self.next_id
            self.next_id += 1
            self.used.append(oid)
            self.big_hidden.add(oid)
            self.budget -= n + 1
            ops.append("ADD " + gen.order("I", oid=oid, price=self.price, side=r.choice("BS"), ts=self.ts, tif="GTC", vis=1, hid=n - 1))
            ops.append("MATCH %d u%d" % (1 << 40, 5000 + len(ops)))
        heavy = getattr(self, "upd_heavy", False)
        while len(ops) < n_ops:
            x = r.random()
            if heavy and x < 0.75 and self.used:
                # small book, mostly cancels / amendments: dead queue entries pile up
                ops.append("UPD " + self.update() if r.random() < 0.85 else "MATCH %d u%d" % (r.choice([1, 3, 8]), 5000 + len(ops)))
            elif x < 0.30:
                ops.append("ADD " + self.new_order())
            elif x < 0.58:
                q = r.choice([1, 2, 3, 5, 8, 13, 40, 200]) if r.random() < 0.8 else r.choice([1 << 40, (1 << 64) - 1])
                # the taker's id is normally fresh; sometimes it is the id of an order resting at this very level
                taker = r.choice(self.used) if (self.used and r.random() < 0.07) else "u%d" % (5000 + len(ops))
                ops.append("MATCH %d %s" % (q, taker))
            elif x < 0.80:
                ops.append("UPD " + self.update())
            elif x < 0.88 and self.reads:
                ops.append("READ " + r.choice(READS))
            elif x < 0.92:
                ops.append("SNAP")
            elif x < 0.97 and self.rebuilds:
                ops.append("REBUILD " + r.choice(VIAS))
            elif self.forks and not self.forked:
                ops.append("FORK " + r.choice(VIAS))
                self.forked = True
            else:
                ops.append("ADD " + self.new_order())
        return ops


def case_line(cid, price, mode, ops):
    return "%s|%d|%s|%s" % (cid, price, mode, "|".join(ops))


# ------------------------------------------------------------------ execution

def run_cases(lines, profile="debug", timeout=900):
    """Runs case lines through the harness; restarts after a watchdog exit.
    Returns list of records: dict(case, ops=[dict(i, op, I, M)], end, timeout_at)."""
    recs = {}
    order_ids = [l.split("|", 1)[0] for l in lines]
    pending = list(lines)
    guard = 0
    hangs = 0
    while pending and guard < 50:
        guard += 1
        p = subprocess.run([harness_bin(profile), "level", MODELRUN], input="\n".join(pending) + "\n",
                           text=True, stdout=subprocess.PIPE, timeout=timeout)
        cur = None
        hung = None
        for l in p.stdout.splitlines():
            tag, _, rest = l.partition(" ")
            if tag == "C":
                cid, idx, op = rest.split(" ", 2)
                rec = recs.setdefault(cid, dict(case=cid, ops=[], end=None, timeout_at=None))
                cur = dict(i=int(idx), op=op, I=None, M=None)
                rec["ops"].append(cur)
            elif tag == "I":
                cur["I"] = rest
            elif tag == "M":
                cur["M"] = rest
            elif tag == "E":
                cid, info = rest.split(" ", 1)
                recs[cid]["end"] = info
            elif tag == "T":
                cid, idx = rest.split(" ")
                recs[cid]["timeout_at"] = int(idx)
                hung = cid
        if p.returncode == 3 and hung is not None:
            k = [i for i, l in enumerate(pending) if l.split("|", 1)[0] == hung][0]
            pending = pending[k + 1:]
            hangs += 1
            if hangs >= 3:
                break          # three calls that never returned are evidence enough; do not wait for more
        else:
            break
    return [recs[c] for c in order_ids if c in recs]


# ------------------------------------------------------------------ parsing / comparison

def kv(s):
    d = {}
    for tok in s.split(" "):
        if "=" in tok:
            k, v = tok.split("=", 1)
            d[k] = v
        elif tok:
            d[tok] = True
    return d


def canon_vec(v):
    os_ = gen.parse_list(v)
    return sorted(os_, key=lambda o: (int(o.split(":")[4]), o))


def ts_sorted(v):
    ts = [int(o.split(":")[4]) for o in gen.parse_list(v)]
    return all(a <= b for a, b in zip(ts, ts[1:]))


def cmp_side(i, m, ns, diffs, tag):
    """Compares one implementation result with the model's; appends differences."""
    if i in ("panic", "timeout", "skipped") or m in ("nofuel", "skipped") or m.startswith("error"):
        if not (i == "skipped" and m == "skipped"):
            diffs.append("%s: impl=%s model=%s" % (tag, i[:60], m[:60]))
        return
    di, dm = kv(i), kv(m)
    for k in di:
        if k not in dm:
            if k in ("built", "read", "n", "gen", "resync"):
                continue
            diffs.append("%s: key %s missing in model" % (tag, k))
            continue
        a, b = di[k], dm[k]
        if k == "vec":
            if canon_vec(a) != canon_vec(b):
                diffs.append("%s: listing differs impl=%s model=%s" % (tag, a, b))
        elif k == "txs":
            ta, tb = gen.parse_list(a), gen.parse_list(b)
            if len(ta) != len(tb):
                diffs.append("%s: %d transactions vs model %d" % (tag, len(ta), len(tb)))
                continue
            for x, y in zip(ta, tb):
                xs, ys = x.split("/"), y.split("/")
                if xs[1:] != ys[1:]:
                    diffs.append("%s: transaction differs impl=%s model=%s" % (tag, x, y))
                elif str(uuid.uuid5(ns, ys[0])) != xs[0]:
                    diffs.append("%s: transaction id %s is not uuid5(ns, %s)" % (tag, xs[0], ys[0]))
        elif a != b:
            diffs.append("%s: %s impl=%s model=%s" % (tag, k, a, b))
    if "built" in di and di["built"] != "ok":
        diffs.append("%s: constructor failed: %s" % (tag, di["built"]))
    if "perm" in dm and dm["perm"] != "1":
        diffs.append("%s: implementation listing is not a timestamp-sorted permutation of the model's map" % tag)


def compare(rec):
    """Returns list of (opindex, text) differences between implementation and model for one case."""
    out = []
    for o in rec["ops"]:
        I, M = o["I"], o["M"]
        if M == "-" or M is None:
            continue
        diffs = []
        ip, mp = I.split(" || "), M.split(" || ")
        cmp_side(ip[0], mp[0], NS_MAIN, diffs, "main")
        if len(ip) != len(mp):
            diffs.append("fork presence differs")
        elif len(ip) == 2:
            cmp_side(ip[1], mp[1], NS_FORK, diffs, "fork")
        for d in diffs:
            out.append((o["i"], d))
    return out


def shrink(ops, fails, max_rounds=200):
    """Delta-debugging on an op list: fails(ops) -> bool."""
    ops = list(ops)
    n = 2
    rounds = 0
    import time
    deadline = time.time() + 150        # shrinking is a courtesy: never let it dominate the run
    while len(ops) >= 2 and rounds < max_rounds and time.time() < deadline:
        rounds += 1
        chunk = max(1, len(ops) // n)
        reduced = False
        for s in range(0, len(ops), chunk):
            cand = ops[:s] + ops[s + chunk:]
            if cand and fails(cand):
                ops = cand
                n = max(n - 1, 2)
                reduced = True
                break
        if not reduced:
            if chunk == 1:
                break
            n = min(n * 2, len(ops))
    return ops
