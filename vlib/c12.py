"""C12 — concurrent readers never observe wrapped or impossible aggregates."""
from . import conc
from .concprop import *
from . import c03
from .c03 import CoqJudges

# The statement handed to the extracted Coq judge (Spec/ConcJudges.v: range_b <=> RangeOK; Properties/Tie.v
# Tie_judge_range, Tie_judge_range_sound / _so_far from C12_every_prefix / C12_counters_bounded): one per run, one row
# per scheduled step: quantity and orders supplied so far, then the three aggregates the scheduler read after the step.
CJ = CoqJudges({"range": "every aggregate and visible + hidden within [0, supplied so far] after every step, range_b"})


def rows(rec, prog, info):
    """[(supplied quantity, supplied orders, visible, hidden, count)] per step; "supplied so far" exactly as
    conc.judge_range counts it: everything the set-up ever added (and the new quantities of its amendments) plus the
    quantity / order of every call that has begun before the step."""
    s = sum(conc.total(st[4:]) for st in prog["setup"] if st.startswith("ADD "))
    for st in prog["setup"]:
        if st.startswith("UPD UQ:"):
            s += int(st.split(":")[-1])
    n = sum(1 for st in prog["setup"] if st.startswith("ADD "))
    begun = sorted(info["calls"].values(), key=lambda c: c["begin"])
    out, j = [], 0
    for i, (cv, ch, cc) in enumerate(info["snaps"]):
        while j < len(begun) and begun[j]["begin"] <= i:
            op = begun[j]["op"]
            if op.startswith("ADD "):
                s += conc.total(op[4:])
                n += 1
            elif op.startswith("UPD UQ:"):
                s += int(op.split(":")[-1])
            elif op.startswith("UPD RP:") or op.startswith("UPD UPQ:"):
                s += int(op.split(":")[3])
            j += 1
        out.append((s, n, cv, ch, cc))
    return out


def range_stmt_ok(rs):
    """python restatement of RangeOK (Spec/ConcJudges.v) on the rows of one run"""
    return all(0 <= cv <= s and 0 <= ch <= s and cv + ch <= s and 0 <= cc <= n for (s, n, cv, ch, cc) in rs)


def judge_range(rec, prog, info):
    """conc.judge_range AND the extracted range_b on the same observations: the run fails if either rejects."""
    py = conc.judge_range(rec, prog, info)
    rs = rows(rec, prog, info)
    v = CJ.judge("range", "range " + " ".join("%d/%d/%d/%d/%d" % r for r in rs), range_stmt_ok(rs), rec, prog)
    if py:
        return py
    if v is None:
        return "the extracted judge range_b could not read the observations of this run"
    if not v:
        bad = [(i, r) for i, r in enumerate(rs) if not range_stmt_ok([r])]
        if bad:
            i, (s, n, cv, ch, cc) = bad[0]
            return ("extracted judge range_b rejects: after step %d a reader sees (visible %d, hidden %d, count %d), visible + hidden = %d; "
                    "supplied so far: quantity %d, orders %d" % (i, cv, ch, cc, cv + ch, s, n))
        return "extracted judge range_b rejects the observations of this run (the python restatement accepts them)"
    return None


def run(tier, seed, replay=None):
    return run_conc_property(
        "C12", tier, seed, replay,
        judges=[("aggregate range after every step", judge_range)],
        n_quick=2500, n_thorough=60000, flags="mode=O", extra_obligations=CJ.obligations,
        # programs built around one order (matcher vs amender / canceller / same-price replace): the windows between an
        # update's queue operations and its counter operations are hit in every run
        extra_lines=lambda rng, tier: [l.replace("|drain,mode=O", "|mode=O") for l in c03.extra_lines(rng, tier)])
