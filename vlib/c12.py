"""C12 — concurrent readers never observe wrapped or impossible aggregates."""
from . import conc
from .concprop import *


def run(tier, seed, replay=None):
    return run_conc_property(
        "C12", tier, seed, replay,
        judges=[("aggregate range after every step", conc.judge_range)],
        n_quick=2500, n_thorough=60000, flags="mode=O")
