"""C06 — matching always terminates and exhausts the displayed liquidity."""
from . import gen, lvl
from .lvlprop import *


def judge(rec, price, ops):
    prev = None
    for o in rec["ops"]:
        I = o["I"]
        if I == "timeout":
            return [(o["i"], "match_order did not return (watchdog)")]
        if I == "panic":
            return [(o["i"], "implementation panicked")]
        if I == "skipped" or I.startswith("read="):
            continue
        d = lvl.kv(I.split(" || ")[0])
        if o["op"].startswith("MATCH ") and prev is not None:
            qty = int(o["op"].split(" ")[1])
            shown = sum(gen.parse_order(x)["vis"] for x in gen.parse_list(prev["vec"]))
            ex = int(d["exec"])
            if ex < min(qty, shown):
                return [(o["i"], "executed %d < min(requested %d, displayed at start %d)" % (ex, qty, shown))]
            if int(d["rem"]) > 0:
                left = [x for x in gen.parse_list(d["vec"]) if gen.parse_order(x)["vis"] > 0]
                if left:
                    return [(o["i"], "returned with %s remaining although %s still displays quantity" % (d["rem"], left[0]))]
        if "vec" in d and d.get("built", "ok") == "ok":
            prev = d
    return []


def corr_filter(text):
    return any(k in text for k in ("transaction", " rem ", " exec ", "panic", "model=", "timeout", "nofuel", "listing"))


def make_cases(rng, tier):
    n = 1500 if tier == "quick" else 40000
    cs = histories(rng, n, rebuilds=False, reads=False)
    # zero-display states: iceberg amended to 0, reserve amount 0, orders added with display 0
    for i in range(n // 3):
        ops, ts = [], 10
        ids = []
        for j in range(rng.randint(1, 5)):
            k = rng.choice("IRIRS")
            oid = "u%d" % (j + 1)
            ids.append(oid)
            ts += 1
            ops.append("ADD " + gen.order(k, oid=oid, price=100, side="S", ts=ts, tif="GTC", vis=rng.choice([0, 0, 1, 4]),
                                          hid=rng.choice([0, 3, 9]), thr=rng.choice([0, 1, 5]), amt=rng.choice([0, 0, None, 2]),
                                          auto=rng.random() < 0.8))
        for j in range(rng.randint(1, 6)):
            x = rng.random()
            if x < 0.4:
                ops.append("UPD UQ:%s:0" % rng.choice(ids))
            elif x < 0.5:
                ops.append("UPD UQ:%s:%d" % (rng.choice(ids), rng.choice([1, 3])))
            else:
                ops.append("MATCH %d u7%03d" % (rng.choice([1, 3, 10, 1000]), j))
        ops.append("MATCH 18446744073709551615 u7999")
        cs.append((100, ops))
    return cs


def run(tier, seed, replay=None):
    return run_property("C06", tier, seed, replay, make_cases=make_cases, judge=judge, corr_filter=corr_filter,
                        nontrivial=lambda rec, price, ops: any(o.startswith("MATCH") for o in ops))
