"""C06 — matching always terminates and exhausts the displayed liquidity."""
from . import gen, lvl
from .lvlprop import *


def judge(rec, price, ops):
    prev = None
    for o in rec["ops"]:
        I = o["I"]
        if I == "timeout":
            return [(o["i"], "match_order did not return (watchdog)")]
        if I == "panic":
            return [(o["i"], "implementation panicked")]
        if I == "skipped" or I.startswith("read="):
            continue
        d = lvl.kv(I.split(" || ")[0])
        if o["op"].startswith("MATCH ") and prev is not None:
            qty = int(o["op"].split(" ")[1])
            shown = sum(gen.parse_order(x)["vis"] for x in gen.parse_list(prev["vec"]))
            ex = int(d["exec"])
            if ex < min(qty, shown):
                return [(o["i"], "executed %d < min(requested %d, displayed at start %d)" % (ex, qty, shown))]
            if int(d["rem"]) > 0:
                left = [x for x in gen.parse_list(d["vec"]) if gen.parse_order(x)["vis"] > 0]
                if left:
                    return [(o["i"], "returned with %s remaining although %s still displays quantity" % (d["rem"], left[0]))]
        if "vec" in d and d.get("built", "ok") == "ok":
            prev = d
    return []


# ---- the statement handed to the extracted Coq judge (Spec/Judges.v exhaust_b <=> Exhausts, Properties/Tie.v
# Tie_judge_exhaust*): one per MATCH call, from the listing before, the listing after, executed and remaining.

def exhaust_stmt_ok(qty, before_vec, after_vec, executed, remaining):
    """python restatement of Exhausts (Spec/Judges.v) on one call"""
    shown = sum(gen.parse_order(x)["vis"] for x in gen.parse_list(before_vec))
    return executed >= min(qty, shown) and (remaining == 0 or all(gen.parse_order(x)["vis"] == 0 for x in gen.parse_list(after_vec)))


def statements(rec, price, ops):
    """-> [(opindex, JUDGE query, text, verdict of the python restatement on exactly this statement)]"""
    out, prev = [], None
    for o in rec["ops"]:
        I = o["I"]
        if I in ("panic", "skipped", "timeout") or I.startswith("read="):
            continue
        d = lvl.kv(I.split(" || ")[0])
        if o["op"].startswith("MATCH ") and prev is not None and "exec" in d and "vec" in d:
            qty = int(o["op"].split(" ")[1])
            py = exhaust_stmt_ok(qty, prev["vec"], d["vec"], int(d["exec"]), int(d["rem"]))
            out.append((o["i"], "exhaust %d %s %s %s %s" % (qty, prev["vec"], d["vec"], d["exec"], d["rem"]),
                        "`%s`: executed less than min(requested, displayed) or returned with quantity remaining while an order still displays quantity" % o["op"], py))
        if "vec" in d and d.get("built", "ok") == "ok":
            prev = d
    return out


_STMTS = []      # (price, ops, opindex, query, python verdict) of the statements judged in this run


def coq_queries(rec, price, ops):
    out = []
    for (i, q, text, py) in statements(rec, price, ops):
        _STMTS.append((price, ops, i, q, py))
        out.append((i, q, text))
    return out


def judges_agree(ck, stmts, what):
    """Obligation "python judge = Coq judge": the python restatement and the extracted judge give the same verdict on
    every judged statement (a run is rejected if either rejects; a disagreement is a defect of the check itself)."""
    verdicts = coq_judge([s[3] for s in stmts])
    diff = [(s, v) for s, v in zip(stmts, verdicts) if bool(s[4]) != v]
    ck.oblige("python judge = Coq judge (%s): same verdict on each of %d judged statements" % (what, len(stmts)),
              not diff, "%d differ" % len(diff))
    if diff:
        (price, ops, i, q, py), v = diff[0]
        ck.violation("judge_disagree", dict(kind="level-history", price=price, ops=ops, failing_op=i,
                                            why="python judge says %s, extracted Coq judge says %s on: JUDGE %s" % (bool(py), v, q[:400])))
    del stmts[:]


def corr_filter(text):
    return any(k in text for k in ("transaction", " rem ", " exec ", "panic", "model=", "timeout", "nofuel", "listing"))


def make_cases(rng, tier):
    n = 1500 if tier == "quick" else 40000
    cs = histories(rng, n, rebuilds=False, reads=False)
    # zero-display states: iceberg amended to 0, reserve amount 0, orders added with display 0
    for i in range(n // 3):
        ops, ts = [], 10
        ids = []
        for j in range(rng.randint(1, 5)):
            k = rng.choice("IRIRS")
            oid = "u%d" % (j + 1)
            ids.append(oid)
            ts += 1
            ops.append("ADD " + gen.order(k, oid=oid, price=100, side="S", ts=ts, tif="GTC", vis=rng.choice([0, 0, 1, 4]),
                                          hid=rng.choice([0, 3, 9]), thr=rng.choice([0, 1, 5]), amt=rng.choice([0, 0, None, 2]),
                                          auto=rng.random() < 0.8))
        for j in range(rng.randint(1, 6)):
            x = rng.random()
            if x < 0.4:
                ops.append("UPD UQ:%s:0" % rng.choice(ids))
            elif x < 0.5:
                ops.append("UPD UQ:%s:%d" % (rng.choice(ids), rng.choice([1, 3])))
            else:
                ops.append("MATCH %d u7%03d" % (rng.choice([1, 3, 10, 1000]), j))
        ops.append("MATCH 18446744073709551615 u7999")
        cs.append((100, ops))
    return cs


def run(tier, seed, replay=None):
    return run_property("C06", tier, seed, replay, make_cases=make_cases, judge=judge, corr_filter=corr_filter,
                        nontrivial=lambda rec, price, ops: any(o.startswith("MATCH") for o in ops), coq_queries=coq_queries,
                        extra_obligations=lambda ck: judges_agree(ck, _STMTS, "Exhausts, per match call"))
