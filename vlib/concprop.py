"""Shared driver for the properties decided over concurrent executions under the
deterministic scheduler (C03, C08, C12, C13, C14, concurrent half of C15)."""
import json
import random

from . import conc, gen
from .common import *
from .lvl import kv, canon_vec


def corpus_progs(pid):
    out = []
    p = os.path.join(CORPUS, pid + "_conc.txt")
    if os.path.exists(p):
        for l in open(p):
            l = l.strip()
            if l and not l.startswith("#"):
                out.append(l)
    return out


def model_agrees(rec, proj=None, final_keys=("cv", "ch", "cc")):
    """Correspondence obligations of one run; returns list of texts.  With a projection (object classes
    compared by CTRACEP) values that depend on the interleaving of the uncompared steps are skipped."""
    out = []
    v = rec["V"] or ""
    if rec.get("U"):
        # the harness could not identify the level's shared objects with the model's (an object was added, removed or
        # changed its use): a broken tie, not by itself a failure of the property
        out.append("shared objects of the implementation do not match Model/Conc.v: " + "; ".join(rec["U"])[:300])
        return out
    if rec["X"]:
        return out            # aborted runs are handled by the judges
    if v == "nomodel":
        return out            # a program with calls outside Model/Conc.v (snapshot): judged only
    if not v.startswith("accepted"):
        out.append("trace not accepted by Model/Conc.v: " + v[:300])
        return out
    d, q = kv(v), kv(rec["Q"])
    for k in final_keys:
        if d[k] != q[k]:
            out.append("final %s: implementation %s, model %s" % (k, q[k], d[k]))
    if canon_vec(d["vec"]) != canon_vec(q["vec"]):
        out.append("final listing differs")
    # per-call return values
    mrets = [t.split("|") if t else [] for t in d["rets"].split("#")]
    irets = {}
    for tag, rest in rec["ev"]:
        if tag == "R":
            tid, ci, r = rest.split(" ", 2)
            irets.setdefault(int(tid), []).append(r)
    for tid, rs in irets.items():
        ms = mrets[tid] if tid < len(mrets) else []
        for ci, r in enumerate(rs):
            m = ms[ci] if ci < len(ms) else "<none>"
            if r.startswith("id:") and m.startswith("num:"):
                continue        # checked by the id judge (uuid5 of the counter)
            if proj and "cnt" not in proj and r.startswith("num:"):
                continue        # a counter read: depends on the order of counter steps, which is not compared
            if r.startswith("match:") and m.startswith("match:"):
                a, b = kv(r[6:].replace(";", " ")), kv(m[6:].replace(";", " "))
                ta = [x.split("/")[1:] for x in gen.parse_list(a["txs"])]
                tb = [x.split("/")[1:] for x in gen.parse_list(b["txs"])]
                if ta != tb or any(a[k] != b[k] for k in ("rem", "complete", "filled")):
                    out.append("thread %d call %d: match result differs (%s vs %s)" % (tid, ci, r[:120], m[:120]))
            elif r.startswith("snap:") and m.startswith("snap:"):
                ra, rb = r[5:].split("/", 3), m[5:].split("/", 3)
                if canon_vec(ra[3]) != canon_vec(rb[3]):
                    out.append("thread %d call %d: snapshot listing differs" % (tid, ci))
                elif not (proj and "cnt" not in proj) and ra[:3] != rb[:3]:
                    # (under a projection without the counters the model performs the loads at other instants)
                    out.append("thread %d call %d: snapshot counters %s, model %s" % (tid, ci, "/".join(ra[:3]), "/".join(rb[:3])))
            elif r.startswith("list:") and m.startswith("list:"):
                if canon_vec(r[5:]) != canon_vec(m[5:]):
                    out.append("thread %d call %d: listing differs" % (tid, ci))
            elif r != m:
                out.append("thread %d call %d: returns %s, model %s" % (tid, ci, r[:100], m[:100]))
    if rec["D"] and rec["DM"] and rec["D"] != "panic":
        dd, dm = kv(rec["D"]), kv(rec["DM"])
        for k in tuple(final_keys) + ("rem", "filled"):
            if k in dd and k in dm and dd[k] != dm[k]:
                out.append("draining match %s: implementation %s, model %s" % (k, dd[k], dm[k]))
    if "iface=1" not in (rec["E"] or ""):
        out.append("a match_against answer violates I_cons")
    return out


def gen_programs(rng, n, flags="drain,mode=O", **kw):
    lines = []
    for i in range(n):
        g = conc.ProgGen(rng, **kw)
        setup, threads = g.program()
        sched = ("r%d" if i % 3 else "p%d") % rng.randint(1, 10 ** 9)
        lines.append(conc.prog_line("p%d" % i, g.price, setup, threads, sched, flags))
    return lines


def explicit_line(line, schedule):
    f = line.split("|")
    f[4] = schedule
    return "|".join(f)


def shrink_program(line, fails):
    """Drops calls (and whole threads) while the failure persists under SOME random schedule
    of a small budget; the schedule is re-searched for every candidate."""
    prog = conc.parse_prog(line)
    best = line

    def build(setup, threads):
        threads = [t for t in threads if t]
        if not threads:
            return None
        return conc.prog_line(prog["id"], prog["price"], setup, threads, "r1", prog["flags"])
    changed = True
    setup, threads = list(prog["setup"]), [list(t) for t in prog["threads"]]
    rounds = 0
    import time
    deadline = time.time() + 150        # shrinking is a courtesy: never let it dominate the run
    while changed and rounds < 40 and time.time() < deadline:
        changed = False
        rounds += 1
        for ti in range(len(threads)):
            for ci in range(len(threads[ti])):
                cand_t = [list(t) for t in threads]
                del cand_t[ti][ci]
                cand = build(setup, cand_t)
                if cand:
                    hit = fails(cand)
                    if hit:
                        threads, best, changed = cand_t, hit, True
                        break
            if changed:
                break
        if changed:
            continue
        for si in range(len(setup)):
            if time.time() > deadline:
                break
            cand_s = setup[:si] + setup[si + 1:]
            cand = build(cand_s, threads)
            if cand:
                hit = fails(cand)
                if hit:
                    setup, best, changed = cand_s, hit, True
                    break
    return best


def explore(line, bound=2, max_runs=3000, batch=200):
    """Stateless bounded-preemption DFS over the schedules of one program.  Yields (rec, explicit line)."""
    base = line.split("|")
    seen = {()}
    stack = [[]]
    runs = 0
    while stack and runs < max_runs:
        todo, stack = stack[-batch:], stack[:-batch]
        lines = []
        for n, pref in enumerate(todo):
            f = list(base)
            f[0] = "x%d" % (runs + n)
            f[4] = ",".join(map(str, pref))
            lines.append("|".join(f))
        recs = conc.run_progs(lines)
        runs += len(lines)
        for rec, l, pref in zip(recs, lines, todo):
            yield rec, l
            if not rec["K"] or rec["N"] is None:
                continue
            taken = [int(x) for x in rec["K"].split(",") if x != ""]
            enabled = [[int(y) for y in e.split(".") if y != ""] for e in rec["N"].split(",")]
            # preemptions so far along `taken`
            pre = [0] * (len(taken) + 1)
            for i in range(1, len(taken)):
                pre[i + 1] = pre[i] + (1 if taken[i] != taken[i - 1] and taken[i - 1] in enabled[i] else 0)
            for i in range(len(pref), len(taken)):
                for t in enabled[i]:
                    if t == taken[i]:
                        continue
                    cost = pre[i] + (1 if i > 0 and t != taken[i - 1] and taken[i - 1] in enabled[i] else 0)
                    if cost > bound:
                        continue
                    newp = tuple(taken[:i] + [t])
                    if newp not in seen:
                        seen.add(newp)
                        stack.append(list(newp))


def run_conc_property(pid, tier, seed, replay, *, judges, classify=None, n_quick=1500, n_thorough=30000,
                      gen_kw=None, flags="drain,mode=O", corr=True, extra_lines=None, rule="", extra_obligations=None,
                      final_keys=("cv", "ch", "cc")):
    """judges: list of (name, fn(rec, prog, info) -> text|None).  classify(text, rec, prog, info) -> 'Kx ...' | None"""
    ck = Check(pid, tier, seed)
    rng = random.Random(seed)
    pr = check_proofs(pid, coqchk=(tier == "thorough"))
    for t in pr["theorems"]:
        ck.oblige("theorem " + t, pr["ok"], pr["failed"] or "")
    if not pr["theorems"]:
        ck.oblige("Properties/%s.v" % pid, False, pr["failed"] or "")
    ck.assumptions = ["Print Assumptions: " + (", ".join(pr["assumptions"]) or "Closed under the global context (all theorems)")] + ([pr["coqchk"]] if pr.get("coqchk") else [])
    build_modelrun()
    build_harness("debug")
    if replay:
        r = json.load(open(replay))
        lines = [explicit_line(r["program"], r["schedule"]) if r.get("schedule") else r["program"]]
    else:
        n = n_quick if tier == "quick" else n_thorough
        lines = corpus_progs(pid) + (extra_lines(rng, tier) if extra_lines else []) + gen_programs(rng, n, flags, **(gen_kw or {}))
        lines = ["q%d|" % i + l.split("|", 1)[1] for i, l in enumerate(lines)]
    recs = conc.run_progs(lines)
    n_ran = len(recs)
    by_id = {l.split("|", 1)[0]: l for l in lines}
    explored = 0
    if tier == "thorough" and not replay:
        # bounded-preemption DFS (bound 2) over ALL schedules of small programs: corpus witnesses + 2-thread programs
        small = [l for l in lines if len(conc.parse_prog(l)["threads"]) == 2 and sum(len(t) for t in conc.parse_prog(l)["threads"]) <= 3][:40]
        for l in corpus_progs(pid) + small:
            for rec, el in explore(l, bound=2, max_runs=1500):
                rec = dict(rec)
                rec["id"] = "e%d" % explored
                by_id[rec["id"]] = el
                recs.append(rec)
                explored += 1
    corr_bad, judge_bad, known = [], [], {}
    steps = 0
    distinct = set()
    thr_hist = {}
    for rec in recs:
        line = by_id[rec["id"]]
        prog = conc.parse_prog(line)
        info = conc.analyse(rec, prog)
        steps += len(info.get("steps", []))
        thr_hist[len(prog["threads"])] = thr_hist.get(len(prog["threads"]), 0) + 1
        if len(info.get("steps", [])) > 3 and len(prog["threads"]) >= 2:
            distinct.add((line.split("|", 1)[1].rsplit("|", 2)[0], rec["K"]))
        if corr:
            pj = [x[5:] for x in flags.split(",") if x.startswith("proj=")]
            for t in model_agrees(rec, pj[0].split("+") if pj else None, final_keys):
                corr_bad.append((line, rec["K"], t))
                break
        if rec["X"]:
            judge_bad.append((line, rec["K"], "run aborted: " + "; ".join(rec["X"])))
            continue
        for name, fn in judges:
            t = fn(rec, prog, info)
            if t:
                k = classify(t, rec, prog, info) if classify else None
                if k:
                    known.setdefault(k.split(" ")[0], (k, line, rec["K"]))
                else:
                    judge_bad.append((line, rec["K"], name + ": " + t))
                break
    ck.cov["evaluations"] = steps
    ck.cov["distinct_nontrivial"] = len(distinct)
    ck.cov["rule"] = rule or ("programs of 2-4 threads x 1-3 calls (add/match/cancel/amend/price-move/reads/next) on a level pre-loaded with Standard, "
                              "Iceberg and Reserve orders, each run under one schedule of the baton-passing scheduler (uniform random or PCT-style "
                              "priorities, derived from the seed); an evaluation is one scheduled shared-memory step; non-trivial = >=2 threads and >3 steps; "
                              "distinct by (program, schedule)")
    ck.cov["samples"] = [dict(program=lines[i], schedule=recs[i]["K"]) for i in range(min(2, len(recs)))]
    ck.cov["traces_validated_against_impl"] = len(recs)
    ck.extra["input_distribution"] = dict(programs=len(lines), threads_histogram=thr_hist, scheduled_steps=steps,
                                          dfs_bounded_preemption_runs=explored)
    if n_ran != len(lines):
        ck.oblige("harness ran all programs", False, "%d of %d" % (n_ran, len(lines)))
    if corr:
        ck.oblige("correspondence: every scheduled step, return value and final state of the implementation is reproduced by Model/Conc.v (accept)",
                  not corr_bad, "%d runs differ" % len(corr_bad))
    unhooked = hook_coverage()
    ck.oblige("tie: every shared-memory primitive in level.rs / statistics.rs / order_queue.rs / uuid.rs is the hooked (cfg-switched) one, "
              "so the scheduler and Model/Conc.v's accept see every shared access (source scan)", not unhooked, "; ".join(unhooked[:4]))
    ck.oblige("judge: the property holds on every implementation run (outside listed known findings)", not judge_bad,
              "%d runs fail" % len(judge_bad))
    if extra_obligations and not replay:
        extra_obligations(ck)
    listed = {f["id"]: f for f in known_findings()["findings"] if pid in f["properties"]}
    for kid, (text, line, k) in sorted(known.items()):
        if kid in listed:
            ck.known("%s: %s" % (kid, listed[kid]["what"]))
        else:
            judge_bad.append((line, k, "unlisted finding class: " + text))

    def fails(cand_line):
        # search a few schedules for the candidate program
        cands = []
        for s in range(1, 25):
            cands.append(explicit_line(cand_line.replace(cand_line.split("|", 1)[0], "s%d" % s, 1), "r%d" % (s * 7919)))
        rs = conc.run_progs(cands)
        for rec, l in zip(rs, cands):
            prog = conc.parse_prog(l)
            info = conc.analyse(rec, prog)
            if rec["X"]:
                return explicit_line(l, rec["K"] or "")
            for name, fn in judges:
                t = fn(rec, prog, info)
                if t and not (classify and classify(t, rec, prog, info)):
                    return explicit_line(l, rec["K"])
        return None

    if judge_bad:
        judge_bad.sort(key=lambda x: len(x[0]))
        line, k, why = judge_bad[0]
        small = explicit_line(line, k or "")
        try:
            small = shrink_program(small, fails) or small
        except Exception:
            pass
        ck.violation("fail", dict(kind="conc-program", program=small, schedule=conc.parse_prog(small)["sched"], why=why,
                                  original_program=line, original_schedule=k, failures=len(judge_bad)))
    elif corr_bad or not pr["ok"] or unhooked:
        first = dict(program=corr_bad[0][0], schedule=corr_bad[0][1], difference=corr_bad[0][2]) if corr_bad else None
        if unhooked and not corr_bad and pr["ok"]:
            first = dict(unhooked_shared_state=unhooked)
        ck.violation("unproved", dict(kind="conc-program", program=(first or {}).get("program"), schedule=(first or {}).get("schedule"),
                                      broken=("correspondence implementation/Model.Conc" if corr_bad else (pr["failed"] or "tie: shared state outside the hooks (the schedule search cannot reach it)")),
                                      theorem=(None if pr["ok"] else "Properties/%s.v: %s" % (pid, pr["failed"])),
                                      first_disagreement=first, log=pr["log"][-1500:] if not pr["ok"] else ""),
                     note="no-failing-input-found")
    return ck.finish("cd /verif/coq && make Properties/%s.vo   (+ ./check %s: scheduler runs, accept, judges)" % (pid, pid))


def replay_conc(pid, tier, seed, r, judge):
    ck = Check(pid, tier, seed)
    build_modelrun()
    build_harness("debug")
    line = explicit_line(r["program"], r.get("schedule") or "r1")
    recs = conc.run_progs([line])
    bad = None
    for rec in recs:
        prog = conc.parse_prog(line)
        info = conc.analyse(rec, prog)
        bad = judge(rec, prog, info) or ("; ".join(rec["X"]) if rec["X"] else None)
    ck.oblige("replayed run satisfies the property", not bad, bad or "")
    if bad:
        ck.violation("fail", dict(kind="conc-program", program=line, schedule=r.get("schedule"), why=bad))
    return ck.finish("./check %s --replay" % pid)
