"""Histories built to be FREE of the known-finding events K1/K2/K3: plain orders with
positive quantities, strictly increasing timestamps, matches that end exactly on an order
boundary (python tracks the trivial book of plain orders), no re-adds; cancels and
same-price amends are optional."""
from . import gen


class KFree:
    def __init__(self, rng, price=100, cancels=True, amends=True, w_add=0.4, w_match=0.35, w_cancel=0.12):
        self.rng, self.price = rng, price
        self.book = []     # [id, qty] in arrival order
        self.nid = 1
        self.ts = rng.choice([10, 10, 1_790_000_000_000, 1_790_000_000_000_000_000, (1 << 48) - 20, (1 << 64) - 5000])
        self.cancels, self.amends = cancels, amends
        self.w = (w_add, w_add + w_match, w_add + w_match + w_cancel)

    def add(self):
        r = self.rng
        oid = ("u%d" if r.random() < 0.7 else "l%d") % self.nid
        self.nid += 1
        self.ts += r.randint(1, 3)
        q = r.randint(1, 30)
        self.book.append([oid, q])
        return "ADD " + gen.order(r.choice("SPTGM"), oid=oid, price=self.price, side=r.choice("BS"), ts=self.ts,
                                  tif=r.choice(gen.TIFS), vis=q, trail=r.randint(0, 9), lastref=r.randint(0, 9),
                                  off=r.randint(-5, 5), peg=r.choice(gen.PEGS))

    def match(self):
        r = self.rng
        if not self.book or r.random() < 0.15:
            q = sum(x[1] for x in self.book) + r.choice([0, 1, 50])     # sweep everything (and maybe more)
            self.book = []
            return "MATCH %d u7%03d" % (max(q, 1), r.randint(0, 999))
        j = r.randint(1, len(self.book))
        q = sum(x[1] for x in self.book[:j])
        self.book = self.book[j:]
        return "MATCH %d u7%03d" % (q, r.randint(0, 999))

    def history(self, n):
        r = self.rng
        ops = [self.add() for _ in range(r.randint(2, 5))]
        while len(ops) < n:
            x = r.random()
            if x < self.w[0] or len(self.book) < 2:
                ops.append(self.add())
            elif x < self.w[1]:
                ops.append(self.match())
            elif x < self.w[2] and self.cancels and self.book:
                i = r.randrange(len(self.book))
                k = self.book.pop(i)[0]
                ops.append(r.choice(["UPD C:%s" % k, "UPD UP:%s:%d" % (k, self.price + 3)]))
            elif self.amends and self.book:
                e = r.choice(self.book)
                e[1] = r.randint(1, 40)
                ops.append(r.choice(["UPD UQ:%s:%d" % (e[0], e[1]), "UPD RP:%s:%d:%d:B" % (e[0], self.price, e[1])]))
            else:
                ops.append(self.add())
        return ops
