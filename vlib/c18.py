"""C18 — parsers are total: malformed text yields an error, never a panic.
Proofs: Properties/C18.v (forall s, utf8_valid s -> parse_T s <> PPanic for every text entry
point of the model; the pre-repair MatchResult scanner does panic on the pinned witness).
Tie: Ok(value) / Err / Panic classification of the model (modelrun_text) against the
library's FromStr (harness text, panics caught, watchdog for non-termination) on strings
obtained from valid encodings by character-level deletion, insertion, substitution (incl.
2-, 3- and 4-byte characters), duplication and truncation, plus a corpus.  Error variants and
messages are not compared.
Judge: the property itself — no implementation call panics, aborts or times out — on
every FromStr entry point and (implementation only) on the serde_json entry points."""
import json
import random

from . import textgen as tg
from .common import *

SWEEPS_QUICK = [("side", "", "ELL"), ("side", "BU", ""), ("tif", "", "OC"), ("tif", "FO", ""), ("tif", "D", "Y"),
                ("tif", "GTD-", "")]
SWEEPS_ALL = ([("side", k[:i], k[i + 1:]) for k in ("BUY", "SELL") for i in range(len(k))] +
              [("tif", k[:i], k[i + 1:]) for k in ("GTC", "IOC", "FOK", "DAY", "GTD-7") for i in range(len(k))] +
              [("tif", "GTD-", ""), ("tif", "GTD-1", ""), ("side", "", ""), ("tif", "", "")])


def seeds(tier, rng):
    """(type, value) seeds whose printed text is mutated."""
    s = list(tg.fixed_values())
    per = dict(quick=12, thorough=60)[tier]
    for ty in tg.TYPES:
        for _ in range(per):
            s.append((ty, tg.GENERATORS[ty](rng)))
    return s


def short_seeds():
    """Small encodings of every type for the exhaustive every-position sweep."""
    o = "S:u1:5:B:1:GTC:7"
    r = "R:l2:5:S:2:GTD9:1:2:3:-:1"
    g = "G:u3:5:B:3:DAY:4:-5:MP"
    t = "1/u1/l2/3/4/B/5"
    return [("side", "B"), ("side", "S"), ("tif", "GTC"), ("tif", "GTD17"), ("peg", "BB"), ("peg", "LT"),
            ("oid", "u1"), ("oid", "l1"), ("uuid", "255"), ("order", o), ("order", r), ("order", g),
            ("order", "I:u1:5:B:1:IOC:7:8"), ("order", "T:u1:5:B:1:FOK:7:8:9"),
            ("update", "UP:u1:2"), ("update", "C:l1"), ("update", "RP:u1:2:3:S"), ("update", "UPQ:l1:2:3"),
            ("txn", t), ("txlist", "[]"), ("txlist", "[%s]" % t), ("txlist", "[%s,%s]" % (t, t)),
            ("mr", "u1|2|0|[]|[]"), ("mr", "l1|0|1|[%s]|[u1,l2]" % t),
            ("stats", "1/2/3/4/5/6/7/8"), ("snap", "1/2/3/4"),
            ("queue", "[]"), ("queue", "[%s]" % o), ("queue", "[%s,%s]" % (o, r)),
            ("level", "5|[]"), ("level", "5|[%s]" % o), ("level", "5|[%s,%s]" % (o, g))]


def load_corpus():
    out = list(tg.CORPUS_C18)
    cp = os.path.join(CORPUS, "C18.txt")
    if os.path.exists(cp):
        for l in open(cp):
            l = l.rstrip("\n")
            if l and not l.startswith("#"):
                ty, h = l.split(" ", 1)
                out.append((ty, bytes.fromhex(h).decode("utf-8")))
    return out


def bad_verdict(a):
    return a == "panic" or a == "timeout" or a.startswith("abort") or a == "missing"


def run(tier, seed, replay=None):
    ck = Check("C18", tier, seed)
    rng = random.Random(seed)
    pr = check_proofs("C18")
    for t in pr["theorems"]:
        ck.oblige("theorem " + t, pr["ok"], pr["failed"] or "")
    if not pr["theorems"]:
        ck.oblige("Properties/C18.v", False, pr["failed"] or "")
    ck.assumptions = ["Print Assumptions: " + (", ".join(pr["assumptions"]) or "Closed under the global context")]
    ck.extra["trusted_base"] = TRUSTED_BASE + tg.TRUSTED_BASE_TEXT
    tg.build_modelrun_text()
    try:
        from . import jsn as _jsn
        _jsn.build_modelrun_json()
    except Exception:
        pass
    build_harness("debug")
    profiles = ["debug"]
    if tier == "thorough":
        build_harness("release")
        profiles.append("release")

    text_cases, json_cases, sweeps = [], [], []
    deep_cases, deep_json = [], []
    dist = dict(corpus=0, valid=0, random_mutants=0, exhaustive_mutants=0, json_valid=0, json_mutants=0)
    if replay:
        r = json.load(open(replay))
        if "text_hex" in r:
            r["text"] = bytes.fromhex(r["text_hex"]).decode("utf-8")
        if r.get("kind") == "json":
            json_cases = [(r["type"], r["text"])]
        elif "type" in r and "text" in r:
            text_cases = [(r["type"], r["text"])]
    else:
        corpus = load_corpus()
        text_cases += corpus
        dist["corpus"] = len(corpus)
        sd = seeds(tier, rng)
        printed = tg.run_side("impl", ["PRINT %s %s" % c for c in sd])
        valid = [(ty, tg.unhex(a[2:])) for (ty, _), a in zip(sd, printed) if a.startswith("t ")]
        ck.oblige("every seed value was printed", len(valid) == len(sd), "%d of %d" % (len(valid), len(sd)))
        text_cases += valid
        dist["valid"] = len(valid)
        nmut = dict(quick=60, thorough=120)[tier]
        for ty, s in valid + corpus:
            for _ in range(nmut):
                m = s
                for _ in range(rng.choice([1, 1, 1, 2, 3])):
                    m = tg.mutate(rng, m)
                text_cases.append((ty, m))
                dist["random_mutants"] += 1
            # the same text offered to another entry point
            text_cases.append((rng.choice(tg.TYPES), s))
        sh_ = short_seeds()
        pshort = tg.run_side("impl", ["PRINT %s %s" % c for c in sh_])
        shorts = [(ty, tg.unhex(a[2:])) for (ty, _), a in zip(sh_, pshort) if a.startswith("t ")]
        if tier == "quick":
            # every position, one character of each encoded length (2, 3, 4 bytes)
            shorts_x = shorts
            chars = tg.MULTI3
        else:
            shorts_x = shorts
            chars = tg.MULTI + [";", "=", "[", "]", ",", ":", "+", "-"]
        for ty, s in shorts_x:
            ms = tg.exhaustive_mutants(s, chars)
            text_cases += [(ty, m) for m in ms]
            dist["exhaustive_mutants"] += len(ms)
        # JSON entry points (implementation only)
        jsd = [(ty, v) for (ty, v) in sd + sh_ if ty in tg.JSON_TYPES and ty != "snap"]
        jsd += [("snap", v) for (ty, v) in sd + sh_ if ty == "level"]
        jsd += [("snappkg", v) for (ty, v) in sd + sh_ if ty == "level"]
        if tier == "quick":
            jsd = jsd[::3]
        jp = tg.run_side("impl", ["JSONPRINT %s %s" % c for c in jsd])
        jvalid = [(ty, tg.unhex(a[2:])) for (ty, _), a in zip(jsd, jp) if a.startswith("t ")]
        json_cases += jvalid
        dist["json_valid"] = len(jvalid)
        for ty, s in jvalid:
            for _ in range(dict(quick=6, thorough=40)[tier]):
                m = s
                for _ in range(rng.choice([1, 1, 2])):
                    m = tg.mutate(rng, m)
                json_cases.append((ty, m))
                json_cases.append(("data" if ty == "level" else ty, m))
                dist["json_mutants"] += 2
            for m in tg.json_struct_mutants(s, rng, dict(quick=25, thorough=200)[tier]):
                json_cases.append((ty, m))
                dist["json_struct_mutants"] = dist.get("json_struct_mutants", 0) + 1
        # every integer of a few valid JSON encodings replaced by every value of a fixed boundary list (systematic, not sampled:
        # `"version": 0` must not depend on the luck of a random mutant)
        try:
            from . import jsn as _j
            NUMS = [0, 1, 2, -1, (1 << 31), (1 << 32) - 1, 1 << 32, (1 << 32) + 1, (1 << 63), (1 << 64) - 1, 1 << 64]
            seen_ty = {}
            for ty, s in jvalid:
                if seen_ty.get(ty, 0) >= 2 or len(s) > 3000:
                    continue
                seen_ty[ty] = seen_ty.get(ty, 0) + 1
                ast = _j.parse_text(s)
                for pth in _j.paths(ast):
                    v = _j.get(ast, pth)
                    if isinstance(v, int) and not isinstance(v, bool):
                        for nv in NUMS:
                            if nv != v:
                                json_cases.append((ty, _j.dump(_j.put(ast, pth, nv))))
                                dist["json_number_grid"] = dist.get("json_number_grid", 0) + 1
        except Exception as e:
            dist["json_number_grid"] = "unavailable: %s" % e
        # snapshot packages that are SEALED (checksum recomputed) but altered or self-inconsistent: only these get past the
        # checksum and reach the code behind it
        try:
            from . import c09, jsn
            jm = jsn.Model()
            for ty, s in [c for c in jvalid if c[0] == "snappkg"][:8]:
                for kk, t in c09.package_mutants(rng, jsn.parse_text(s), jm, 60):
                    if kk.startswith("rehash"):
                        json_cases.append(("snappkg", t))
                        dist["sealed_package_mutants"] = dist.get("sealed_package_mutants", 0) + 1
            jm.close()
        except Exception as e:      # the JSON model is C09/C17's; C18 only borrows its mutant generator
            dist["sealed_package_mutants"] = "unavailable: %s" % e
        sweeps = SWEEPS_QUICK if tier == "quick" else SWEEPS_ALL
        # deep nesting (implementation only, judged only): thousands to a million unbalanced openers after every
        # structural opener of a valid encoding - a recursive scanner overflows the stack (abort, not a panic)
        for ty, s in shorts + [c for c in valid if c[0] in ("level", "queue", "txlist", "mr")][:6]:
            if not any(ch in s for ch in "[("):
                continue
            pos = [i + 1 for i, ch in enumerate(s) if ch in "[("][:4]
            for K in ((3000, 300000) if tier == "quick" else (3000, 60000, 300000, 1000000)):
                for op in "[(":
                    for i in ([pos[0], rng.choice(pos)] if K > 3000 else [rng.choice(pos + [0])]):
                        deep_cases.append((ty, s[:i] + op * K + s[i:]))
        for ty, s in jvalid[:4]:
            for op in ("[", "{\"a\":"):
                i = max(s.find("["), s.find("{")) + 1
                deep_json.append((ty, s[:i] + op * 200000 + s[i:]))

    # distinct
    text_cases = list(dict.fromkeys(text_cases))
    json_cases = list(dict.fromkeys(json_cases))
    dist["deep_nesting"] = len(deep_cases) + len(deep_json)
    ck.extra["input_distribution"] = dist

    corr_bad, judge_bad = [], []
    verdicts = dict(ok=0, err=0, panic=0, other=0)
    evals = 0
    for prof in profiles:
        cmds = ["PARSE %s %s" % (ty, tg.hexs(s)) for ty, s in text_cases]
        ia, ma = tg.run_both(cmds, prof)
        for (ty, s), a, m in zip(text_cases, ia, ma):
            evals += 1
            k = a.split(" ")[0]
            verdicts[k if k in verdicts else "other"] += 1
            if bad_verdict(a):
                judge_bad.append(dict(kind="text", type=ty, text=s, text_hex=tg.hexs(s), implementation=a, model=m,
                                      profile=prof, why="from_str did not return Ok or Err"))
            if a != "unrun" and tg.canon(ty, a) != tg.canon(ty, m):
                corr_bad.append(dict(kind="text", type=ty, text=s, text_hex=tg.hexs(s), implementation=a, model=m, profile=prof))
        da = tg.run_side("impl", ["PARSE %s %s" % (ty, tg.hexs(s)) for ty, s in deep_cases], profile=prof)
        for (ty, s), a in zip(deep_cases, da):
            evals += 1
            if bad_verdict(a):
                judge_bad.append(dict(kind="text", type=ty, text=s[:60] + "...(%d characters)" % len(s), text_hex=tg.hexs(s), implementation=a,
                                      profile=prof, why="from_str did not return Ok or Err on a deeply nested input (%d characters)" % len(s)))
        dj = tg.run_side("impl", ["JSON %s %s" % (ty, tg.hexs(s)) for ty, s in deep_json], profile=prof)
        for (ty, s), a in zip(deep_json, dj):
            evals += 1
            if a not in ("ok", "err"):
                judge_bad.append(dict(kind="json", type=ty, text=s[:60] + "...(%d characters)" % len(s), text_hex=tg.hexs(s), implementation=a,
                                      profile=prof, why="serde_json::from_str did not return Ok or Err on a deeply nested input"))
        jc = ["JSON %s %s" % (ty, tg.hexs(s)) for ty, s in json_cases]
        ja = tg.run_side("impl", jc, profile=prof)
        for (ty, s), a in zip(json_cases, ja):
            evals += 1
            if a not in ("ok", "err"):
                judge_bad.append(dict(kind="json", type=ty, text=s, text_hex=tg.hexs(s), implementation=a, profile=prof,
                                      why="serde_json::from_str did not return Ok or Err"))
    # to_uppercase: every Unicode scalar value at a keyword position
    sweep_bad = []
    if sweeps:
        cmds = ["SWEEP %s %s %s" % (ty, tg.hexs(a), tg.hexs(b)) for ty, a, b in sweeps]
        ia, ma = tg.run_both(cmds, profiles[0])
        for (ty, a, b), x, y in zip(sweeps, ia, ma):
            evals += 0x10F800
            if "panic" in x or not x.startswith("sweep"):
                judge_bad.append(dict(kind="sweep", type=ty, prefix=a, suffix=b, implementation=x[:300],
                                      why="a from_str call panicked during the Unicode sweep"))
            if x != y:
                sweep_bad.append(dict(kind="sweep", type=ty, prefix=a, suffix=b, implementation=x[:400], model=y[:400]))
        ck.extra["unicode_sweeps"] = ["%s: %s?%s -> %s" % (ty, a, b, x[6:80]) for (ty, a, b), x in zip(sweeps, ia)]

    if tier == "thorough" and not replay:
        tg.vm_compute_crosscheck(ck, rng.sample(text_cases, min(500, len(text_cases))), COQ)

    ck.cov["evaluations"] = evals
    ck.cov["distinct_nontrivial"] = len(text_cases) + len(json_cases)
    ck.cov["rule"] = ("(entry point, string) pairs: corpus + valid encodings of generated values + random character-level mutants "
                      "(deletion, insertion, substitution with ASCII delimiters and 2/3/4-byte characters, segment and field "
                      "duplication, truncation, case/digit change, huge numbers, 1-3 edits) + every-position deletion / truncation "
                      "/ insertion / substitution on short encodings of every type + JSON mutants (implementation only) + "
                      "all-Unicode sweeps of Side / TimeInForce keyword positions; distinct by (type, string)")
    ck.cov["samples"] = ["%s %r" % text_cases[i] for i in (0, len(text_cases) // 2, len(text_cases) - 1)] if text_cases else []
    ck.cov["exhaustive"] = False
    ck.cov["traces_validated_against_impl"] = len(text_cases) * len(profiles)
    ck.extra["implementation_verdicts"] = verdicts
    ck.oblige("correspondence: Ok(value)/Err/Panic of the library = outcome of the model on every string", not corr_bad,
              "%d disagreements" % len(corr_bad))
    ck.oblige("correspondence: str::to_uppercase as modelled, over all Unicode scalar values at %d keyword positions" % len(sweeps),
              not sweep_bad, "%d disagreements" % len(sweep_bad))
    ck.oblige("judge: no FromStr / JSON entry point of the implementation panicked, aborted or timed out", not judge_bad,
              "%d failures" % len(judge_bad))

    if judge_bad:
        judge_bad.sort(key=lambda d: (len(d.get("text", "")), d["type"]))
        d = dict(judge_bad[0])
        d.update(failures=len(judge_bad), replay_cmd="./check C18 --replay <this file>")
        ck.violation("fail", d)
    elif corr_bad or sweep_bad or not pr["ok"]:
        first = (corr_bad or sweep_bad or [None])[0]
        what = "correspondence parse outcome" if corr_bad else "correspondence to_uppercase" if sweep_bad else pr["failed"]
        ck.violation("unproved", dict(kind="text", broken=what,
                                      theorem=(None if pr["ok"] else "Properties/C18.v: " + str(pr["failed"])),
                                      first_disagreement=first, disagreements=len(corr_bad) + len(sweep_bad),
                                      log=pr["log"][-1500:]),
                     note="no-failing-input-found")
    if not ck.violations and any(not ok for (_, ok, _) in ck.obligations):
        failed = [n for (n, ok, _) in ck.obligations if not ok]
        ck.violation("unproved", dict(kind="obligation", broken=failed[0], failed_obligations=failed),
                     note="no-failing-input-found")
    return ck.finish("cd /verif/coq && make Properties/C18.vo  (+ ./check C18 for the correspondence)")
