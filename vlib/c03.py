"""C03 — quantity is conserved when threads add, match, cancel and amend concurrently."""
from . import conc
from .concprop import *


def stress_part(ck):
    """Thorough tier only: the same programs with REAL threads (release build, no scheduler) as a search for
    failures outside sequentially consistent interleavings.  Search, not proof."""
    if ck.tier != "thorough":
        return
    import random, subprocess
    build_harness("release")
    rng = random.Random(ck.seed + 3)
    lines = []
    for i in range(300):
        g = conc.ProgGen(rng, reads=False, nexts=False)
        setup, threads = g.program()
        lines.append("z%d|%d|%s|%s|%d" % (i, g.price, ";".join(setup), "#".join(";".join(t) for t in threads), 300))
    p = subprocess.run([harness_bin("release"), "stress"], input="\n".join(lines) + "\n", text=True, stdout=subprocess.PIPE, timeout=3000)
    res = [l[2:].split(" ", 1) for l in p.stdout.splitlines() if l.startswith("Z ")]
    bad = [(i, r) for i, r in res if r != "ok"]
    ck.extra["real_thread_trials"] = 300 * len(res)
    ck.oblige("search (real threads, release build, no scheduler): aggregates = sums at quiescence and after a drain", not bad and len(res) == len(lines),
              "%d programs fail, %d of %d ran" % (len(bad), len(res), len(lines)))
    if bad:
        pid, why = bad[0]
        line = [l for l in lines if l.startswith(pid + "|")][0]
        ck.violation("stress", dict(kind="real-thread-stress", program=line, why=why,
                                    note="not deterministic: re-run `harness stress` with this line"))


# ---------------------------------------------------------------- extracted Coq judges on scheduled runs
# The judges of the concurrent properties defined in Coq (Spec/ConcJudges.v, Spec/Judges.v), proved equivalent to the
# Props of the theorems and bridged from them (Proofs/ConcJudgeProofs.v, statements pinned in Properties/Tie.v), are
# extracted into modelrun and asked through `JUDGE <kind> ...`, one statement per run and kind.  A run fails if EITHER the
# python judge or the Coq judge rejects it; besides, a python restatement of exactly the statement handed to Coq is
# evaluated and the obligation "python judge = Coq judge" demands the same verdict on every statement.
# (Shared by c03.py, c08.py and c12.py.)

class CoqJudges:
    """A modelrun co-process answering JUDGE queries one at a time, plus the tally of verdicts."""

    def __init__(self, what):
        self.what = what          # kind -> description of the statement (for the obligations' text)
        self.proc = None
        self.tally = {k: dict(statements=0, rejected_by_coq=0, rejected_by_python=0, unreadable=0, differ=0) for k in what}
        self.first_diff = None
        self.first_reject = {}

    def _ask(self, q):
        import subprocess
        if self.proc is None or self.proc.poll() is not None:
            self.proc = subprocess.Popen([MODELRUN], stdin=subprocess.PIPE, stdout=subprocess.PIPE, text=True, bufsize=1)
        self.proc.stdin.write("JUDGE " + q + "\n")
        self.proc.stdin.flush()
        return self.proc.stdout.readline().rstrip("\n")

    def close(self):
        if self.proc is not None:
            try:
                self.proc.stdin.close()
                self.proc.wait(timeout=10)
            except Exception:
                self.proc.kill()
            self.proc = None

    def judge(self, kind, query, py, rec, prog):
        """-> True / False (verdict of the extracted judge) or None (the co-process could not read the statement);
        [py] is the verdict of the python restatement on the same statement."""
        a = self._ask(query)
        t = self.tally[kind]
        t["statements"] += 1
        if not py:
            t["rejected_by_python"] += 1
        if a not in ("= 1", "= 0"):
            t["unreadable"] += 1
            self.first_reject.setdefault(kind, (self._line(rec, prog), rec.get("K"), "unreadable: %s on JUDGE %s" % (a[:200], query[:300])))
            return None
        v = (a == "= 1")
        if not v:
            t["rejected_by_coq"] += 1
            self.first_reject.setdefault(kind, (self._line(rec, prog), rec.get("K"), "JUDGE " + query[:400]))
        if v != bool(py):
            t["differ"] += 1
            if self.first_diff is None:
                self.first_diff = (kind, self._line(rec, prog), rec.get("K"), bool(py), v, query[:600])
        return v

    @staticmethod
    def _line(rec, prog):
        return conc.prog_line(prog["id"], prog["price"], prog["setup"], prog["threads"], rec.get("K") or prog["sched"], prog["flags"])

    def obligations(self, ck):
        """the extra obligations of a check that consults the extracted judges (call from extra_obligations)"""
        self.close()
        ck.extra["coq_judge"] = {k: dict(v) for k, v in self.tally.items()}
        for k, t in self.tally.items():
            ck.oblige("extracted Coq judge `JUDGE %s` (%s): accepts each of %d statements taken from implementation runs" % (k, self.what[k], t["statements"]),
                      t["rejected_by_coq"] == 0 and t["unreadable"] == 0 and t["statements"] > 0,
                      "%d rejected, %d unreadable" % (t["rejected_by_coq"], t["unreadable"]))
            ck.oblige("python judge = Coq judge (%s): same verdict on each of %d judged statements" % (self.what[k], t["statements"]),
                      t["differ"] == 0, "%d differ" % t["differ"])
        if self.first_diff:
            kind, line, k, py, v, q = self.first_diff
            ck.violation("judge_disagree", dict(kind="conc-program", program=line, schedule=k,
                                                why="python judge says %s, extracted Coq judge says %s on: JUDGE %s" % (py, v, q)))


CJ = CoqJudges({"agg": "Agg at quiescence: aggregates = sums over the listed orders, agg_b"})


def judge_quiescent_agg(rec, prog, info):
    """conc.judge_quiescent_agg AND the extracted agg_b (Tie_judge_agg, Tie_judge_quiescent_agg_sound) on the same
    final state: the three aggregates read at quiescence against the listing read at quiescence."""
    py = conc.judge_quiescent_agg(rec)
    if rec["Q"] is None or rec["Q"] == "aborted":
        return py
    d = kv(rec["Q"])
    v = CJ.judge("agg", "agg %s %s %s %s" % (d["cv"], d["ch"], d["cc"], d["vec"]), state_agg_stmt_ok(d), rec, prog)
    if py:
        return py
    if v is None:
        return "the extracted judge agg_b could not read the final state %s" % rec["Q"][:200]
    if not v:
        return "extracted judge agg_b rejects the final state: aggregates (%s,%s,%s) are not the sums over the listing %s" % (
            d["cv"], d["ch"], d["cc"], d["vec"][:300])
    return None


def state_agg_stmt_ok(d):
    """python restatement of agg_b (Spec/Judges.v) on a state line"""
    vec = gen.parse_list(d["vec"])
    return (int(d["cv"]), int(d["ch"]), int(d["cc"])) == (sum(gen.parse_order(o)["vis"] for o in vec),
                                                          sum(gen.parse_order(o)["hid"] for o in vec), len(vec))


def extra(ck):
    CJ.obligations(ck)
    stress_part(ck)


def distinct_ts(setup, threads):
    """Re-stamps the orders a program adds with pairwise distinct timestamps (same range, same order of appearance).
    The listing a snapshot returns is compared with the model's as a raw string (concprop.model_agrees), and the order of
    EQUAL timestamps in iter_orders() is DashMap's (random hasher: an oracle), so the snapshot programs avoid ties."""
    adds = [op for ops in [setup] + threads for op in ops if op.startswith("ADD ")]
    if not adds:
        return setup, threads
    base = min(int(adds[0].split(":")[4]), (1 << 64) - 1 - len(adds))
    n = [0]

    def stamp(op):
        if not op.startswith("ADD "):
            return op
        f = op.split(":")
        f[4] = str(base + n[0])
        n[0] += 1
        return ":".join(f)
    return [stamp(op) for op in setup], [[stamp(op) for op in ops] for ops in threads]


def extra_lines(rng, tier, snap_flags="drain,mode=O"):
    """Programs built around one order: a matcher and an amender / canceller (sometimes two) meet on an Iceberg, Reserve or
    Standard maker, so that the windows between a lookup and the removal, and between a removal and the re-insertion,
    are hit in every run rather than by luck.  [snap_flags]: the flags of the snapshot-reader programs (see below)."""
    from . import gen
    out = []
    for i in range(300 if tier == "quick" else 6000):
        kind = rng.choice(["I", "I", "R", "R", "S"])
        q = rng.choice([3, 6, 10, 20])
        h = rng.choice([0, 4, 9, 30]) if kind != "S" else 0
        o = gen.order(kind, oid="u1", price=100, side="S", ts=5, tif="GTC", vis=q, hid=h, thr=rng.choice([0, 1, 5]),
                      amt=rng.choice([None, 0, 2, 10]), auto=rng.random() < 0.8)
        setup = ["ADD " + o]
        if rng.random() < 0.4:
            setup.append("ADD " + gen.order("S", oid="l2", price=100, side="S", ts=6, tif="GTC", vis=rng.choice([1, 5])))
        m = rng.choice([1, 2, q - 1, q, q + 1, q + h, 100])
        upd = lambda: rng.choice(["UPD UQ:u1:%d" % rng.choice([0, 1, 2, q - 1, q, q + 5, 40]), "UPD C:u1",
                                  "UPD RP:u1:100:%d:S" % rng.choice([1, q + 3]), "UPD UPQ:u1:100:%d" % rng.choice([2, q + 1])])
        threads = ["MATCH %d u9000" % m, upd()]
        x = rng.random()
        if x < 0.3:
            threads.append(upd())
        elif x < 0.5:
            threads.append("MATCH %d u9001" % rng.choice([1, 3, q]))
        elif x < 0.6:
            threads[1] += ";" + upd()
        out.append("w%d|100|%s|%s|%s%d|drain,mode=O" % (i, ";".join(setup), "#".join(threads), rng.choice("rp"), rng.randint(1, 10 ** 9)))
    # readers that take a SNAPSHOT (three counter loads + an iteration) while writers are at work: the four-step call
    # CSnapshot of Model/Conc.v (Properties/C03.v: C03_snapshot_is_pure, C03_snapshot_quiescent_exact,
    # C03_snapshot_bounded).  C03 runs them with flags "drain,mode=O" (see run below): their traces go through `accept`
    # like all others and the returned snap:<vis>/<hid>/<cnt>/<listing> is compared with the model's.  The checks that
    # REUSE these lines (c08.py under the projection proj=map+tk, c12.py) still get them flagged `nomodel` = judged only:
    # under a projection that does not compare the counter steps, the three counters a snapshot returns are not
    # determined by the compared events, and concprop.model_agrees compares a `snap:` return as a raw string.
    for i in range(200 if tier == "quick" else 4000):
        g = conc.ProgGen(rng, n_threads=rng.choice([2, 3]), reads=False, nexts=False)
        setup, threads = g.program()
        threads[-1] = ["SNAP"] * rng.choice([1, 1, 2])
        setup, threads = distinct_ts(setup, threads)
        out.append(conc.prog_line("s%d" % i, g.price, setup, threads, "%s%d" % (rng.choice("rp"), rng.randint(1, 10 ** 9)), snap_flags))
    return out


def run(tier, seed, replay=None):
    return run_conc_property(
        "C03", tier, seed, replay,
        # the snapshot-reader programs through the model too (CSnapshot): no `nomodel` here
        extra_lines=lambda rng, tier: extra_lines(rng, tier, snap_flags="drain,mode=O"),
        judges=[("aggregates at quiescence", judge_quiescent_agg),
                ("per-order conservation", conc.judge_ledger)],
        n_quick=2500, n_thorough=60000, extra_obligations=extra)
