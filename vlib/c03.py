"""C03 — quantity is conserved when threads add, match, cancel and amend concurrently."""
from . import conc
from .concprop import *


def run(tier, seed, replay=None):
    return run_conc_property(
        "C03", tier, seed, replay,
        judges=[("aggregates at quiescence", lambda rec, prog, info: conc.judge_quiescent_agg(rec)),
                ("per-order conservation", conc.judge_ledger)],
        n_quick=2500, n_thorough=60000)
