"""C03 — quantity is conserved when threads add, match, cancel and amend concurrently."""
from . import conc
from .concprop import *


def stress_part(ck):
    """Thorough tier only: the same programs with REAL threads (release build, no scheduler) as a search for
    failures outside sequentially consistent interleavings.  Search, not proof."""
    if ck.tier != "thorough":
        return
    import random, subprocess
    build_harness("release")
    rng = random.Random(ck.seed + 3)
    lines = []
    for i in range(300):
        g = conc.ProgGen(rng, reads=False, nexts=False)
        setup, threads = g.program()
        lines.append("z%d|%d|%s|%s|%d" % (i, g.price, ";".join(setup), "#".join(";".join(t) for t in threads), 300))
    p = subprocess.run([harness_bin("release"), "stress"], input="\n".join(lines) + "\n", text=True, stdout=subprocess.PIPE, timeout=3000)
    res = [l[2:].split(" ", 1) for l in p.stdout.splitlines() if l.startswith("Z ")]
    bad = [(i, r) for i, r in res if r != "ok"]
    ck.extra["real_thread_trials"] = 300 * len(res)
    ck.oblige("search (real threads, release build, no scheduler): aggregates = sums at quiescence and after a drain", not bad and len(res) == len(lines),
              "%d programs fail, %d of %d ran" % (len(bad), len(res), len(lines)))
    if bad:
        pid, why = bad[0]
        line = [l for l in lines if l.startswith(pid + "|")][0]
        ck.violation("stress", dict(kind="real-thread-stress", program=line, why=why,
                                    note="not deterministic: re-run `harness stress` with this line"))


def run(tier, seed, replay=None):
    return run_conc_property(
        "C03", tier, seed, replay,
        judges=[("aggregates at quiescence", lambda rec, prog, info: conc.judge_quiescent_agg(rec)),
                ("per-order conservation", conc.judge_ledger)],
        n_quick=2500, n_thorough=60000, extra_obligations=stress_part)
