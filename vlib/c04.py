"""C04 — resting orders trade in arrival order (time priority).
Judge = the ideal priority level of Spec/Priority.v (extracted), run beside the concrete
model and driven by the same per-order answers; the implementation's transactions must equal
the ideal's.  Divergences after a recorded K1/K2 event are the known findings."""
from . import gen, lvl, kfree
from .lvlprop import *


def tx_core(txs):
    return [t.split("/")[2:5] for t in gen.parse_list(txs)]      # maker, price, qty


def judge(rec, price, ops):
    for o in rec["ops"]:
        if not o["op"].startswith("MATCH"):
            continue
        I, M = o["I"], o["M"]
        if I in ("panic", "timeout"):
            return [(o["i"], "implementation " + I)]
        if I == "skipped" or M in (None, "skipped") or "ideal=" not in M:
            continue
        di = lvl.kv(I.split(" || ")[0])
        dm = lvl.kv(M.split(" || ")[0])
        ideal = lvl.kv(dm["ideal"].replace(";", " "))
        if ideal.get("nofuel"):
            continue
        if tx_core(di["txs"]) != tx_core(ideal["txs"]):      # makers, in sequence, with their quantities
            return [(o["i"], "match trades %s, time priority demands %s (taint=%s pre=%s)" % (
                di["txs"], ideal["txs"], dm.get("taint"), dm.get("pre")))]
    return []


def classify(rec, price, ops, i, text):
    """A divergence from the ideal is attributed to a known finding only if the faithful model of the
    code shows the SAME divergence at that match (same transactions as the implementation); the label
    is the first K-event the model recorded.  Anything else is a new violation."""
    for o in rec["ops"]:
        if o["i"] == i and o["M"] and "ideal=" in o["M"] and o["I"] not in ("panic", "timeout", "skipped"):
            dm = lvl.kv(o["M"].split(" || ")[0])
            di = lvl.kv(o["I"].split(" || ")[0])
            if "txs" not in di or "txs" not in dm:
                return None
            if tx_core(di["txs"]) == tx_core(dm["txs"]):
                first = dm.get("taint", "-").split(",")[0]
                if first == "-":
                    first = "K1"
                return "%s time priority lost after a %s event (reproduced by the model of the code)" % (first, first)
    return None


def corr_filter(text):
    return any(k in text for k in ("transaction", "filled", " rem ", "panic", "model=", " out "))


def make_cases(rng, tier):
    n = 1200 if tier == "quick" else 30000
    cs = []
    for i in range(n // 2):            # K-free half: any divergence here is a new violation
        g = kfree.KFree(rng)
        cs.append((g.price, g.history(rng.randint(5, 30)) + ["MATCH 18446744073709551615 u7999"]))
    for i in range(max(15, n // 80)):  # long K-free histories (thresholds inside the queue code)
        g = kfree.KFree(rng)
        cs.append((g.price, g.history(rng.randint(150, 400)) + ["MATCH 18446744073709551615 u7999"]))
    for i in range(n // 6):            # small books with many amendments / cancels (dead queue entries pile up)
        g = kfree.KFree(rng, w_add=0.08, w_match=0.12, w_cancel=rng.choice([0.05, 0.3]))
        cs.append((g.price, g.history(rng.randint(15, 80)) + ["MATCH 18446744073709551615 u7999"]))
    for i in range(n // 2):            # unrestricted half (re-adds, partial fills, replenishment, amendments)
        g = lvl.HistGen(rng, rebuilds=False, reads=False)
        cs.append((g.price, g.history(rng.randint(5, 30)) + ["MATCH 18446744073709551615 u7999"]))
    cs += deep_histories(rng, 8 if tier == "quick" else 300)
    return cs


def run(tier, seed, replay=None):
    return run_property("C04", tier, seed, replay, make_cases=make_cases, judge=judge, corr_filter=corr_filter,
                        classify=classify, nontrivial=nontrivial_default)
