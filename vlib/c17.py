"""C17 — JSON encodings round-trip for every value.

proofs:  Properties/C17.v (of_json (to_json v) = Some v per serde type, text-level left
         inverse, package still validates).
tie:     (i)  serde_json::to_string(v) bytes = print_json (to_json v) for generated values of
              every serde type,
         (ii) deserialisation answers (value or error) of model and implementation on the
              implementation's own texts, on re-spaced texts and on AST-level mutants
              (aliases, missing / duplicate / unknown fields, seq form, edited numbers and tags ...),
         (ii-b) the same on NON-CANONICAL and NEAR-MISS ID SPELLINGS inside the JSON (jsn.id_spellings): upper / mixed-case
              hex, simple / braced / urn uuids, lower / mixed-case ulids, ulids whose first character exceeds '7' (130 bits:
              the two top bits are dropped, so 'F...' spells the same id as '7...'), wrong length, bad character, misplaced
              hyphen, brace and urn-prefix faults — as order ids, taker / maker / filled ids and (Uuid only) transaction ids;
              a python oracle of the two crates' formats classifies each spelling (same id / other id / error) and model and
              implementation must both agree with it,
         (iii) a package built by the implementation still validates after the trip.
judge (applied to the IMPLEMENTATION, independent of the model): from_str(to_string(v)) == v for
         every generated value of every type (level: same price / listing, aggregates = sums),
         and validate() = Ok on the re-read package."""
import json as pyjson
import random

from . import gen
from . import jsn
from .common import *
from .jsn import hx, unhx

TYPES = ["side", "tif", "peg", "oid", "uuid", "order", "update", "tx", "txlist", "result", "data", "snapshot",
         "package", "stats"]


def expected_level(price, orders):
    """Canonical content of PriceLevel::new(price) + add_order(o)... for unique ids."""
    ds = [gen.parse_order(o) for o in orders]
    vis = sum(d["vis"] for d in ds) % W
    hid = sum(d["hid"] for d in ds) % W
    srt = sorted(orders, key=lambda o: (gen.parse_order(o)["ts"], gen.parse_order(o)["id"]))
    return "%d;%d;%d;%d;[%s]" % (price, vis, hid, len(orders), ",".join(srt))


def mask_stats(ans, text):
    """first_arrival_time defaults to the wall clock when absent: not compared."""
    if ans.startswith("ok ") and '"first_arrival_time"' not in text:
        p = ans[3:].split("/")
        if len(p) == 8:
            p[6] = "*"
            return "ok " + "/".join(p)
    return ans


def vm_crosscheck(ck, model, orders):
    """The extracted printer/decoder vs vm_compute inside Coq on a sample of orders."""
    def n(v): return "%d%%N" % v

    def coq_order(s):
        d = gen.parse_order(s)
        oid = ("Uuid " if d["id"][0] == "u" else "Ulid ") + n(int(d["id"][1:]))
        tif = d["tif"]
        tifc = {"GTC": "Gtc", "IOC": "Ioc", "FOK": "Fok", "DAY": "Day"}.get(tif) or "(Gtd %s)" % n(int(tif[3:]))
        c = "(mkCommon (%s) %s %s %s %s)" % (oid, n(d["price"]), "Buy" if d["side"] == "B" else "Sell", n(d["ts"]), tifc)
        k = d["kind"]
        if k == "S": return "(Standard %s %s)" % (c, n(d["vis"]))
        if k == "P": return "(PostOnly %s %s)" % (c, n(d["vis"]))
        if k == "M": return "(MarketToLimit %s %s)" % (c, n(d["vis"]))
        if k == "I": return "(Iceberg %s %s %s)" % (c, n(d["vis"]), n(d["hid"]))
        if k == "T": return "(TrailingStop %s %s %s %s)" % (c, n(d["vis"]), n(int(d["params"][0])), n(int(d["params"][1])))
        if k == "G":
            peg = {"BB": "BestBid", "BA": "BestAsk", "MP": "MidPrice", "LT": "LastTrade"}[d["params"][1]]
            return "(Pegged %s %s (%s)%%Z %s)" % (c, n(d["vis"]), d["params"][0], peg)
        thr, amt, au = d["params"]
        return "(Reserve %s %s %s %s %s %s)" % (c, n(d["vis"]), n(d["hid"]), n(int(thr)),
                                                 "None" if amt == "-" else "(Some %s)" % n(int(amt)),
                                                 "true" if au == "1" else "false")
    path = os.path.join(COQ, "cases_c17.v")
    with open(path, "w") as f:
        f.write("From Coq Require Import Ascii String.\nFrom PL Require Import Model.Json.\nOpen Scope N_scope.\n")
        for o in orders:
            f.write("Eval vm_compute in (string_of_list_ascii (text_of_order %s), "
                    "match order_of_text (text_of_order %s) with Some _ => true | None => false end).\n"
                    % (coq_order(o), coq_order(o)))
    rc, out = sh("timeout 600 coqc -noglob -Q . PL cases_c17.v", cwd=COQ)
    for ext in (".v", ".vo", ".vok", ".vos", ".glob"):
        try: os.remove(os.path.join(COQ, "cases_c17" + ext))
        except OSError: pass
    if rc != 0:
        ck.oblige("extraction cross-check (vm_compute) runs", False, out[-500:])
        return
    flat = " ".join(out.split())
    got = re.findall(r'= \("((?:[^"]|"")*)"%string, (true|false)\)', flat)
    bad = 0
    for o, g in zip(orders, got):
        m = model.ask("TOJSON order " + o)
        text = g[0].replace('""', '"')
        if m != "ok " + hx(text) or g[1] != "true":
            bad += 1
    ck.oblige("extracted model = vm_compute inside Coq on %d sampled orders" % len(orders),
              bad == 0 and len(got) == len(orders), "%d differ, %d parsed" % (bad, len(got)))


def run(tier, seed, replay=None):
    ck = Check("C17", tier, seed)
    rng = random.Random(seed)
    pr = check_proofs("C17")
    for t in pr["theorems"]:
        ck.oblige("theorem " + t, pr["ok"], pr["failed"] or "")
    if not pr["theorems"]:
        ck.oblige("Properties/C17.v", False, pr["failed"] or "")
    ck.assumptions = ["Print Assumptions: " + (", ".join(pr["assumptions"]) or "Closed under the global context")]
    jsn.build_modelrun_json()
    build_harness("debug")
    profiles = ["debug"]
    if tier == "thorough":
        build_harness("release")
        profiles.append("release")
    quick = tier == "quick"
    n_val = 400 if quick else 5000          # values per type
    n_mut = 12 if quick else 40             # mutants per value (first values of each type)
    n_mut_vals = 100 if quick else 800

    model = jsn.Model()
    enc_bad, dec_bad, judge_bad = [], [], []
    evals = 0
    kinds_seen = {}
    verdicts = dict(both_ok=0, both_err=0)
    spell_bad, spell_seen, spell_cls = [], {}, {}
    samples = []

    if replay:
        r = pyjson.load(open(replay))
        cases = {r["type"]: [r["value"]]} if "value" in r else {}
        texts = [(r["type"], unhx(r["text_hex"]).decode())] if "text_hex" in r else []
    else:
        cases = {}
        for ty in TYPES:
            g = jsn.GENERATORS[ty]
            cases[ty] = [g(rng) for _ in range(n_val if ty not in ("side", "peg") else 8)]
        # corpus: boundary values named in the property
        cases["order"] += [
            "R:l340282366920938463463374607431768211455:18446744073709551615:B:9007199254740993:GTD18446744073709551615:18446744073709551615:0:9007199254740993:-:1",
            "G:u0:1:S:0:DAY:2:-9223372036854775808:LT", "G:u0:1:S:0:GTD0:2:9223372036854775807:BB",
            "S:u1:9007199254740993:B:9007199254740993:GTD9007199254740993:9007199254740993"]
        cases["tif"] += ["GTD0", "GTD9007199254740993", "GTD18446744073709551615"]
        texts = []

    for prof in profiles:
        impl = jsn.Impl(prof)
        if replay and "made_in_between" in r:
            mb = r["made_in_between"]
            impl.ask("PKGNEW %d [%s]" % (mb["price"], ",".join(mb["orders"])))
            v0 = impl.ask("RESTORE " + r["text_hex"])
            evals += 1
            if not v0.startswith("ok "):
                judge_bad.append(dict(r, answer=v0[:300], profile=prof))
            impl.close()
            continue
        # ---- (i) encodings + judge: from_str(to_string(v)) == v on the implementation
        for ty, vals in cases.items():
            enc_i = impl.ask_many(["TOJSON %s %s" % (ty, v) for v in vals])
            enc_m = model.ask_many(["TOJSON %s %s" % (ty, v) for v in vals])
            evals += len(vals)
            back_cmds, idx = [], []
            for k, (v, a, b) in enumerate(zip(vals, enc_i, enc_m)):
                if a != b:
                    enc_bad.append(dict(type=ty, value=v, implementation=a, model=b, profile=prof))
                if a.startswith("ok "):
                    back_cmds.append("OFJSON %s %s" % (ty, a[3:]))
                    idx.append(k)
                else:
                    judge_bad.append(dict(type=ty, value=v, why="implementation could not serialize: " + a, profile=prof))
            back_i = impl.ask_many(back_cmds)
            back_m = model.ask_many(back_cmds)
            for k, bi, bm in zip(idx, back_i, back_m):
                v = vals[k]
                if bi != bm:
                    dec_bad.append(dict(type=ty, text_hex=enc_i[k][3:], implementation=bi, model=bm, profile=prof,
                                        mutation="none (the library's own text)"))
                if bi != "ok " + v:
                    judge_bad.append(dict(type=ty, value=v, text_hex=enc_i[k][3:], read_back=bi, profile=prof,
                                          why="from_str(to_string(v)) differs from v"))
            # the other ways of handing the same JSON to serde_json (bytes, a reader, a parsed Value) must read it alike
            for via in ("slice", "reader", "value"):
                alt = impl.ask_many(["OFJSONVIA %s %s %s" % (via, ty, enc_i[k][3:]) for k in idx])
                evals += len(idx)
                for k, bi, ba in zip(idx, back_i, alt):
                    # (integers above 2^64 etc. do not occur in the library's own output; Value keeps u64 exactly)
                    if ba != bi:
                        judge_bad.append(dict(type=ty, value=vals[k], text_hex=enc_i[k][3:], read_back=ba, via=via, profile=prof,
                                              why="the JSON the library printed reads back as the value through serde_json::from_str "
                                                  "but not through serde_json::from_%s" % via))
            # the same JSON with characters of its strings written as \uXXXX escapes (legal JSON for the same value;
            # implementation only: the model's JSON layer does not cover escapes)
            import re as _re

            def _esc(t):
                def f(m):
                    body = m.group(1)
                    if not body or "\\" in body:
                        return m.group(0)
                    i = rng.randrange(len(body))
                    return '"%s\\u%04x%s"' % (body[:i], ord(body[i]), body[i + 1:]) if ord(body[i]) < 0x10000 else m.group(0)
                return _re.sub(r'"([^"]*)"', f, t)
            esc_t = [hx(_esc(unhx(enc_i[k][3:]).decode())) for k in idx]
            esc = impl.ask_many(["OFJSON %s %s" % (ty, t) for t in esc_t])
            evals += len(idx)
            for k, bi, be, et in zip(idx, back_i, esc, esc_t):
                if be != bi:
                    judge_bad.append(dict(type=ty, text_hex=et, expected=bi, read_back=be, profile=prof,
                                          why="the library's JSON with a character written as a \\uXXXX escape (the same JSON value) "
                                              "does not read back as the value"))
            if len(samples) < 6 and vals:
                samples.append("%s %s -> %s" % (ty, vals[0], unhx(enc_i[0][3:]).decode() if enc_i[0].startswith("ok ") else enc_i[0]))

        # ---- levels and queues (content compared canonically; distinct timestamps so that the
        # serialized listing is deterministic)
        n_lv = 60 if quick else 600
        for _ in range(0 if replay else n_lv):
            price = jsn.rq(rng)
            orders = jsn.rlevel_orders(rng, rng.choice([0, 1, 2, 3, 5]), price=rng.choice([None, price]))
            v = "%d;[%s]" % (price, ",".join(orders))
            a = impl.ask("TOJSON level " + v)
            b = model.ask("TOJSON level " + v)
            evals += 1
            if a != b:
                enc_bad.append(dict(type="level", value=v, implementation=a, model=b, profile=prof))
            if a.startswith("ok "):
                bi = impl.ask("OFJSON level " + a[3:])
                bm = model.ask("OFJSON level " + a[3:])
                if bi != bm:
                    dec_bad.append(dict(type="level", text_hex=a[3:], implementation=bi, model=bm, profile=prof, mutation="none"))
                if bi != "ok " + expected_level(price, orders):
                    judge_bad.append(dict(type="level", value=v, text_hex=a[3:], read_back=bi, expected=expected_level(price, orders),
                                          profile=prof, why="deserialized level differs in price / aggregates / listing"))
                # queue: the array of the level's orders
                q = jsn.dump(jsn.parse_text(unhx(a[3:]).decode())[4][1])
                qi = impl.ask("OFJSON queue " + hx(q))
                qm = model.ask("OFJSON queue " + hx(q))
                srt = sorted(orders, key=lambda o: (gen.parse_order(o)["ts"], gen.parse_order(o)["id"]))
                if qi != qm:
                    dec_bad.append(dict(type="queue", text_hex=hx(q), implementation=qi, model=qm, profile=prof, mutation="none"))
                if qi != "ok [%s]" % ",".join(srt):
                    judge_bad.append(dict(type="queue", value=v, read_back=qi, profile=prof, why="queue content differs"))
            else:
                judge_bad.append(dict(type="level", value=v, why="implementation could not serialize: " + a, profile=prof))
        for o in ([] if replay else [jsn.rorder(rng) for _ in range(20)]):
            a, b = impl.ask("TOJSON queue [%s]" % o), model.ask("TOJSON queue [%s]" % o)
            evals += 1
            if a != b:
                enc_bad.append(dict(type="queue", value=o, implementation=a, model=b, profile=prof))

        # ---- (iii) a package produced by the implementation validates after the trip
        n_pk = 40 if quick else 300
        earlier = None          # (package value, text) made before the current one: re-read later, after other packages
        twin_of = None
        for _ in range(0 if replay else n_pk):
            if twin_of is not None and twin_of[1] and rng.random() < 0.5:
                # a different level with the SAME price, totals and order count (one order re-stamped / re-identified)
                price, orders = twin_of[0], list(twin_of[1])
                j = rng.randrange(len(orders))
                f = orders[j].split(":")
                if rng.random() < 0.5:
                    f[4] = str((int(f[4]) + 1) % (1 << 64))
                else:
                    f[1] = ("l" if f[1][0] == "u" else "u") + f[1][1:]
                orders[j] = ":".join(f)
            else:
                price = jsn.rq(rng)
                orders = jsn.rlevel_orders(rng, rng.choice([0, 1, 2, 4]))
            twin_of = (price, orders)
            a = impl.ask("PKGNEW %d [%s]" % (price, ",".join(orders)))
            evals += 1
            if not a.startswith("ok "):
                judge_bad.append(dict(type="package", value=orders, why="snapshot_package failed: " + a, profile=prof))
                continue
            pkg, t1, t2, payload = a[3:].split(" ")
            # the package made BEFORE this one is read back only now (other packages were made and validated in between)
            if earlier is not None:
                # (RESTORE = PriceLevel::from_snapshot_json on the text: the path that validates without building any other package)
                v0 = impl.ask("RESTORE " + earlier[1])       # first thing after the other package was made
                back0 = impl.ask("OFJSON package " + earlier[1])
                if v0.startswith("ok "):
                    v0 = impl.ask("PKGEDIT " + back0[3:]) if back0.startswith("ok ") else back0
                evals += 1
                if back0 != "ok " + earlier[0] or not v0.startswith("validate=ok "):
                    judge_bad.append(dict(type="package", text_hex=earlier[1], answer=v0[:300], read_back=back0[:300], profile=prof,
                                          made_in_between=dict(price=price, orders=orders),
                                          why="a package read back after other packages were made no longer validates (or differs)"))
            back = impl.ask("OFJSON package " + t1)
            mback = model.ask("OFJSON package " + t1)
            if back != mback:
                dec_bad.append(dict(type="package", text_hex=t1, implementation=back, model=mback, profile=prof, mutation="none"))
            if back != "ok " + pkg:
                judge_bad.append(dict(type="package", text_hex=t1, read_back=back, expected=pkg, profile=prof,
                                      why="package differs after the JSON trip"))
                continue
            v = impl.ask("PKGEDIT " + back[3:])
            mv = model.ask("PKGEDIT " + back[3:])
            if v != mv:
                dec_bad.append(dict(type="package", value=back[3:], implementation=v, model=mv, profile=prof,
                                    mutation="validate / into_snapshot / from_snapshot_package on the re-read package"))
            if not v.startswith("validate=ok "):
                judge_bad.append(dict(type="package", text_hex=t1, answer=v, profile=prof,
                                      why="the package no longer validates after the JSON trip"))
            earlier = (pkg, t1)

        # ---- (ii) deserialisation verdicts on re-spaced texts and AST mutants
        mut_cases = []
        if replay:
            mut_cases = [(ty, t, "replay") for (ty, t) in texts]
        else:
            for ty in TYPES + ["level", "queue"]:
                src_ty = {"level": "data", "queue": None}.get(ty, ty)
                vals = cases[src_ty][:n_mut_vals] if src_ty else []
                if ty == "queue":
                    vals = [jsn.rlist(rng, jsn.rorder) for _ in range(n_mut_vals // 3)]
                    src_ty = "queue"
                for v in vals:
                    a = impl.ask("TOJSON %s %s" % (src_ty, v))
                    if not a.startswith("ok "):
                        continue
                    ast = jsn.parse_text(unhx(a[3:]).decode())
                    mut_cases.append((ty, jsn.dump(ast, rng, 0.15), "whitespace"))
                    for _ in range(n_mut if ty not in ("side", "peg", "oid", "uuid") else 4):
                        k, m = jsn.mutate(rng, ast)
                        if rng.random() < 0.25:
                            k2, m = jsn.mutate(rng, m)
                            k = k + "+" + k2
                        mut_cases.append((ty, jsn.dump(m, rng, 0.02), k))
        cmds = ["OFJSON %s %s" % (ty, hx(t)) for (ty, t, _) in mut_cases]
        ai = impl.ask_many(cmds)
        am = model.ask_many(cmds)
        evals += len(cmds)
        for (ty, t, k), x, y in zip(mut_cases, ai, am):
            if ty == "stats":
                x, y = mask_stats(x, t), mask_stats(y, t)
            kk = k.split("+")[0].split(":")[0]
            kinds_seen[kk] = kinds_seen.get(kk, 0) + 1
            if x != y:
                dec_bad.append(dict(type=ty, text_hex=hx(t), text=t[:400], implementation=x, model=y, mutation=k, profile=prof))
            elif x.startswith("ok"):
                verdicts["both_ok"] += 1
            else:
                verdicts["both_err"] += 1

        # ---- (ii-b) id spellings: every id text of the library's own JSON, respelled
        sp_cases = []          # (type, text, kind, class, base answer)
        ID_TYPES = ["oid", "uuid", "order", "update", "tx", "txlist", "result", "data", "snapshot", "package", "level", "queue"]
        n_sp_vals = 0 if replay else (40 if quick else 250)
        per_node = 10 if quick else 14
        for ty in ID_TYPES:
            src_ty = {"level": "data", "queue": None}.get(ty, ty)
            if src_ty:
                vals = cases.get(src_ty, [])[:n_sp_vals]
            else:
                vals = [jsn.rlist(rng, jsn.rorder, 3) for _ in range(n_sp_vals // 2)]
                src_ty = "queue"
            for v in vals:
                a = impl.ask("TOJSON %s %s" % (src_ty, v))
                if not a.startswith("ok "):
                    continue
                base = impl.ask("OFJSON %s %s" % (ty, a[3:]))
                ast = jsn.parse_text(unhx(a[3:]).decode())
                nodes = jsn.id_nodes(ast, top=ty)
                if not nodes:
                    continue
                leaf = ty in ("oid", "uuid")
                for (path, want) in (nodes if leaf else rng.sample(nodes, min(2, len(nodes)))):
                    orig = jsn.get(ast, path)
                    sp = jsn.id_spellings(rng, orig)
                    for (kind, t) in (sp if leaf else rng.sample(sp, min(per_node, len(sp)))):
                        sp_cases.append((ty, jsn.dump(jsn.put(ast, path, t)), kind + ("@txid" if want == "uuid" and not leaf else ""),
                                         jsn.classify(orig, t, want), base))
        cmds = ["OFJSON %s %s" % (ty, hx(t)) for (ty, t, _, _, _) in sp_cases]
        ai = impl.ask_many(cmds)
        am = model.ask_many(cmds)
        evals += len(cmds)
        for (ty, t, k, cls, base), x, y in zip(sp_cases, ai, am):
            spell_seen[k] = spell_seen.get(k, 0) + 1
            spell_cls[cls] = spell_cls.get(cls, 0) + 1
            if x != y:
                spell_bad.append(dict(type=ty, text_hex=hx(t), text=t[:400], implementation=x, model=y, mutation="id spelling " + k,
                                      oracle=cls, profile=prof))
            elif (cls == "same" and x != base) or (cls == "reject" and x != "err") or \
                    (cls == "other" and ty in ("oid", "uuid", "order", "update", "tx") and (not x.startswith("ok ") or x == base)):
                # model and implementation agree with each other but not with the python oracle of the formats
                spell_bad.append(dict(type=ty, text_hex=hx(t), text=t[:400], implementation=x, model=y, mutation="id spelling " + k,
                                      oracle=cls, unmodified_text_reads_as=base, profile=prof,
                                      why="both disagree with the generator's own reading of the uuid / ulid formats"))
        impl.close()

    if tier == "thorough" and not replay:
        vm_crosscheck(ck, model, cases["order"][:40])
    model.close()

    ck.cov["evaluations"] = evals
    ck.cov["distinct_nontrivial"] = sum(len(set(v)) for v in cases.values())
    ck.cov["rule"] = ("values of every serde type from boundary-heavy generators (0, 1, 2^53+1, 2^63, u64::MAX, i64::MIN/MAX, nil and "
                      "all-ones ids of both formats, GTD payloads, empty and multi-element lists); per value: to_string on model and "
                      "implementation, from_str of that text on both, then re-spaced and AST-mutated texts on both, then every id text of the "
                      "library's JSON respelled (non-canonical accepted forms, 130-bit ulid aliases, near misses); non-trivial = distinct values")
    ck.cov["samples"] = samples
    ck.cov["exhaustive"] = False
    ck.extra["trusted_base"] = TRUSTED_BASE + jsn.TRUSTED_JSON
    ck.cov["traces_validated_against_impl"] = evals
    ck.extra["input_distribution"] = dict(values_per_type={k: len(v) for k, v in cases.items()}, mutation_kinds=kinds_seen,
                                          mutant_verdicts=verdicts, id_spelling_kinds=spell_seen, id_spelling_classes=spell_cls,
                                          profiles=profiles, sha256_calls_for_model=model.digests)
    ck.oblige("correspondence (i): serde_json::to_string(v) = print_json (to_json v) on every generated value", not enc_bad,
              "%d disagreements" % len(enc_bad))
    ck.oblige("correspondence (ii): from_str answers (value or error) agree on library texts, re-spaced texts and AST mutants",
              not dec_bad, "%d disagreements" % len(dec_bad))
    if not replay:
        ck.oblige("correspondence (ii-b): from_str answers agree (with each other and with the python oracle of the uuid / ulid formats) "
                  "on %d non-canonical / near-miss id spellings inside JSON (%d kinds)" % (sum(spell_seen.values()), len(spell_seen)),
                  not spell_bad and len(spell_seen) >= 60 and all(spell_cls.get(c, 0) > 0 for c in ("same", "other", "reject")),
                  "%d disagreements, %d kinds, classes %s" % (len(spell_bad), len(spell_seen), spell_cls))
    dec_bad = dec_bad + spell_bad
    ck.oblige("judge: from_str(to_string(v)) == v on the implementation, re-read packages validate", not judge_bad,
              "%d failures" % len(judge_bad))

    if judge_bad:
        judge_bad.sort(key=lambda d: len(str(d.get("value", ""))) + len(d.get("text_hex", "")))
        d = dict(judge_bad[0])
        d.update(kind="roundtrip", failures=len(judge_bad), replay_cmd="./check C17 --replay <this file>")
        ck.violation("fail", d)
    elif enc_bad or dec_bad or not pr["ok"]:
        first = (enc_bad or dec_bad or [None])[0]
        d = dict(kind="correspondence", broken=("to_string correspondence" if enc_bad else "from_str correspondence" if dec_bad else pr["failed"]),
                 theorem=(None if pr["ok"] else "Properties/C17.v: " + str(pr["failed"])), first_disagreement=first,
                 disagreements=len(enc_bad) + len(dec_bad), log=pr["log"][-1500:])
        if first:
            d.update({k: first[k] for k in ("type", "value", "text_hex") if k in first})
        ck.violation("unproved", d, note="no-failing-input-found")
    return ck.finish("cd /verif/coq && make Properties/C17.vo  (+ ./check C17 for the correspondence)")
