"""C16 — text encodings round-trip for every value.
Proofs: Properties/C16.v (parse_T (print_T v) = POk v for every text codec of the model).
Tie: the model's printers and parsers (extracted, modelrun_text) against the library's
Display / FromStr (harness text) on the same values and on the printed texts.
Judge: the property itself on the implementation's outputs — parsing the text the
library prints for a value gives back an equal value (level / queue: equal content)."""
import json
import random

from . import textgen as tg
from .common import *


def gen_values(tier, rng):
    vals = list(tg.fixed_values())
    per = dict(quick=dict(side=4, tif=600, peg=8, oid=1200, uuid=600, order=5000, update=1500, txn=1200, txlist=600,
                          mr=800, stats=500, snap=500, queue=500, level=600),
               thorough=dict(side=4, tif=3000, peg=8, oid=6000, uuid=3000, order=30000, update=8000, txn=6000,
                             txlist=3000, mr=4000, stats=3000, snap=3000, queue=2500, level=3000))[tier]
    for ty in tg.TYPES:
        g = tg.GENERATORS[ty]
        for _ in range(per[ty]):
            vals.append((ty, g(rng)))
    # listings with tied timestamps: only the round trip is judged on them (the printed
    # order of ties is the DashMap's, an oracle)
    for _ in range(60 if tier == "quick" else 300):
        vals.append(("queue", tg.queue(rng, rng.choice([2, 3, 4]), ties=True)))
        vals.append(("level", tg.level(rng, rng.choice([2, 3, 4]), ties=True)))
    return vals


def run(tier, seed, replay=None):
    ck = Check("C16", tier, seed)
    rng = random.Random(seed)
    pr = check_proofs("C16")
    for t in pr["theorems"]:
        ck.oblige("theorem " + t, pr["ok"], pr["failed"] or "")
    if not pr["theorems"]:
        ck.oblige("Properties/C16.v", False, pr["failed"] or "")
    ck.assumptions = ["Print Assumptions: " + (", ".join(pr["assumptions"]) or "Closed under the global context")]
    ck.extra["trusted_base"] = TRUSTED_BASE + tg.TRUSTED_BASE_TEXT
    tg.build_modelrun_text()
    build_harness("debug")
    profiles = ["debug"]
    if tier == "thorough":
        build_harness("release")
        profiles.append("release")

    if replay:
        r = json.load(open(replay))
        vals = [(r["type"], r["value"])] if "type" in r and "value" in r else []
    else:
        vals = gen_values(tier, rng)
        cp = os.path.join(CORPUS, "C16.txt")
        if os.path.exists(cp):
            for l in open(cp):
                l = l.strip()
                if l and not l.startswith("#"):
                    ty, v = l.split(" ", 1)
                    vals.insert(0, (ty, v))
    # distinct cases only
    seen, uniq = set(), []
    for c in vals:
        if c not in seen:
            seen.add(c)
            uniq.append(c)
    vals = uniq
    dist = {}
    for ty, _ in vals:
        dist[ty] = dist.get(ty, 0) + 1
    ck.extra["input_distribution"] = dict(per_type=dist, fixed_boundary_values=len(tg.fixed_values()),
                                          listings_with_tied_timestamps=sum(1 for c in vals if tg.has_ties(*c)))

    corr_print, corr_parse, rt_bad, model_rt_bad = [], [], [], []
    evals = 0
    for prof in profiles:
        cmds = ["PRINT %s %s" % c for c in vals]
        ip, mp = tg.run_both(cmds, prof)
        if len(ip) != len(vals) or len(mp) != len(vals):
            ck.oblige("both sides answered every PRINT (%s)" % prof, False, "%d impl / %d model lines for %d" % (len(ip), len(mp), len(vals)))
            continue
        # parse back the text the IMPLEMENTATION printed, on both sides
        cmds2, idx2 = [], []
        for k, ((ty, v), a) in enumerate(zip(vals, ip)):
            if a.startswith("t "):
                cmds2.append("PARSE %s %s" % (ty, a[2:]))
                idx2.append(k)
        ia, ma = tg.run_both(cmds2, prof)
        back = dict(zip(idx2, zip(ia, ma)))
        for k, ((ty, v), a, m) in enumerate(zip(vals, ip, mp)):
            evals += 1
            ties = tg.has_ties(ty, v)
            if a != m and not ties:
                corr_print.append(dict(type=ty, value=v, implementation=a, model=m, profile=prof))
            if k not in back:
                rt_bad.append(dict(type=ty, value=v, printed=a, parsed=None, profile=prof,
                                   why="to_string() did not return a text: " + a))
                continue
            ib, mb = back[k]
            exp = tg.expected_parse(ty, v)
            if tg.canon(ty, ib) != tg.canon(ty, mb):
                corr_parse.append(dict(type=ty, value=v, text=tg.unhex(a[2:]), implementation=ib, model=mb, profile=prof))
            if tg.canon(ty, ib) != exp:
                rt_bad.append(dict(type=ty, value=v, text=tg.unhex(a[2:]), text_hex=a[2:], parsed=ib, expected=exp,
                                   profile=prof, why="parsing the printed text does not give back the value"))
            if tg.canon(ty, mb) != exp and not ties and a == m:
                model_rt_bad.append(dict(type=ty, value=v, model_parsed=mb, expected=exp))
        # ---- the round trip must not depend on what was parsed BEFORE: in ONE process, each printed text is parsed again
        # right after a few damaged variants of it (and of its neighbours) have been offered to the same entry point
        hist_cmds, hist_idx = [], []
        pool = [k for k in idx2]
        if not replay:
            pool = pool[:: max(1, len(pool) // (1500 if tier == "quick" else 8000))]
        for k in pool:
            ty = vals[k][0]
            txt = tg.unhex(ip[k][2:])
            for _ in range(0 if replay and not r.get("after_garbage") else 3):
                hist_cmds.append("PARSE %s %s" % (ty, tg.hexs(tg.mutate(rng, txt))))
                hist_idx.append(None)
            for g in (r.get("after_garbage") or []) if replay else []:
                hist_cmds.append("PARSE %s %s" % (ty, g))
                hist_idx.append(None)
            hist_cmds.append("PARSE %s %s" % (ty, ip[k][2:]))
            hist_idx.append(k)
        ha = tg.run_side("impl", hist_cmds, jobs=1, profile=prof)
        for j, (k, a2) in enumerate(zip(hist_idx, ha)):
            if k is None:
                continue
            evals += 1
            ty, v = vals[k]
            if tg.canon(ty, a2) != tg.canon(ty, back[k][0]):
                garbage = [c.split(" ")[2] for c in hist_cmds[max(0, j - 3):j] if True]
                rt_bad.append(dict(type=ty, value=v, text=tg.unhex(ip[k][2:]), parsed=a2, expected=back[k][0], profile=prof,
                                   after_garbage=garbage,
                                   why="the printed text parses back to the value on its own, but not after other (rejected) inputs "
                                       "were parsed by the same thread"))
    if tier == "thorough" and not replay:
        smp = rng.sample(range(len(vals)), min(400, len(vals)))
        texts = tg.run_side("model", ["PRINT %s %s" % vals[k] for k in smp])
        tg.vm_compute_crosscheck(ck, [(vals[k][0], tg.unhex(t[2:])) for k, t in zip(smp, texts) if t.startswith("t ")], COQ)

    ck.cov["evaluations"] = evals
    ck.cov["distinct_nontrivial"] = len(vals)
    ck.cov["rule"] = ("(type, value) pairs over the 14 text codecs: fixed boundary values (0, 1, 2^53+1, u64::MAX, i64::MIN/MAX, "
                      "GTD at 0 and u64::MAX, replenish None, nil/max/random UUID and ULID ids, empty and multi-element lists) + "
                      "random boundary-biased values; each is printed by both sides, the implementation's text is parsed by both "
                      "sides; distinct by (type, compact value)")
    ck.cov["samples"] = ["%s %s" % vals[i] for i in (0, len(vals) // 2, len(vals) - 1)] if vals else []
    ck.cov["exhaustive"] = False
    ck.cov["traces_validated_against_impl"] = evals
    ck.oblige("correspondence: Display of the library = print_T of the model on every value", not corr_print,
              "%d disagreements" % len(corr_print))
    ck.oblige("correspondence: FromStr of the library = parse_T of the model on every printed text", not corr_parse,
              "%d disagreements" % len(corr_parse))
    ck.oblige("model round trip on the same cases (extraction sanity)", not model_rt_bad, "%d failures" % len(model_rt_bad))
    ck.oblige("judge: from_str(to_string(v)) == v on the implementation for every value", not rt_bad,
              "%d failures" % len(rt_bad))

    if rt_bad:
        rt_bad.sort(key=lambda d: (len(d["value"]), d["type"], d["value"]))
        d = dict(rt_bad[0])
        d.update(kind="roundtrip", failures=len(rt_bad), replay_cmd="./check C16 --replay <this file>")
        ck.violation("fail", d)
    elif corr_print or corr_parse or model_rt_bad or not pr["ok"]:
        first = (corr_print or corr_parse or model_rt_bad or [None])[0]
        what = ("correspondence print" if corr_print else "correspondence parse" if corr_parse
                else "model round trip" if model_rt_bad else pr["failed"])
        ck.violation("unproved", dict(kind="roundtrip", broken=what,
                                      theorem=(None if pr["ok"] else "Properties/C16.v: " + str(pr["failed"])),
                                      first_disagreement=first, log=pr["log"][-1500:]),
                     note="no-failing-input-found")
    if not ck.violations and any(not ok for (_, ok, _) in ck.obligations):
        failed = [n for (n, ok, _) in ck.obligations if not ok]
        ck.violation("unproved", dict(kind="obligation", broken=failed[0], failed_obligations=failed),
                     note="no-failing-input-found")
    return ck.finish("cd /verif/coq && make Properties/C16.vo  (+ ./check C16 for the correspondence)")
