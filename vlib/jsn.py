"""Shared plumbing of the C17 / C09 checks: co-processes (`harness json`,
`modelrun_json`), SHA-256 from hashlib for the model's `H`, boundary-heavy value
generators in the compact encoding, a JSON AST (duplicate keys kept) with a
printer restricted to the fragment the parser model covers, and AST mutators."""
import hashlib
import json
import os
import re
import subprocess

from . import gen
from .common import *

MODELRUN_JSON = os.path.join(MODELRUN_DIR, "modelrun_json")
U64 = (1 << 64) - 1
U128 = (1 << 128) - 1
I64_MIN, I64_MAX = -(1 << 63), (1 << 63) - 1


TRUSTED_JSON = [
    "extraction for this check: ExtrOcamlBasic + ExtrOcamlString (ascii -> char, string -> char list, Ascii.eqb / ascii_dec -> (=)); "
    "N/Z/positive/nat/Decimal.uint stay extracted inductives; modelrun/driver_json.ml (parsing/printing glue, zarith for decimal I/O)",
    "SHA-256 is a Section variable H of the Coq model (theorems hold for every H; collision freedom is NOT assumed: C09_tamper's second "
    "disjunct is 'a second preimage of H'); in the runs H is python hashlib.sha256, handed to the extracted model as a table",
    "modelled, not verified: serde-derive's generated Deserialize (externally tagged enums, aliases, map/seq struct forms, unknown / duplicate / "
    "missing fields), the hand-written snapshot / statistics visitors, serde_json's printer on plain strings and integers; serde_json's "
    "tokenizer beyond integers / escape-free strings / whitespace (floats, escapes, UTF-8 validation, recursion limit) is trusted, not modelled",
    "id text inside JSON: the full text model of Model/Ids.v / Model/Text.v (Uuid::from_str: simple / hyphenated / braced / urn, either "
    "case; Ulid::from_string: 26 Crockford characters, either case, value mod 2^128), shared with C16 / C18; modelled from the vendored "
    "uuid 1.x / ulid 1.x sources, tied to them by the differential runs on non-canonical and near-miss spellings (jsn.id_spellings); JSON "
    "string escapes (\\uXXXX) inside ids are outside the parser model like every other escape",
]


def build_modelrun_json():
    with Lock("modelrun"):
        srcs = [os.path.join(MODELRUN_DIR, f) for f in ("model_json.ml", "model_json.mli", "driver_json.ml")]
        for s in srcs:
            if not os.path.exists(s):
                raise BuildError("missing %s (run the Coq build first: ExtractJson.v writes it)" % s)
        if os.path.exists(MODELRUN_JSON) and all(os.path.getmtime(MODELRUN_JSON) >= os.path.getmtime(s) for s in srcs):
            return
        rc, out = sh("ocamlfind ocamlopt -package zarith -linkpkg -w -a model_json.mli model_json.ml "
                     "driver_json.ml -o modelrun_json", cwd=MODELRUN_DIR)
        if rc != 0:
            raise BuildError("modelrun_json build failed:\n" + out)


class Proc:
    """Line-oriented co-process."""

    def __init__(self, argv):
        self.p = subprocess.Popen(argv, stdin=subprocess.PIPE, stdout=subprocess.PIPE, text=True, bufsize=1 << 16)
        self.n = 0

    def send(self, line):
        self.p.stdin.write(line + "\n")

    def flush(self):
        self.p.stdin.flush()

    def recv(self):
        l = self.p.stdout.readline()
        if not l:
            raise RuntimeError("co-process died (%s)" % " ".join(self.p.args))
        return l.rstrip("\n")

    def ask(self, line):
        self.n += 1
        self.send(line)
        self.flush()
        return self.recv()

    def ask_many(self, lines, chunk=64):
        """Pipelined questions, answers in order (small chunks: no pipe deadlock)."""
        out = []
        if lines and max(len(l) for l in lines) > 2000:
            chunk = 1           # long questions have long answers: one at a time, or both pipes fill up
        for i in range(0, len(lines), chunk):
            part = lines[i:i + chunk]
            for l in part:
                self.send(l)
            self.flush()
            for _ in part:
                out.append(self.recv())
        self.n += len(lines)
        return out

    def close(self):
        try:
            self.p.stdin.close()
            self.p.wait(timeout=10)
        except Exception:
            self.p.kill()


class Impl(Proc):
    def __init__(self, profile="debug"):
        Proc.__init__(self, [harness_bin(profile), "json"])

    def scan(self, subs, ins, xors, windows=None):
        """SCAN on the current base text -> (accepted [(edit, content)], panics [edit], stats).
        windows: optional list of (from, to) offset ranges the faults are restricted to."""
        if windows is None:
            self.send("SCAN %s %s %s" % (bytes(subs).hex(), bytes(ins).hex(), bytes(xors).hex()))
        else:
            self.send("SCANW %s %s %s %s" % (bytes(subs).hex(), bytes(ins).hex(), bytes(xors).hex(),
                                             ",".join("%d-%d" % w for w in windows)))
        self.flush()
        acc, pan = [], []
        while True:
            l = self.recv()
            if l.startswith("done "):
                n, rej, a, p = map(int, l.split(" ")[1:])
                return acc, pan, dict(mutants=n, rejected=rej, accepted=a, panics=p)
            if l.startswith("a "):
                _, edit, rest = l.split(" ", 2)
                acc.append((edit, rest))
            elif l.startswith("p "):
                pan.append(l[2:])
            else:
                raise RuntimeError("unexpected SCAN line " + l)


class Model(Proc):
    """modelrun_json; `H` of the Coq model is instantiated here with hashlib.sha256."""

    def __init__(self):
        Proc.__init__(self, [MODELRUN_JSON])
        self.digests = 0

    def ask(self, line):
        for _ in range(4):
            a = Proc.ask(self, line)
            if a.startswith("= need "):
                payload = bytes.fromhex(a[7:])
                d = hashlib.sha256(payload).digest()
                self.digests += 1
                r = Proc.ask(self, "DIGEST %s %s" % (a[7:], d.hex()))
                if r != "= ok":
                    raise RuntimeError("DIGEST refused: " + r)
                continue
            if not a.startswith("= "):
                raise RuntimeError("unexpected model line " + a)
            return a[2:]
        raise RuntimeError("model keeps asking for digests")

    def ask_many(self, lines, chunk=64):
        return [self.ask(l) for l in lines]


def hx(s):
    return (s if isinstance(s, bytes) else s.encode()).hex()


def unhx(h):
    return bytes.fromhex(h)


# ---------------------------------------------------------------- generators (compact encoding)

BND = [0, 1, 2, (1 << 53) + 1, 1 << 63, U64 - 1, U64]
_SRC = [v for c in source_constants() for v in (c - 1, c, c + 1)]      # values the code singles out
BND = BND + [v for v in _SRC if v not in BND]


def rq(rng):
    r = rng.random()
    if r < 0.25:
        return rng.choice([0, 1, 2, 3, 10, 100])
    if r < 0.6:
        return rng.choice(BND)
    if r < 0.8:
        return rng.randint(1 << 53, U64)
    return rng.randint(0, 1 << 20)


def roid(rng):
    n = rng.choice([0, 1, 7, (1 << 64), U128, U128 - 1, rng.getrandbits(128), rng.getrandbits(128), rng.getrandbits(48)])
    return ("u%d" if rng.random() < 0.5 else "l%d") % n


def rtif(rng):
    r = rng.random()
    if r < 0.45:
        return "GTD%d" % rq(rng)
    return rng.choice(["GTC", "IOC", "FOK", "DAY"])


def rorder(rng, oid=None, price=None, ts=None, kind=None):
    k = kind or rng.choice(gen.KINDS)
    if ts is None and price is None and rng.random() < 0.25:
        # an order as a trading system would build it (wall-clock ms timestamp, GTD in epoch seconds, crate defaults)
        t0 = rng.randint(1_600_000_000_000, 1_800_000_000_000)
        c = source_constants() or [80]
        tf = ("GTD%d" % (t0 // 1000 + rng.randint(0, 5 * 365 * 86400)) if rng.random() < 0.5 else rng.choice(["GTC", "IOC", "FOK", "DAY"]))
        return gen.order(k, oid=oid or roid(rng), price=rng.randint(1, 100000), side=rng.choice("BS"), ts=t0, tif=tf,
                         vis=rng.randint(0, 1000), hid=rng.randint(0, 1000), thr=rng.choice([0, 1, rng.choice(c)]),
                         amt=rng.choice([None, rng.choice(c), rng.choice(c), rng.randint(0, 100)]), auto=rng.random() < 0.6,
                         trail=rng.randint(0, 500), lastref=rng.randint(1, 100000), off=rng.randint(-50, 50), peg=rng.choice(gen.PEGS))
    return gen.order(k, oid=oid or roid(rng), price=rq(rng) if price is None else price, side=rng.choice("BS"),
                     ts=rq(rng) if ts is None else ts, tif=rtif(rng), vis=rq(rng), hid=rq(rng), thr=rq(rng),
                     amt=rng.choice([None, rq(rng)]), auto=rng.random() < 0.5, trail=rq(rng), lastref=rq(rng),
                     off=rng.choice([0, 1, -1, I64_MAX, I64_MIN, rng.randint(-1000, 1000), (1 << 53) + 1, -(1 << 53) - 1]),
                     peg=rng.choice(gen.PEGS))


def rupdate(rng):
    k = rng.choice(["UP", "UQ", "UPQ", "C", "RP"])
    o = roid(rng)
    if k == "UP":
        return "UP:%s:%d" % (o, rq(rng))
    if k == "UQ":
        return "UQ:%s:%d" % (o, rq(rng))
    if k == "UPQ":
        return "UPQ:%s:%d:%d" % (o, rq(rng), rq(rng))
    if k == "C":
        return "C:%s" % o
    return "RP:%s:%d:%d:%s" % (o, rq(rng), rq(rng), rng.choice("BS"))


def rtx(rng):
    return "%d/%s/%s/%d/%d/%s/%d" % (rng.choice([0, 1, U128, rng.getrandbits(128)]), roid(rng), roid(rng),
                                     rq(rng), rq(rng), rng.choice("BS"), rq(rng))


def rlist(rng, f, maxn=4):
    n = rng.choice([0, 1, 1, 2, 3, maxn])
    return "[" + ",".join(f(rng) for _ in range(n)) + "]"


def rresult(rng):
    return "%s;%s;%d;%d;%s" % (roid(rng), rlist(rng, rtx), rq(rng), rng.randint(0, 1), rlist(rng, roid))


def rdata(rng, maxn=4):
    return "%d;%d;%d;%d;%s" % (rq(rng), rq(rng), rq(rng), rq(rng), rlist(rng, rorder, maxn))


def rstats(rng):
    return "/".join(str(rq(rng)) for _ in range(8))


def rchecksum(rng):
    r = rng.random()
    if r < 0.5:
        return "".join(rng.choice("0123456789abcdef") for _ in range(64))
    if r < 0.7:
        return ""
    return "".join(rng.choice("0123456789abcdefXYZ -_") for _ in range(rng.randint(1, 70)))


def rpackage(rng):
    return "%d;x%s;%s" % (rng.choice([0, 1, 1, 1, 2, (1 << 32) - 1]), hx(rchecksum(rng)), rdata(rng))


def rlevel_orders(rng, n, price=None, distinct_ts=True, small=False):
    """Orders with unique ids (and unique timestamps unless told otherwise) for a level."""
    ids, tss, out = set(), set(), []
    while len(out) < n:
        o = roid(rng)
        if o in ids or ("u" + o[1:]) in ids or ("l" + o[1:]) in ids:
            continue
        ts = rq(rng)
        if distinct_ts and ts in tss:
            ts = rng.randint(0, U64)
            if ts in tss:
                continue
        ids.add(o)
        tss.add(ts)
        out.append(rorder(rng, oid=o, price=price, ts=ts))
    return out


GENERATORS = {
    "side": lambda r: r.choice("BS"),
    "tif": rtif,
    "peg": lambda r: r.choice(gen.PEGS),
    "oid": roid,
    "uuid": lambda r: str(r.choice([0, 1, U128, r.getrandbits(128)])),
    "order": rorder,
    "update": rupdate,
    "tx": rtx,
    "txlist": lambda r: rlist(r, rtx),
    "result": rresult,
    "data": rdata,
    "snapshot": rdata,
    "package": rpackage,
    "stats": rstats,
}


# ---------------------------------------------------------------- JSON AST (duplicate keys kept)

class Obj(list):
    """JSON object as a list of (key, value) pairs."""


def parse_text(text):
    return json.loads(text, object_pairs_hook=lambda pairs: Obj(pairs))


def plain(s):
    return all(0x20 <= ord(c) < 0x7f and c not in '"\\' for c in s)


def dump(j, rng=None, ws=0.0):
    """Compact printer for the modelled fragment (ints, plain strings, no escapes);
    with ws > 0 sprinkles whitespace between tokens."""
    def sp():
        if rng is not None and ws > 0 and rng.random() < ws:
            return rng.choice([" ", "\t", "\n", "\r", "  "])
        return ""
    if j is None:
        return "null"
    if j is True:
        return "true"
    if j is False:
        return "false"
    if isinstance(j, int):
        return str(j)
    if isinstance(j, str):
        assert plain(j), j
        return '"%s"' % j
    if isinstance(j, Obj):
        return "{" + sp() + ",".join(sp() + '"%s"' % k + sp() + ":" + sp() + dump(v, rng, ws) + sp() for (k, v) in j) + "}"
    if isinstance(j, list):
        return "[" + sp() + ",".join(sp() + dump(v, rng, ws) + sp() for v in j) + "]"
    raise TypeError(repr(j))


def paths(j, p=()):
    """All node paths of an AST."""
    out = [p]
    if isinstance(j, Obj):
        for i, (k, v) in enumerate(j):
            out += paths(v, p + (i,))
    elif isinstance(j, list):
        for i, v in enumerate(j):
            out += paths(v, p + (i,))
    return out


def get(j, p):
    for i in p:
        j = j[i][1] if isinstance(j, Obj) else j[i]
    return j


def clone(j):
    if isinstance(j, Obj):
        return Obj((k, clone(v)) for (k, v) in j)
    if isinstance(j, list):
        return [clone(v) for v in j]
    return j


def put(j, p, v):
    """Returns a copy of j with the node at path p replaced by v."""
    if not p:
        return v
    j = clone(j)
    cur = j
    for i in p[:-1]:
        cur = cur[i][1] if isinstance(cur, Obj) else cur[i]
    i = p[-1]
    if isinstance(cur, Obj):
        cur[i] = (cur[i][0], v)
    else:
        cur[i] = v
    return j


ALIASES = {
    "BUY": ["buy", "Buy", "bUY", "BUY "], "SELL": ["sell", "Sell", "SEll", "SEL"],
    "GTC": ["gtc", "Gtc", "gTC"], "IOC": ["ioc", "Ioc", "IoC"], "FOK": ["fok", "Fok", "FOk"],
    "DAY": ["day", "Day", "dAY"], "GTD": ["gtd", "Gtd", "gTD"],
    "BestBid": ["BESTBID", "bestbid"], "BestAsk": ["BESTASK"], "MidPrice": ["midprice", "MIDPRICE"],
    "LastTrade": ["lasttrade"],
}
VARIANTS = ["Standard", "IcebergOrder", "PostOnly", "TrailingStop", "PeggedOrder", "MarketToLimit", "ReserveOrder",
            "UpdatePrice", "UpdateQuantity", "UpdatePriceAndQuantity", "Cancel", "Replace", "standard", "Std"]
NUMS = [0, 1, 2, (1 << 53) + 1, (1 << 32) - 1, 1 << 32, I64_MAX, I64_MAX + 1, U64, U64 + 1, -1, I64_MIN, I64_MIN - 1,
        1 << 70, -(1 << 70)]
CANON_IDS = ["00000000-0000-0000-0000-000000000000", "ffffffff-ffff-ffff-ffff-ffffffffffff",
             "01234567-89ab-cdef-0123-456789abcdef", "00000000000000000000000000", "7ZZZZZZZZZZZZZZZZZZZZZZZZZ",
             "ZZZZZZZZZZZZZZZZZZZZZZZZZZ", "8ZZZZZZZZZZZZZZZZZZZZZZZZZ", "01ARZ3NDEKTSV4RRFFQ69G5FAV"]
# lengths outside {26, 32, 36, 38, 45}: rejected by uuid and ulid alike
BAD_IDS = ["", "x", "zz", "0123", "00000000-0000-0000-0000-00000000000", "7ZZZZZZZZZZZZZZZZZZZZZZZZ",
           "00000000-0000-0000-0000-0000000000000", "not an id at all, clearly"]


# ---------------------------------------------------------------- id spellings
# The text formats Uuid::from_str / Ulid::from_string / OrderId::from_str accept, written down a third time
# (python, from the crates' documentation) as an oracle for the generator: every spelling below is classified
# "same" (must be read as the id it respells), "other" (read as a different id) or "reject" (an error), and
# the classification is compared with model AND implementation.

HEXD = "0123456789abcdef"
CROCK = "0123456789ABCDEFGHJKMNPQRSTVWXYZ"
UUID_RE = re.compile(r"[0-9a-f]{8}-[0-9a-f]{4}-[0-9a-f]{4}-[0-9a-f]{4}-[0-9a-f]{12}\Z")
ID_KEYS = ("id", "order_id", "taker_order_id", "maker_order_id", "transaction_id")


def uuid_text(n):
    h = "%032x" % n
    return "-".join([h[:8], h[8:12], h[12:16], h[16:20], h[20:]])


def ulid_text(n):
    return "".join(CROCK[(n >> (5 * (25 - i))) & 31] for i in range(26))


def _hex32(h):
    if len(h) != 32 or any(c not in "0123456789abcdefABCDEF" for c in h):
        return None
    return int(h, 16)


def _hyph(t):
    if len(t) != 36 or any(t[p] != "-" for p in (8, 13, 18, 23)):
        return None
    return _hex32(t[:8] + t[9:13] + t[14:18] + t[19:23] + t[24:])


def py_parse_uuid(s):
    n = len(s.encode())
    if n == 32:
        return _hex32(s)
    if n == 36:
        return _hyph(s)
    if n == 38 and s[0] == "{" and s[-1] == "}":
        return _hyph(s[1:-1])
    if n == 45 and s.startswith("urn:uuid:"):
        return _hyph(s[9:])
    return None


def py_parse_ulid(s):
    if len(s.encode()) != 26:
        return None
    v = 0
    for c in s:
        i = CROCK.find(c.upper()) if ("0" <= c <= "9" or "A" <= c <= "Z" or "a" <= c <= "z") else -1
        if i < 0:
            return None
        v = ((v << 5) | i) & U128          # the two top bits of the 130 are shifted out
    return v


def py_parse_oid(s):
    """-> 'u<n>' | 'l<n>' | None (OrderId::from_str: Uuid first, then Ulid)."""
    u = py_parse_uuid(s)
    if u is not None:
        return "u%d" % u
    l = py_parse_ulid(s)
    return None if l is None else "l%d" % l


def py_parse_id(s, want):
    if want == "uuid":
        u = py_parse_uuid(s)
        return None if u is None else "u%d" % u
    return py_parse_oid(s)


def mixcase(rng, s):
    out = "".join(c.upper() if rng.random() < 0.5 else c.lower() for c in s)
    if out in (s.lower(), s.upper()):      # force a real mixture where the text has two letters
        idx = [i for i, c in enumerate(s) if c.isalpha()]
        if len(idx) >= 2:
            o = list(s.lower())
            o[idx[0]] = o[idx[0]].upper()
            out = "".join(o)
    return out


BAD_HEX = "gG/:@`xz _.+"          # the neighbours of 0-9 / A-F / a-f in ASCII, and the usual suspects
BAD_B32 = "ILOUilou-_ @[`{/:."     # Crockford's excluded letters in both cases, neighbours of the ranges


def uuid_spellings(rng, c):
    """c: canonical (lower-case hyphenated) uuid text -> [(kind, text)]."""
    h = c.replace("-", "")
    hexpos = [i for i in range(36) if i not in (8, 13, 18, 23)]
    i, k = rng.choice(hexpos), rng.randrange(32)
    p = rng.choice((8, 13, 18, 23))
    q = p + rng.choice((-1, 1))
    sw = list(c)
    sw[p], sw[q] = sw[q], sw[p]
    out = [
        # accepted, same id
        ("uuid_upper", c.upper()), ("uuid_mixed", mixcase(rng, c)),
        ("uuid_simple", h), ("uuid_simple_upper", h.upper()), ("uuid_simple_mixed", mixcase(rng, h)),
        ("uuid_braced", "{" + c + "}"), ("uuid_braced_upper", "{" + c.upper() + "}"), ("uuid_braced_mixed", "{" + mixcase(rng, c) + "}"),
        ("uuid_urn", "urn:uuid:" + c), ("uuid_urn_upper_hex", "urn:uuid:" + c.upper()), ("uuid_urn_mixed", "urn:uuid:" + mixcase(rng, c)),
        # wrong length
        ("uuid_len35", c[:-1]), ("uuid_len37", c + "0"), ("uuid_simple_len31", h[:-1]), ("uuid_simple_len33", h + "0"),
        ("uuid_len35_front", c[1:]), ("uuid_braced_len39", "{" + c + "0}"), ("uuid_urn_len44", "urn:uuid:" + c[:-1]),
        ("uuid_urn_len46", "urn:uuid:" + c + "0"),
        # bad character
        ("uuid_badchar", c[:i] + rng.choice(BAD_HEX) + c[i + 1:]), ("uuid_simple_badchar", h[:k] + rng.choice(BAD_HEX) + h[k + 1:]),
        ("uuid_braced_badchar", "{" + c[:i] + rng.choice(BAD_HEX) + c[i + 1:] + "}"),
        ("uuid_urn_badchar", "urn:uuid:" + c[:i] + rng.choice(BAD_HEX) + c[i + 1:]),
        ("uuid_0x", "0x" + h[2:]), ("uuid_plus", "+" + c[1:]),
        # hyphens
        ("uuid_hyphen_shift", "".join(sw)), ("uuid_hyphen_gone", c[:p] + rng.choice(HEXD) + c[p + 1:]),
        ("uuid_hyphen_under", c[:p] + "_" + c[p + 1:]), ("uuid_extra_hyphen", c[:i] + "-" + c[i + 1:]),
        ("uuid_simple_hyphen", h[:k] + "-" + h[k + 1:]), ("uuid_groups_12_4_4_4_8", "-".join([h[:12], h[12:16], h[16:20], h[20:24], h[24:]])),
        # braces
        ("uuid_simple_braced", "{" + h + "}"), ("uuid_brace_open_only", "{" + c), ("uuid_brace_close_only", c + "}"),
        ("uuid_brace_wrong_close", "{" + c + ")"), ("uuid_paren", "(" + c + ")"), ("uuid_brace_swapped", "}" + c + "{"),
        ("uuid_brace_inner_short", "{" + c[:-1] + "}}"), ("uuid_brace_double", "{{" + c[1:-1] + "}}"), ("uuid_len38_nobrace", c + "00"),
        # urn
        ("uuid_urn_upper_prefix", "URN:UUID:" + c), ("uuid_urn_mixed_prefix", "Urn:uuid:" + c), ("uuid_urn_typo", "urn:uuie:" + c),
        ("uuid_urn_simple", "urn:uuid:" + h), ("uuid_urn_braced", "urn:uuid:{" + c + "}"), ("uuid_urn_dash", "urn-uuid-" + c),
        ("uuid_len45_noprefix", c + "000000000"),
        # white space
        ("uuid_space_before", " " + c), ("uuid_space_after", c + " "), ("uuid_space_inside_36", " " + c[1:]),
    ]
    return out


def ulid_spellings(rng, t):
    """t: 26 characters of Crockford's alphabet (upper case) -> [(kind, text)]."""
    i = rng.randrange(26)
    v0 = CROCK.index(t[0])
    other = rng.choice([x for x in CROCK if x != t[i]])
    out = [
        # accepted, same id
        ("ulid_lower", t.lower()), ("ulid_mixed", mixcase(rng, t)),
        # 130 bits: the first character's two top bits are dropped, so these spell the SAME id
        ("ulid_overflow_alias_8", CROCK[(v0 + 8) % 32] + t[1:]), ("ulid_overflow_alias_16", CROCK[(v0 + 16) % 32] + t[1:]),
        ("ulid_overflow_alias_24", CROCK[(v0 + 24) % 32] + t[1:]), ("ulid_overflow_alias_lower", (CROCK[(v0 + 8) % 32] + t[1:]).lower()),
        # accepted, another id
        ("ulid_other_char", t[:i] + other + t[i + 1:]), ("ulid_other_char_lower", (t[:i] + other + t[i + 1:]).lower()),
        ("ulid_all_Z", "Z" * 26), ("ulid_all_z", "z" * 26),
        # wrong length
        ("ulid_len25", t[:-1]), ("ulid_len27", t + "0"), ("ulid_len25_front", t[1:]),
        # bad character
        ("ulid_badchar", t[:i] + rng.choice(BAD_B32) + t[i + 1:]), ("ulid_badchar_first", rng.choice(BAD_B32) + t[1:]),
        ("ulid_badchar_last", t[:-1] + rng.choice(BAD_B32)), ("ulid_excluded_letter", t[:i] + rng.choice("ILOUilou") + t[i + 1:]),
        ("ulid_space_before", " " + t), ("ulid_space_inside_26", " " + t[1:]), ("ulid_hyphenated", t[:10] + "-" + t[11:]),
        ("ulid_braced", "{" + t[1:-1] + "}"),
    ]
    return out


def id_spellings(rng, s):
    """Spellings derived from the id text s (canonical or not) -> [(kind, text)]."""
    if UUID_RE.match(s):
        out = uuid_spellings(rng, s)
        # the same 128 bits as a ulid text: an OrderId of the other format, an error for a Uuid field
        out.append(("uuid_as_ulid_text", ulid_text(py_parse_uuid(s))))
        return out
    if len(s) == 26 and all(c in CROCK for c in s):
        out = ulid_spellings(rng, s)
        out.append(("ulid_as_uuid_text", uuid_text(py_parse_ulid(s))))
        out += [("ulid_as_" + k, t) for (k, t) in uuid_spellings(rng, uuid_text(py_parse_ulid(s))) if k in ("uuid_simple_upper", "uuid_braced", "uuid_urn")]
        return out
    # not canonical (an earlier mutation): generic edits
    if not s:
        return [("id_generic_empty", "0" * 26)]
    i = rng.randrange(len(s))
    return [("id_generic_upper", s.upper()), ("id_generic_lower", s.lower()), ("id_generic_drop", s[:i] + s[i + 1:]),
            ("id_generic_sub", s[:i] + rng.choice(BAD_HEX + BAD_B32) + s[i + 1:])]


def classify(orig, spelled, want):
    """'same' | 'other' | 'reject' according to the python oracle (want: 'uuid' for a Uuid field, else 'oid')."""
    a, b = py_parse_id(orig, want), py_parse_id(spelled, want)
    if b is None:
        return "reject"
    return "same" if a == b else "other"


def id_nodes(j, top=None, p=(), key=None):
    """Paths of the id texts of an AST -> [(path, 'uuid' | 'oid')]; top: 'oid' / 'uuid' when the whole text is an id."""
    out = []
    if isinstance(j, str):
        if not p and top in ("oid", "uuid"):
            out.append((p, top))
        elif key in ID_KEYS:
            out.append((p, "uuid" if key == "transaction_id" else "oid"))
    elif isinstance(j, Obj):
        for i, (k, v) in enumerate(j):
            out += id_nodes(v, top, p + (i,), k)
    elif isinstance(j, list):
        for i, v in enumerate(j):
            # the elements of filled_order_ids; positional ids of a struct written as a sequence are not tracked
            out += id_nodes(v, top, p + (i,), "order_id" if key == "filled_order_ids" and isinstance(v, str) else None)
    return out


def junk(rng, depth=0):
    """An arbitrary value of the modelled fragment (for unknown fields / type confusion)."""
    r = rng.random()
    if r < 0.3 or depth > 2:
        return rng.choice(NUMS)
    if r < 0.45:
        return rng.choice(["", "x", "BUY", "GTC", "a b", "0"])
    if r < 0.6:
        return rng.choice([None, True, False])
    if r < 0.8:
        return [junk(rng, depth + 1) for _ in range(rng.randint(0, 3))]
    return Obj((rng.choice(["a", "b", "price", "id", "GTD"]), junk(rng, depth + 1)) for _ in range(rng.randint(0, 3)))


def looks_like_id(s):
    return len(s) in (26, 36) and plain(s) and " " not in s


def mutate(rng, j):
    """One AST-level mutation -> (kind, mutant) (mutant may equal j when nothing applied)."""
    ps = paths(j)
    objs = [p for p in ps if isinstance(get(j, p), Obj)]
    arrs = [p for p in ps if isinstance(get(j, p), list) and not isinstance(get(j, p), Obj)]
    nums = [p for p in ps if isinstance(get(j, p), int) and not isinstance(get(j, p), bool)]
    strs = [p for p in ps if isinstance(get(j, p), str)]
    kinds = ["alias_value", "alias_key", "drop_field", "dup_field", "dup_field_edit", "unknown_field", "reorder",
             "struct_as_seq", "seq_wrong_len", "arr_swap", "arr_drop", "arr_dup", "num_edit", "num_edit", "variant_key",
             "type_confusion", "unit_map_form", "newtype_as_str", "id_edit", "id_bad", "id_spell", "id_spell", "second_key", "empty_obj", "null_node"]
    k = rng.choice(kinds)
    if k == "alias_value" and strs:
        cand = [p for p in strs if get(j, p) in ALIASES]
        if cand:
            p = rng.choice(cand)
            return k, put(j, p, rng.choice(ALIASES[get(j, p)]))
    if k == "alias_key" and objs:
        cand = [(p, i) for p in objs for i, (kk, _) in enumerate(get(j, p)) if kk in ALIASES]
        if cand:
            p, i = rng.choice(cand)
            o = clone(get(j, p))
            o[i] = (rng.choice(ALIASES[o[i][0]]), o[i][1])
            return k, put(j, p, o)
    if k == "drop_field" and objs:
        p = rng.choice(objs)
        o = clone(get(j, p))
        if o:
            del o[rng.randrange(len(o))]
            return k, put(j, p, o)
    if k in ("dup_field", "dup_field_edit") and objs:
        p = rng.choice(objs)
        o = clone(get(j, p))
        if o:
            i = rng.randrange(len(o))
            v = clone(o[i][1]) if k == "dup_field" else junk(rng)
            o.insert(rng.randint(0, len(o)), (o[i][0], v))
            return k, put(j, p, o)
    if k == "unknown_field" and objs:
        p = rng.choice(objs)
        o = clone(get(j, p))
        for _ in range(rng.choice([1, 1, 2])):
            o.insert(rng.randint(0, len(o)), (rng.choice(["zzz", "Price", "ID", "extra", "qty"]), junk(rng)))
        return k, put(j, p, o)
    if k == "reorder" and objs:
        p = rng.choice(objs)
        o = clone(get(j, p))
        rng.shuffle(o)
        return k, put(j, p, o)
    if k in ("struct_as_seq", "seq_wrong_len") and objs:
        p = rng.choice(objs)
        vals = [clone(v) for (_, v) in get(j, p)]
        if k == "seq_wrong_len":
            if vals and rng.random() < 0.5:
                vals.pop()
            else:
                vals.append(None)
        return k, put(j, p, vals)
    if k in ("arr_swap", "arr_drop", "arr_dup") and arrs:
        cand = [p for p in arrs if len(get(j, p)) >= (2 if k == "arr_swap" else 1)]
        if cand:
            p = rng.choice(cand)
            a = clone(get(j, p))
            i = rng.randrange(len(a))
            if k == "arr_swap":
                i2 = rng.choice([x for x in range(len(a)) if x != i])
                a[i], a[i2] = a[i2], a[i]
            elif k == "arr_drop":
                del a[i]
            else:
                a.insert(rng.randint(0, len(a)), clone(a[i]))
            return k, put(j, p, a)
    if k == "num_edit" and nums:
        p = rng.choice(nums)
        v = get(j, p)
        return k, put(j, p, rng.choice(NUMS + [v + 1, v - 1, v + 1, v - 1]))
    if k == "variant_key" and objs:
        cand = [(p, i) for p in objs for i, (kk, _) in enumerate(get(j, p)) if kk in VARIANTS]
        if cand:
            p, i = rng.choice(cand)
            o = clone(get(j, p))
            o[i] = (rng.choice(VARIANTS), o[i][1])
            return k, put(j, p, o)
    if k == "type_confusion":
        p = rng.choice(ps)
        return k, put(j, p, junk(rng))
    if k == "unit_map_form" and strs:
        cand = [p for p in strs if get(j, p) in ALIASES]
        if cand:
            p = rng.choice(cand)
            return k, put(j, p, Obj([(get(j, p), rng.choice([None, None, 0, "x", []]))]))
    if k == "newtype_as_str" and objs:
        cand = [p for p in objs if len(get(j, p)) == 1 and get(j, p)[0][0] in ("GTD", "gtd", "Gtd")]
        if cand:
            p = rng.choice(cand)
            return k, put(j, p, rng.choice(["GTD", "gtd"]))
    if k in ("id_edit", "id_bad") and strs:
        cand = [p for p in strs if looks_like_id(get(j, p))]
        if cand:
            p = rng.choice(cand)
            return k, put(j, p, rng.choice(CANON_IDS if k == "id_edit" else BAD_IDS))
    if k == "id_spell" and strs:
        cand = [q for (q, _) in id_nodes(j)] or [q for q in strs if looks_like_id(get(j, q))]
        cand = [q for q in cand if isinstance(get(j, q), str)]
        if cand:
            p = rng.choice(cand)
            kind, t = rng.choice(id_spellings(rng, get(j, p)))
            if plain(t):
                return k + ":" + kind, put(j, p, t)
    if k == "second_key" and objs:
        cand = [p for p in objs if len(get(j, p)) == 1]
        if cand:
            p = rng.choice(cand)
            o = clone(get(j, p))
            o.append(rng.choice([o[0], ("GTC", None), ("x", 1)]))
            return k, put(j, p, o)
    if k == "empty_obj" and objs:
        return k, put(j, rng.choice(objs), Obj())
    if k == "null_node":
        return k, put(j, rng.choice(ps), None)
    return "none", j
