"""C13 — cancel / amend acknowledgements stay truthful under concurrency."""
from . import conc
from .concprop import *


def judge(rec, prog, info):
    v, k = conc.judge_ack(rec, prog, info)
    return v or k


def classify(text, rec, prog, info):
    return text if text.startswith("K4 ") else None


def extra_lines(rng, tier):
    # programs built around the window: one matcher, one canceller / amender on the same order
    out = []
    for i in range(150 if tier == "quick" else 3000):
        q = rng.choice([6, 10, 20])
        m = rng.choice([1, 3, q - 1])
        kind = rng.choice(["S", "I", "R"])
        from . import gen
        o = gen.order(kind, oid="u1", price=100, side="S", ts=5, tif="GTC", vis=q, hid=rng.choice([0, 5]) if kind != "S" else 0,
                      thr=0, amt=None, auto=True)
        second = rng.choice(["UPD C:u1", "UPD UQ:u1:%d" % rng.choice([1, 2, q]), "UPD C:u1;UPD UQ:u1:3"])
        out.append("w%d|100|ADD %s|MATCH %d u9000#%s|r%d|drain,mode=O,proj=map+tk" % (i, o, m, second, rng.randint(1, 10 ** 9)))
    out += conc.long_past_lines(rng, 12 if tier == "quick" else 150, "drain,mode=O,proj=map+tk")
    return out


def run(tier, seed, replay=None):
    return run_conc_property("C13", tier, seed, replay, judges=[("acknowledgements", judge)], classify=classify,
                             extra_lines=extra_lines, n_quick=2000, n_thorough=50000, flags="drain,mode=O,proj=map+tk", final_keys=())
