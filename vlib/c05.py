"""C05 — per-order matching rules: proofs in Properties/C05.v, tie = exhaustive
small grid + 64-bit boundary grid + random orders through the public
OrderType::match_against vs the extracted match_against and match_spec."""
import json
import subprocess

from . import gen
from . import helpers
from .common import *


def run_ma(cases, profile="debug"):
    """cases: list of (order, inc).  Returns (impl lines, model lines 'ma ms')."""
    inp = "".join("%s %d\n" % c for c in cases)
    p = subprocess.run([harness_bin(profile), "ma"], input=inp, text=True, stdout=subprocess.PIPE, timeout=600)
    impl = p.stdout.splitlines()
    inp2 = "".join("MA2 %s %d\n" % c for c in cases)
    p2 = subprocess.run([MODELRUN], input=inp2, text=True, stdout=subprocess.PIPE, timeout=600)
    model = [l[2:] for l in p2.stdout.splitlines()]
    return impl, model


def vm_compute_crosscheck(ck, cases):
    """Re-evaluates a sample inside Coq with vm_compute and compares with the extracted model."""
    def n(v): return "%d%%N" % v

    def coq_order(s):
        d = gen.parse_order(s)
        oid = ("Uuid " if d["id"][0] == "u" else "Ulid ") + n(int(d["id"][1:]))
        tif = d["tif"]
        tifc = {"GTC": "Gtc", "IOC": "Ioc", "FOK": "Fok", "DAY": "Day"}.get(tif) or "(Gtd %s)" % n(int(tif[3:]))
        c = "(mkCommon (%s) %s %s %s %s)" % (oid, n(d["price"]), "Buy" if d["side"] == "B" else "Sell", n(d["ts"]), tifc)
        k = d["kind"]
        if k == "S": return "(Standard %s %s)" % (c, n(d["vis"]))
        if k == "P": return "(PostOnly %s %s)" % (c, n(d["vis"]))
        if k == "M": return "(MarketToLimit %s %s)" % (c, n(d["vis"]))
        if k == "I": return "(Iceberg %s %s %s)" % (c, n(d["vis"]), n(d["hid"]))
        if k == "T": return "(TrailingStop %s %s %s %s)" % (c, n(d["vis"]), n(int(d["params"][0])), n(int(d["params"][1])))
        if k == "G":
            peg = {"BB": "BestBid", "BA": "BestAsk", "MP": "MidPrice", "LT": "LastTrade"}[d["params"][1]]
            return "(Pegged %s %s (%s)%%Z %s)" % (c, n(d["vis"]), d["params"][0], peg)
        thr, amt, au = d["params"]
        return "(Reserve %s %s %s %s %s %s)" % (c, n(d["vis"]), n(d["hid"]), n(int(thr)),
                                                 "None" if amt == "-" else "(Some %s)" % n(int(amt)),
                                                 "true" if au == "1" else "false")
    path = os.path.join(COQ, "cases_c05.v")
    with open(path, "w") as f:
        f.write("From PL Require Import Model.Order.\nOpen Scope N_scope.\n")
        f.write("Definition proj (r : mres) := (m_consumed r, option_map vis (m_updated r), option_map hid (m_updated r), m_hidden_reduced r, m_remaining r).\n")
        for i, (o, q) in enumerate(cases):
            f.write("Eval vm_compute in proj (match_against %s %s).\n" % (coq_order(o), n(q)))
    rc, out = sh("timeout 600 coqc -noglob -Q . PL cases_c05.v", cwd=COQ)
    for ext in (".v", ".vo", ".vok", ".vos", ".glob"):
        try: os.remove(os.path.join(COQ, "cases_c05" + ext))
        except OSError: pass
    if rc != 0:
        ck.oblige("extraction cross-check (vm_compute) runs", False, out[-500:])
        return
    flat = " ".join(out.split())
    got = re.findall(r"= \((\d+), (None|Some \d+), (None|Some \d+), (\d+), (\d+)\)", flat)
    _, model = run_ma(cases)
    bad = 0
    for (o, q), g, m in zip(cases, got, model):
        ma = m.split(" ")[0].split("/")
        upd = ma[1]
        if upd == "-":
            exp = (ma[0], "None", "None", ma[2], ma[3])
        else:
            d = gen.parse_order(upd)
            exp = (ma[0], "Some %d" % d["vis"], "Some %d" % d["hid"], ma[2], ma[3])
        if tuple(g) != exp:
            bad += 1
    ck.oblige("extracted model = vm_compute inside Coq on %d sampled cases" % len(cases),
              bad == 0 and len(got) == len(cases), "%d differ, %d parsed" % (bad, len(got)))


def judge_local(o, q, res):
    """Python restatement of the C05 corollaries, applied to an implementation answer
    (used only to describe a failure in the replay; the deciding judge is match_spec)."""
    if res in ("panic",) or res.startswith("error"):
        return "implementation did not return a result: " + res
    d = gen.parse_order(o)
    c, upd, hr, rem = res.split("/")
    c, hr, rem = int(c), int(hr), int(rem)
    if c != min(q, d["vis"]):
        return "consumed %d != min(incoming %d, displayed %d)" % (c, q, d["vis"])
    if rem != q - c:
        return "remaining %d != incoming - consumed" % rem
    if upd != "-":
        u = gen.parse_order(upd)
        if u["vis"] + u["hid"] != d["vis"] + d["hid"] - c:
            return "total not conserved: %d+%d after, %d+%d before, consumed %d" % (u["vis"], u["hid"], d["vis"], d["hid"], c)
        if (u["kind"], u["id"], u["price"], u["side"], u["ts"], u["tif"], u.get("params")) != \
           (d["kind"], d["id"], d["price"], d["side"], d["ts"], d["tif"], d.get("params")):
            return "identity fields changed"
    return "differs from the documented rule (match_spec)"


def run(tier, seed, replay=None):
    import random
    ck = Check("C05", tier, seed)
    rng = random.Random(seed)
    pr = check_proofs("C05", coqchk=(tier == "thorough"))
    for t in pr["theorems"]:
        ck.oblige("theorem " + t, pr["ok"], pr["failed"] or "")
    if not pr["theorems"]:
        ck.oblige("Properties/C05.v", False, pr["failed"] or "")
    ck.assumptions = ["Print Assumptions: " + (", ".join(pr["assumptions"]) or "Closed under the global context")]
    build_modelrun()
    build_harness("debug")
    profiles = ["debug"]
    if tier == "thorough":
        build_harness("release")
        profiles.append("release")

    if replay:
        r = json.load(open(replay))
        cases = [tuple(r["case"])] if "case" in r else []
    else:
        small = gen.small_grid_c05()
        bound = gen.boundary_grid_c05()
        if tier == "quick":
            bound = rng.sample(bound, 20000)
        rnd = [(gen.rand_order_c05(rng), gen.rand_qty(rng)) for _ in range(3000 if tier == "quick" else 100000)]
        corpus = []
        cp = os.path.join(CORPUS, "C05.txt")
        if os.path.exists(cp):
            for l in open(cp):
                l = l.strip()
                if l and not l.startswith("#"):
                    o, q = l.split(" ")
                    corpus.append((o, int(q)))
        cases = corpus + small + bound + rnd
        ck.extra["input_distribution"] = dict(corpus=len(corpus), small_grid=len(small), boundary_grid=len(bound),
                                              random=len(rnd), small_grid_exhaustive=True,
                                              boundary_grid_exhaustive=(tier == "thorough"))
    corr_bad, spec_bad = [], []
    distinct = set()
    for prof in profiles:
        impl, model = run_ma(cases, prof)
        if len(impl) != len(cases) or len(model) != len(cases):
            ck.oblige("harness ran all cases (%s)" % prof, False, "%d impl / %d model lines for %d cases" % (len(impl), len(model), len(cases)))
            continue
        for (o, q), i, m in zip(cases, impl, model):
            ma, ms = m.split(" ")
            if i != ma:
                corr_bad.append((o, q, i, ma, ms, prof))
            if i != ms:
                spec_bad.append((o, q, i, ma, ms, prof))
            d = gen.parse_order(o)
            if q > 0 and d["vis"] > 0:
                distinct.add((o, q))
    ck.cov["evaluations"] = len(cases) * len(profiles)
    ck.cov["distinct_nontrivial"] = len(distinct)
    ck.cov["rule"] = ("(order, incoming quantity) pairs: corpus + exhaustive small grid (7 variants x displayed,hidden 0..4 x threshold 0..3 "
                      "x amount {None,0,1,2,3,5} x auto x incoming 0..6) + 64-bit boundary grid over {0,1,79,80,81,2^63,2^64-2,2^64-1} with "
                      "displayed+hidden <= u64::MAX (sampled in the quick tier) + random orders; non-trivial = displayed > 0 and incoming > 0; distinct by text")
    ck.cov["samples"] = ["%s %d -> %s" % (cases[i][0], cases[i][1], impl[i]) for i in (0, len(cases) // 3, len(cases) - 1)] if cases else []
    ck.cov["exhaustive"] = False
    ck.cov["traces_validated_against_impl"] = len(cases) * len(profiles)
    ck.oblige("correspondence: OrderType::match_against = Model.match_against on every case", not corr_bad,
              "%d disagreements" % len(corr_bad))
    ck.oblige("judge: implementation answer = match_spec (the rules of the property) on every case", not spec_bad,
              "%d failures" % len(spec_bad))
    if tier == "thorough" and not replay:
        vm_compute_crosscheck(ck, rng.sample(cases, 600))
    # extra obligation: the crate's pure helper API = Model/Helpers.v, laws in Properties/Helpers.v
    helpers.run_helpers(ck, tier, rng, replay)

    if spec_bad:
        # smallest failing input first
        spec_bad.sort(key=lambda x: (len(x[0]) + len(str(x[1])), x[0], x[1]))
        o, q, i, ma, ms, prof = spec_bad[0]
        ck.violation("fail", dict(kind="ma", case=[o, q], implementation=i, model_match_against=ma, match_spec=ms,
                                  profile=prof, why=judge_local(o, q, i), failures=len(spec_bad),
                                  replay_cmd="./check C05 --replay <this file>"))
    elif corr_bad or not pr["ok"]:
        o = corr_bad[0] if corr_bad else None
        ck.violation("unproved", dict(kind="ma", broken=("correspondence match_against" if corr_bad else pr["failed"]),
                                      theorem=(None if pr["ok"] else "Properties/C05.v: " + str(pr["failed"])),
                                      first_disagreement=o, log=pr["log"][-1500:]),
                     note="no-failing-input-found")
    return ck.finish("cd /verif/coq && make Properties/C05.vo  (+ ./check C05 for the correspondence)")
