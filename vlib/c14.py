"""C14 — transaction ids are unique across threads and reproducible."""
from . import conc
from .concprop import *


import uuid
NAMESPACES = ["00000000-0000-0000-0000-000000000000", "ffffffff-ffff-ffff-ffff-ffffffffffff",
              "6ba7b810-9dad-11d1-80b4-00c04fd430c8", "00000000-0000-0000-0000-000000000001"]


def ns_of(prog):
    for x in prog["flags"].split(","):
        if x.startswith("ns="):
            return uuid.UUID(x[3:])
    return None


def extra_lines(rng, tier):
    out = []
    for i in range(200 if tier == "quick" else 4000):
        nt = rng.choice([2, 3, 4, 6, 8])
        threads = "#".join(";".join(["NEXT"] * rng.randint(1, 5)) for _ in range(nt))
        # generators that have already issued many ids: decimal-length and word boundaries of the counter
        # decimal-length boundaries 10^k - 2 .. 10^k + 2, word boundaries, and random 64-bit values
        k = rng.randint(1, 19)
        g0 = rng.choice([0, 0, 10 ** k - 2, 10 ** k - 2, 10 ** k, 10 ** k + rng.randint(0, 10 ** max(k - 2, 0)),
                         (1 << 32) - 2, (1 << 53) - 1, (1 << 53) + 1, (1 << 53) + 3, (1 << 64) - 3, rng.randint(0, (1 << 64) - 50)])
        ns = rng.choice(NAMESPACES + [str(uuid.UUID(int=rng.getrandbits(128)))])
        out.append("g%d|100||%s|%s%d|mode=O,proj=gen+map+tk,gen0=%d,ns=%s" % (i, threads, rng.choice("rp"), rng.randint(1, 10 ** 9), g0, ns))
    # observers of the generator racing `next()`: Debug-formatting or serialising it (a log line, a checkpoint) must not
    # disturb the sequence.  Not calls of Model/Conc.v: judged only (flag `nomodel`).
    for i in range(120 if tier == "quick" else 2500):
        nt = rng.choice([2, 3])
        ths = [";".join(["NEXT"] * rng.randint(1, 4)) for _ in range(nt)]
        ths.append(";".join(rng.choice(["DBG", "GSER"]) for _ in range(rng.randint(1, 3))))
        out.append("o%d|100||%s|%s%d|mode=O,nomodel,gen0=%d" % (i, "#".join(ths), rng.choice("rp"), rng.randint(1, 10 ** 9), rng.choice([0, 0, 5, 10 ** 6])))
    return out


def judge_repro(rec, prog, info):
    """Two generators with the same namespace issue the same ids for the same number of calls:
    every id equals uuid5(namespace, str(k)) for the k-th fetch_add in the trace."""
    import uuid
    from .lvl import NS_MAIN
    want = []
    for tid, ev in info.get("steps", []):
        if ev.startswith("FA:gen:"):
            _, _, n, old = ev.split(":")
            if n != "1":
                return "generator advanced by %s in one step" % n
            want.append(int(old))
    g0 = [int(x[5:]) for x in prog["flags"].split(",") if x.startswith("gen0=")]
    if want and g0 and want[0] != g0[0]:
        return ("a generator restored from the serialized state of one that had issued %d ids continues at counter %d: it does not issue "
                "the ids another generator with this namespace issues after the same number of calls" % (g0[0], want[0]))
    if want and want != [(want[0] + i) % (1 << 64) for i in range(len(want))]:
        return "generator counters handed out (in trace order) are not c0, c0+1, ...: %s" % want[:10]
    for tag, rest in rec["ev"]:
        if tag == "S" and " ST:gen" in rest:
            return "the generator counter is overwritten by a plain store (%s)" % rest
    return None


def run(tier, seed, replay=None):
    return run_conc_property(
        "C14", tier, seed, replay,
        judges=[("ids distinct and derived from (namespace, counter)", lambda rec, prog, info: conc.judge_ids(rec, info, ns_of(prog))),
                ("counter steps", judge_repro)],
        extra_lines=extra_lines, n_quick=1200, n_thorough=30000, flags="mode=O,proj=gen+map+tk", final_keys=())
