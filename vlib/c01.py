"""C01 — level aggregates always equal the sums over the resting orders."""
from . import gen, lvl
from .lvlprop import *


def judge(rec, price, ops):
    bad = []
    for o in rec["ops"]:
        I = o["I"]
        if I in ("panic",):
            bad.append((o["i"], "the implementation panicked (an aggregate over/underflowed in a checked build?)"))
            break
        if I in ("skipped", "timeout") or I.startswith("read="):
            continue
        for part, who in zip(I.split(" || "), ("level", "restored copy")):
            d = lvl.kv(part)
            if "cv" not in d:
                continue
            if d.get("built", "ok") != "ok":
                continue
            e = state_agg_ok(d)
            if e:
                bad.append((o["i"], "%s after `%s`: %s" % (who, o["op"][:60], e)))
            if "total" in d and int(d["total"]) != int(d["cv"]) + int(d["ch"]):
                bad.append((o["i"], "total_quantity %s != visible + hidden" % d["total"]))
        if bad:
            break
    return bad


def coq_queries(rec, price, ops):
    out = []
    for o in rec["ops"]:
        I = o["I"]
        if I in ("panic", "skipped", "timeout") or I.startswith("read="):
            continue
        for part in I.split(" || "):
            d = lvl.kv(part)
            if "cv" in d and "vec" in d and d.get("built", "ok") == "ok":
                out.append((o["i"], "agg %s %s %s %s" % (d["cv"], d["ch"], d["cc"], d["vec"]),
                            "after `%s`: the aggregates do not describe the listed orders" % o["op"][:60]))
    return out


def corr_filter(text):
    # C01 depends on the aggregates, the listing and what constructors do; not on statistics or match details
    return any(k in text for k in (" cv ", " ch ", " cc ", "listing", "total", "constructor", "permutation", "panic", "model="))


def make_cases(rng, tier):
    n = 1500 if tier == "quick" else 40000
    cs = histories(rng, n, forks=True)
    # external data with lying aggregates
    for i in range(n // 10):
        g = lvl.HistGen(rng)
        ops = g.history(rng.randint(2, 8))
        orders = [g.new_order() for _ in range(rng.randint(0, 5))]
        ops.append("EXT %s %d %d %d [%s]" % (rng.choice(["snap", "ref", "data", "text", "pkg", "pjson"]), rng.choice([0, 7, 1 << 63]),
                                            rng.choice([0, 3, (1 << 64) - 1]), rng.choice([0, 9]), ",".join(orders)))
        ops += ["MATCH %d u7000" % rng.choice([1, 5, 50]), "SNAP"]
        cs.append((g.price, ops))
    return cs


def run(tier, seed, replay=None):
    return run_property("C01", tier, seed, replay, make_cases=make_cases, judge=judge, corr_filter=corr_filter,
                        nontrivial=nontrivial_default, coq_queries=coq_queries)
