"""C11 — a restored level trades in the same order as the level it was taken from."""
from . import gen, lvl, kfree
from .lvlprop import *
from .c04 import tx_core


def clean_state(M):
    """Clean (Proofs/RebuildProofs.v) read off the model's state line: no duplicate tickets, every
    ticket live, every order covered, timestamps strictly increasing along the ticket list."""
    d = lvl.kv(M.split(" || ")[0])
    tk = gen.parse_list(d["tk"])
    m = {gen.parse_order(o)["id"]: gen.parse_order(o) for o in gen.parse_list(d["map"])}
    stale = [k for k in tk if k not in m] or len(set(tk)) != len(tk) or any(k not in tk for k in m)
    live = []
    for k in tk:
        if k in m and k not in live:
            live.append(k)
    ts = [m[k]["ts"] for k in live]
    return (not stale), all(a < b for a, b in zip(ts, ts[1:]))


def judge(rec, price, ops):
    forked = False
    for o in rec["ops"]:
        I = o["I"]
        if I in ("panic", "timeout"):
            return [(o["i"], "implementation " + I)]
        if o["op"].startswith("FORK"):
            forked = True
            continue
        if not forked or " || " not in I:
            continue
        a, b = [lvl.kv(x) for x in I.split(" || ")]
        if o["op"].startswith("MATCH"):
            if tx_core(a["txs"]) != tx_core(b["txs"]):
                return [(o["i"], "original trades %s, restored copy trades %s" % (a["txs"], b["txs"]))]
        elif o["op"].startswith("UPD"):
            if a["out"] != b["out"]:
                return [(o["i"], "update returns %s on the original, %s on the restored copy" % (a["out"], b["out"]))]
    return []


def same_as_model(o):
    """Does the model reproduce the implementation's answers (original and copy) at this operation?"""
    I, M = o["I"], o["M"]
    if not M or " || " not in I or " || " not in M:
        return False
    for a, b in zip(I.split(" || "), M.split(" || ")):
        da, db = lvl.kv(a), lvl.kv(b)
        if "txs" in da:
            if "txs" not in db or tx_core(da["txs"]) != tx_core(db["txs"]):
                return False
        if "out" in da and da["out"] != db.get("out"):
            return False
    return True


def classify(rec, price, ops, i, text):
    # known findings K3/K2 only if the faithful model shows the same divergence at that operation
    for o in rec["ops"]:
        if o["i"] == i and not same_as_model(o):
            return None
    prev = None
    for o in rec["ops"]:
        if o["op"].startswith("FORK"):
            if prev is None or prev["M"] in (None, "-", "skipped"):
                return None
            no_stale, ts_strict = clean_state(prev["M"])
            if not ts_strict:
                return "K3 queue order differed from strict timestamp order when the snapshot was taken"
            if not no_stale:
                return "K2 the original held stale or duplicate tickets when the snapshot was taken"
            return None
        if o["M"] and "tk=" in o["M"]:
            prev = o
    return None


def corr_filter(text):
    return any(k in text for k in ("transaction", "filled", " rem ", "panic", "model=", " out ", "fork", "constructor", "permutation"))


def make_cases(rng, tier):
    n = 1200 if tier == "quick" else 30000
    cs = []
    for i in range(n // 2):      # clean before the snapshot: any divergence is a new violation
        g = kfree.KFree(rng, cancels=False, amends=False)
        pre = g.history(rng.randint(3, 15))
        h = lvl.HistGen(rng, price=g.price, rebuilds=False, reads=False, forks=False)
        h.next_id = 500
        h.ts = g.ts + 5
        cont = [x for x in h.history(rng.randint(4, 15))]
        cs.append((g.price, pre + ["FORK " + lvl.VIAS[i % len(lvl.VIAS)]] + cont + ["MATCH 18446744073709551615 u7999"]))
    for i in range(max(10, n // 100)):      # long clean prefixes
        g = kfree.KFree(rng, cancels=False, amends=False)
        pre = g.history(rng.randint(100, 300))
        h = lvl.HistGen(rng, price=g.price, rebuilds=False, reads=False, forks=False)
        h.next_id = 5000
        h.ts = g.ts + 5
        cs.append((g.price, pre + ["FORK " + lvl.VIAS[i % len(lvl.VIAS)]] + h.history(rng.randint(20, 80)) + ["MATCH 18446744073709551615 u7999"]))
    for i in range(n // 2):
        g = lvl.HistGen(rng, rebuilds=False, reads=False, forks=False)
        pre = g.history(rng.randint(3, 20))
        cont = g.history(rng.randint(3, 12))[0:]
        cs.append((g.price, pre + ["FORK " + rng.choice(lvl.VIAS)] + cont + ["MATCH 18446744073709551615 u7999"]))
    cs += deep_histories(rng, 10 if tier == "quick" else 300, fork=True)
    return cs


def run(tier, seed, replay=None):
    return run_property("C11", tier, seed, replay, make_cases=make_cases, judge=judge, corr_filter=corr_filter,
                        classify=classify, nontrivial=nontrivial_default)
