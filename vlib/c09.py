"""C09 — tampered, truncated or wrong-version snapshot packages are rejected.

proofs:  Properties/C09.v (restore_sound for the three entry points, ser_inj, tamper,
         restore_roundtrip, prefix_rejected for the parser model, hex_lower injective).
tie:     (i)   the implementation's package (value and JSON text) = package_new / text_of_package
               of the model on the same level content,
         (ii)  payload: serde_json::to_vec(snapshot) = the model's `ser`, and the package's checksum =
               hashlib.sha256 (independent implementation) of those bytes,
         (iii) verdicts (restored content or error) of from_snapshot_json on AST-level mutants of the
               package text and of validate / into_snapshot / from_snapshot_package on edited package
               values, model vs implementation (swap / drop / duplicate an order, edited numbers and
               tags, aliases, missing / duplicate / unknown fields, version and checksum edits, lying
               aggregates, checksum recomputed over altered content, and the order ids RESPELLED
               (jsn.id_spellings: non-canonical spellings the uuid / ulid crates accept — upper / mixed
               case, simple / braced / urn uuids, lower-case ulids, 130-bit ulid aliases — which restore
               the identical content because the checksum is taken over the re-serialized snapshot;
               spellings of another id and near misses, which must be rejected); a python oracle of the
               two formats says which is which and model and implementation must agree with it).
judge (a search on the IMPLEMENTATION, not a proof): for generated level contents, every single-byte
         substitution (all 255 other byte values), deletion, insertion (a set of bytes) at every offset,
         every truncation point, sampled pairs of such faults and structural edits of the serialized
         package: from_snapshot_json must reject (Err, not panic), or accept with content identical to
         the original (price, aggregates, listing, parsed order sequence field by field, and the accepted
         package's version, checksum text and stored aggregates)."""
import hashlib
import json as pyjson
import random

from . import gen
from . import jsn
from .common import *
from .jsn import hx, unhx, Obj, U64


def expected_restored(price, listing):
    """Content of the level restored from a package of `listing` (unique ids): saturating sums."""
    ds = [gen.parse_order(o) for o in listing]
    vis = min(sum(d["vis"] for d in ds), U64)
    hid = min(sum(d["hid"] for d in ds), U64)
    srt = sorted(listing, key=lambda o: (gen.parse_order(o)["ts"], gen.parse_order(o)["id"]))
    return "ok %d;%d;%d;%d;[%s] seq=[%s] pkg=1;x%%s;%d;%d;%d;%d" % (price, vis, hid, len(listing), ",".join(srt), ",".join(listing),
                                                                      price, vis, hid, len(listing))


def apply_edits(base, edits):
    b = bytearray(base)
    for e in edits.split("+"):
        k, rest = e[0], e[1:]
        if k in "si":
            p, v = rest.split(":")
            p, v = int(p), int(v)
            if k == "s":
                b[p] = v
            else:
                b.insert(p, v)
        elif k == "d":
            del b[int(rest)]
        elif k == "t":
            del b[int(rest):]
    return bytes(b)


def rand_edit(rng, n, text):
    k = rng.random()
    if k < 0.45:
        p = rng.randrange(n)
        r = rng.random()
        if r < 0.4 and chr(text[p]).isdigit():
            v = ord(rng.choice("0123456789"))
        elif r < 0.6 and chr(text[p]) in "0123456789abcdef":
            v = ord(rng.choice("0123456789abcdef"))
        elif r < 0.8:
            v = text[p] ^ rng.choice([1, 2, 4, 8, 16, 32, 64, 128])
        else:
            v = rng.randrange(256)
        return "s%d:%d" % (p, v)
    if k < 0.7:
        return "d%d" % rng.randrange(n)
    if k < 0.95:
        return "i%d:%d" % (rng.randint(0, n), rng.choice([32, 10, 48, 49, 57, 34, 44, 58, 123, 125, 91, 93, 45, 101, 46, rng.randrange(256)]))
    return "t%d" % rng.randint(0, n)


def package_mutants(rng, ast, model, n):
    """AST-level mutants of a package text -> [(kind, text)].  'rehash' mutants carry a checksum
    recomputed (through the model's `ser` + hashlib) over their altered snapshot."""
    out = []
    snap_i = [i for i, (k, _) in enumerate(ast) if k == "snapshot"][0]
    snap = ast[snap_i][1]

    def with_snapshot(s2):
        a = jsn.clone(ast)
        a[snap_i] = ("snapshot", s2)
        return a

    def set_key(o, key, v):
        o = jsn.clone(o)
        for i, (k, _) in enumerate(o):
            if k == key:
                o[i] = (k, v)
        return o

    orders = [v for (k, v) in snap if k == "orders"][0]
    # digit shifts between ADJACENT numeric fields (the concatenation of the two decimal texts is unchanged):
    # a checksum computed over undelimited field texts cannot see these
    hdr = ["price", "visible_quantity", "hidden_quantity", "order_count"]
    for a_key, b_key in zip(hdr, hdr[1:]):
        av = [v for (k, v) in snap if k == a_key][0]
        bv = [v for (k, v) in snap if k == b_key][0]
        if not (isinstance(av, int) and isinstance(bv, int)) or av < 0 or bv < 0:
            continue
        sa, sb = str(av), str(bv)
        cands = []
        for k in range(1, len(sb)):
            if len(sb[k:]) == 1 or sb[k] != "0":
                cands.append((sa + sb[:k], sb[k:]))
        for k in range(1, len(sa)):
            if sa[-k] != "0" or k == len(sb) + 0:
                cands.append((sa[:-k], sa[-k:] + sb))
        cands.append((sa + sb, "0")) if sb != "0" else None
        for (x, y) in cands[:6]:
            if int(x) <= U64 and int(y) <= U64 and (int(x), int(y)) != (av, bv):
                out.append(("digit_shift_%s_%s" % (a_key, b_key),
                            with_snapshot(set_key(set_key(snap, a_key, int(x)), b_key, int(y)))))
    for _ in range(n):
        r = rng.random()
        if r < 0.10:
            out.append(("version", set_key(ast, "version", rng.choice([0, 2, 3, (1 << 32) - 1, 1 << 32, (1 << 32) + 1, (1 << 33) + 1, (1 << 63) + 1, (1 << 64) - (1 << 32) + 1, -1, "1", None, [1]]))))
        elif r < 0.22:
            cs = [v for (k, v) in ast if k == "checksum"][0]
            if isinstance(cs, str) and cs:
                i = rng.randrange(len(cs))
                c2 = rng.choice([cs[:i] + rng.choice("0123456789abcdef") + cs[i + 1:], cs.upper(), cs[:-1], cs + "0", "",
                                 hashlib.sha256(b"").hexdigest(), cs[::-1]])
            else:
                c2 = "00"
            out.append(("checksum", set_key(ast, "checksum", c2)))
        elif r < 0.34:
            key = rng.choice(["price", "visible_quantity", "hidden_quantity", "order_count"])
            cur = [v for (k, v) in snap if k == key][0]
            v2 = rng.choice([cur + 1, cur - 1, 0, U64, rng.choice(jsn.NUMS)]) if isinstance(cur, int) else 0
            out.append(("lying_" + key, with_snapshot(set_key(snap, key, v2))))
        elif r < 0.52 and orders:
            k = rng.choice(["arr_swap", "arr_drop", "arr_dup", "arr_rev"])
            o2 = jsn.clone(orders)
            i = rng.randrange(len(o2))
            if k == "arr_swap" and len(o2) >= 2:
                j = rng.choice([x for x in range(len(o2)) if x != i])
                o2[i], o2[j] = o2[j], o2[i]
            elif k == "arr_drop":
                del o2[i]
            elif k == "arr_dup":
                o2.insert(rng.randint(0, len(o2)), jsn.clone(o2[i]))
            else:
                o2.reverse()
            out.append(("orders_" + k, with_snapshot(set_key(snap, "orders", o2))))
        elif r < 0.62:
            # an altered snapshot whose checksum the fault recomputed: acceptance is expected
            if rng.random() < 0.35:
                # a sealed but SELF-INCONSISTENT snapshot: the order list emptied / shortened / grown while the stored
                # count and totals stay (a valid checksum says nothing about consistency)
                k = rng.choice(["inconsistent_no_orders", "inconsistent_one_less", "inconsistent_count_zero"])
                o2 = jsn.clone(orders)
                if k == "inconsistent_no_orders":
                    s2 = set_key(snap, "orders", [])
                elif k == "inconsistent_one_less" and o2:
                    s2 = set_key(snap, "orders", o2[:-1])
                else:
                    s2 = set_key(snap, "order_count", 0)
            else:
                k, s2 = jsn.mutate(rng, snap)
            d = model.ask("OFJSON snapshot " + hx(jsn.dump(s2)))
            if d.startswith("ok "):
                ser = model.ask("SER " + d[3:])
                if ser.startswith("ok "):
                    a = set_key(with_snapshot(s2), "checksum", hashlib.sha256(unhx(ser[3:])).hexdigest())
                    out.append(("rehash:" + k, a))
        elif r < 0.80 and jsn.id_nodes(snap):
            # an order id respelled: same id (restores identically), another id or a near miss (rejected)
            path, want = rng.choice(jsn.id_nodes(snap))
            orig = jsn.get(snap, path)
            sp = jsn.id_spellings(rng, orig)
            if rng.random() < 0.4:      # the accepted spellings are the minority of the list: give them weight
                sp = [x for x in sp if jsn.classify(orig, x[1], want) == "same"] or sp
            kind, t = rng.choice(sp)
            out.append(("id_spell_%s:%s" % (jsn.classify(orig, t, want), kind), with_snapshot(jsn.put(snap, path, t))))
        else:
            k, a = jsn.mutate(rng, ast)
            if rng.random() < 0.2:
                k2, a = jsn.mutate(rng, a)
                k += "+" + k2
            out.append((k, a))
    return [(k, jsn.dump(a, rng, 0.02)) for (k, a) in out]


def run(tier, seed, replay=None):
    ck = Check("C09", tier, seed)
    rng = random.Random(seed)
    pr = check_proofs("C09")
    for t in pr["theorems"]:
        ck.oblige("theorem " + t, pr["ok"], pr["failed"] or "")
    if not pr["theorems"]:
        ck.oblige("Properties/C09.v", False, pr["failed"] or "")
    ck.assumptions = ["Print Assumptions: " + (", ".join(pr["assumptions"]) or "Closed under the global context")]
    jsn.build_modelrun_json()
    build_harness("debug")
    profiles = ["debug"]
    if tier == "thorough":
        build_harness("release")
        profiles.append("release")
    quick = tier == "quick"
    n_levels = 40 if quick else 160
    n_mut = 60 if quick else 250
    n_pairs = 8000 if quick else 40000
    n_edits = 25 if quick else 80
    ins_bytes = bytes([32, 9, 10, 13, 48, 49, 57, 34, 44, 58, 123, 125, 91, 93, 45, 46, 101, 0, 92, 255]) if quick else bytes(range(256))

    model = jsn.Model()
    pkg_bad, pay_bad, ver_bad, viol = [], [], [], []
    evals = 0
    scan_tot = dict(mutants=0, rejected=0, accepted=0, panics=0)
    pair_tot = dict(mutants=0, rejected=0, accepted=0, panics=0)
    ast_tot = dict(mutants=0, rejected=0, accepted_same=0, accepted_rehash=0)
    kinds_seen = {}
    spell_tot = dict(same=0, other=0, reject=0)
    spell_kinds = set()
    sizes = []
    samples = []

    def judge(prof, base_text, base_ans, edit, ans, how):
        """ans: 'r' | 'p' | 'a <content>' (short form) for the mutant of base_text."""
        if ans == "r":
            return
        if ans == "p":
            viol.append(dict(kind="restore", how=how, edit=edit, base_text_hex=hx(base_text), profile=prof,
                             mutant_text_hex=hx(apply_edits(base_text, edit)) if edit else None,
                             why="from_snapshot_json panicked instead of reporting an error"))
        elif "ok " + ans[2:] != base_ans:
            viol.append(dict(kind="restore", how=how, edit=edit, base_text_hex=hx(base_text), profile=prof,
                             mutant_text_hex=hx(apply_edits(base_text, edit)) if edit else None,
                             original=base_ans, restored=ans[2:],
                             why="a tampered package was accepted with content different from what was snapshotted"))

    for prof in profiles:
        impl = jsn.Impl(prof)
        if replay:
            r = pyjson.load(open(replay))
            if r.get("kind") == "package_value":
                x = impl.ask("PKGEDIT " + r["package"])
                evals += 1
                if x.startswith("validate=ok") and r["package"] != r["original"]:
                    viol.append(dict(r, answer=x[:400], profile=prof))
                impl.close()
                continue
            if r.get("kind") == "package":
                x = impl.ask("PKGNEW %d [%s]" % (r["price"], ",".join(r["orders"])))
                evals += 1
                if not x.startswith("ok "):
                    viol.append(dict(r, answer=x, profile=prof))
                impl.close()
                continue
            if "base_text_hex" not in r:
                impl.close()
                continue
            base_text = unhx(r["base_text_hex"])
            mut = unhx(r["mutant_text_hex"])
            if mut == base_text and r.get("original", "").startswith("ok "):
                # an UNTOUCHED package: rebuild it from the level content with the implementation under test
                # (the stored text carries the checksum of the code that produced it)
                content = r["original"].split(" ")[1]
                price = int(content.split(";")[0])
                orders = content[content.index("["):]
                x = impl.ask("PKGNEW %d %s" % (price, orders))
                if x.startswith("ok "):
                    pkg, t1, t2, payload = x[3:].split(" ")
                    base_text = mut = unhx(t1)
                    r = dict(r, original=None)
                    # same judgement as the main run: the stored checksum must be SHA-256 of the payload
                    digest = hashlib.sha256(unhx(payload)).hexdigest()
                    stored = unhx(pkg.split(";")[1][1:]).decode()
                    if stored != digest:
                        viol.append(dict(kind="restore", how="untouched package", base_text_hex=t1, mutant_text_hex=t1, profile=prof,
                                         checksum_in_package=stored, sha256_of_payload=digest,
                                         why="the checksum stored in a fresh package is not the SHA-256 of its snapshot payload"))
            base_ans = r.get("original") or impl.ask("BASE " + hx(base_text))
            a = impl.ask("RESTORE " + hx(mut))
            evals += 1
            bad = (a != base_ans) if mut == base_text else (a == "panic" or (a.startswith("ok ") and a != base_ans))
            if bad:
                viol.append(dict(kind="restore", how=r.get("how", "replay"), edit=r.get("edit"), base_text_hex=hx(base_text),
                                 mutant_text_hex=hx(mut), original=base_ans, restored=a, profile=prof,
                                 why=r.get("why", "accepted with different content")))
            impl.close()
            continue

        for li in range(n_levels):
            n = [0, 1, 1, 2, 2, 3, 4, 6][li % 8] if li < 16 else rng.choice([1, 2, 3, 5, 8])
            # a few LARGE levels: packages of 20-40 KB cross every power-of-two buffer size up to 32 KiB
            big_level = li in ((9,) if quick else (9, 41, 73, 105))
            if big_level:
                n = rng.choice([100, 140, 180])
            tied = (li % 5 == 4)
            price = jsn.rq(rng)
            orders = jsn.rlevel_orders(rng, n, price=rng.choice([None, price]), distinct_ts=not tied)
            if tied and orders:
                ts0 = gen.parse_order(orders[0])["ts"]
                orders = [":".join(o.split(":")[:4] + [str(ts0)] + o.split(":")[5:]) for o in orders]
            a = impl.ask("PKGNEW %d [%s]" % (price, ",".join(orders)))
            evals += 1
            if not a.startswith("ok "):
                viol.append(dict(kind="package", price=price, orders=orders, answer=a, profile=prof,
                                 why="snapshot_package / snapshot_to_json failed on a valid level"))
                continue
            pkg, t1, t2, payload = a[3:].split(" ")
            pp = pkg.split(";")
            listing = gen.parse_list(pp[6])
            text = unhx(t1)
            sizes.append(len(text))
            # the listing is an oracle for ties: it must be a timestamp-sorted permutation of the input
            if sorted(listing) != sorted(orders) or [gen.parse_order(o)["ts"] for o in listing] != sorted(gen.parse_order(o)["ts"] for o in orders):
                viol.append(dict(kind="package", price=price, orders=orders, listing=listing, profile=prof,
                                 why="the snapshot does not list exactly the resting orders by timestamp"))
            # ---- (i) package value and text
            m = model.ask("PKGNEW %d;0;0;0;[%s]" % (price, ",".join(listing)))
            if m != "ok %s %s" % (pkg, t1):
                pkg_bad.append(dict(price=price, orders=orders, implementation=a[:300], model=m[:300], profile=prof))
            if not tied:
                m2 = model.ask("PKGOF %d [%s]" % (price, ",".join(orders)))
                if m2 != "ok %s %s" % (pkg, t1) or t2 != t1:
                    pkg_bad.append(dict(price=price, orders=orders, implementation=a[:300], model=m2[:300], profile=prof,
                                        what="snapshot_package of the level (listing by timestamp)"))
            # ---- (ii) payload and checksum
            ser = model.ask("SER " + ";".join(pp[2:]))
            digest = hashlib.sha256(unhx(payload)).hexdigest()
            if ser != "ok " + payload or unhx(pp[1][1:]).decode() != digest:
                pay_bad.append(dict(price=price, orders=orders, payload_impl=payload[:200], payload_model=ser[:200],
                                    checksum=pp[1], sha256_of_payload=digest, profile=prof))
            # ---- the untouched package restores to exactly the content
            base_ans = impl.ask("BASE " + t1)
            exp = expected_restored(price, listing) % hx(digest)
            if base_ans != exp:
                viol.append(dict(kind="restore", how="untouched package", base_text_hex=t1, mutant_text_hex=t1, profile=prof,
                                 original=exp, restored=base_ans,
                                 why="restoring the untouched package does not yield the snapshotted content"))
            mb = model.ask("RESTORE " + t1)
            if mb != base_ans:
                ver_bad.append(dict(text_hex=t1, implementation=base_ans, model=mb, mutation="none", profile=prof))
            if len(samples) < 3:
                samples.append("%d [%s] -> %s" % (price, ",".join(orders), text.decode()[:300]))

            # ---- judge 1: exhaustive single faults
            if big_level:
                # windows around every multiple of 4096 (shifted right by the wrapper in front of the hashed payload)
                # plus a random sample of other offsets
                wins = [(max(0, k - 24), min(len(text), k + 120)) for k in range(4096, len(text), 4096)]
                wins += [(p, p + 1) for p in sorted(rng.sample(range(len(text)), 150))]
                acc, pan, st = impl.scan(bytes([48, 57, 102]), bytes([48, 32]), bytes([1, 4]), windows=wins)
            elif li < (8 if quick else 40) or len(text) < 700:
                acc, pan, st = impl.scan(bytes(range(256)), ins_bytes, b"")
            else:
                acc, pan, st = impl.scan(bytes([48, 49, 57, 32, 34, 44, 125, 102, 0]), ins_bytes[:20], bytes([1, 2, 4, 8, 16, 32, 64, 128]))
            for k in scan_tot:
                scan_tot[k] += st[k]
            evals += st["mutants"]
            for (e, c) in acc:
                judge(prof, text, base_ans, e, "a " + c, "single-byte fault")
            for e in pan:
                judge(prof, text, base_ans, e, "p", "single-byte fault")

            # ---- judge 2: sampled pairs (and a few triples)
            L = len(text)
            edits = []
            for _ in range(n_pairs // n_levels if not big_level else 20):
                e1 = rand_edit(rng, L, text)
                t_mid = apply_edits(text, e1)
                if not t_mid:
                    continue
                e = e1 + "+" + rand_edit(rng, len(t_mid), t_mid)
                if rng.random() < 0.1:
                    t3 = apply_edits(text, e)
                    if t3:
                        e += "+" + rand_edit(rng, len(t3), t3)
                edits.append(e)
            ans = impl.ask_many(["M " + e for e in edits])
            evals += len(edits)
            for e, x in zip(edits, ans):
                pair_tot["mutants"] += 1
                if x == "r":
                    pair_tot["rejected"] += 1
                elif x == "p":
                    pair_tot["panics"] += 1
                elif x.startswith("a "):
                    pair_tot["accepted"] += 1
                else:
                    raise RuntimeError("unexpected M answer %s for %s" % (x, e))
                judge(prof, text, base_ans, e, x, "pair of byte faults")

            # ---- (iii) + judge 3: structural edits, model vs implementation and against the original content
            ast = jsn.parse_text(text.decode())
            muts = package_mutants(rng, ast, model, (n_mut if li < 12 or not quick else n_mut // 3) if not big_level else 12)
            cmds = ["RESTORE " + hx(t) for (_, t) in muts]
            ai = impl.ask_many(cmds)
            am = model.ask_many(cmds)
            evals += len(cmds)
            for (k, t), x, y in zip(muts, ai, am):
                kinds_seen[k.split("+")[0].split(":")[0]] = kinds_seen.get(k.split("+")[0].split(":")[0], 0) + 1
                ast_tot["mutants"] += 1
                if x != y:
                    ver_bad.append(dict(text_hex=hx(t), text=t[:500], implementation=x, model=y, mutation=k, profile=prof))
                elif k.startswith("id_spell_"):
                    spell_tot[k.split(":")[0][9:]] += 1
                    spell_kinds.add(k.split(":")[1])
                    if (x == base_ans) != k.startswith("id_spell_same") or (x != "err") != k.startswith("id_spell_same"):
                        ver_bad.append(dict(text_hex=hx(t), text=t[:500], implementation=x, model=y, mutation=k, profile=prof,
                                            why="model and implementation agree with each other but not with the python oracle of the "
                                                "uuid / ulid formats (same id: restores identically; other id / near miss: rejected)"))
                if x == "err":
                    ast_tot["rejected"] += 1
                elif x == "panic":
                    viol.append(dict(kind="restore", how="structural edit: " + k, base_text_hex=t1, mutant_text_hex=hx(t), profile=prof,
                                     why="from_snapshot_json panicked instead of reporting an error"))
                elif k.startswith("rehash"):
                    ast_tot["accepted_rehash"] += 1     # the fault recomputed the digest: a legitimate package
                elif x != base_ans:
                    viol.append(dict(kind="restore", how="structural edit: " + k, base_text_hex=t1, mutant_text_hex=hx(t), profile=prof,
                                     original=base_ans, restored=x,
                                     why="a tampered package was accepted with content different from what was snapshotted"))
                elif k.split("+")[0].split(":")[0] == "version" and '"version":1,' not in t.replace(" ", "") and '"version":1}' not in t.replace(" ", ""):
                    viol.append(dict(kind="restore", how="structural edit: " + k, base_text_hex=t1, mutant_text_hex=hx(t), profile=prof,
                                     original=base_ans, restored=x,
                                     why="a package whose format version is not the supported one was restored"))
                else:
                    ast_tot["accepted_same"] += 1

            # ---- (iii) package values through validate / into_snapshot / from_snapshot_package
            ecmds = []
            for _ in range(n_edits):
                q = list(pp)
                r = rng.random()
                if r < 0.2:
                    q[0] = str(rng.choice([0, 2, 3, (1 << 32) - 1]))
                elif r < 0.4:
                    cs = unhx(q[1][1:]).decode()
                    i = rng.randrange(len(cs))
                    q[1] = "x" + hx(rng.choice([cs[:i] + rng.choice("0123456789abcdef") + cs[i + 1:], cs.upper(), cs[:-1], "", cs + "0"]))
                elif r < 0.6:
                    i = rng.choice([2, 3, 4, 5])
                    q[i] = str(rng.choice([0, 1, U64, int(q[i]) + 1 if int(q[i]) < U64 else 0]))
                elif r < 0.85 and listing:
                    l2 = list(listing)
                    k = rng.random()
                    j = rng.randrange(len(l2))
                    if k < 0.3 and len(l2) > 1:
                        l2[0], l2[-1] = l2[-1], l2[0]
                    elif k < 0.5:
                        del l2[j]
                    elif k < 0.7:
                        l2.append(l2[j])
                    else:
                        l2[j] = jsn.rorder(rng, oid=gen.parse_order(l2[j])["id"])
                    q[6] = "[%s]" % ",".join(l2)
                ecmds.append("PKGEDIT " + ";".join(q))
            ei = impl.ask_many(ecmds)
            em = model.ask_many(ecmds)
            evals += len(ecmds)
            for c, x, y in zip(ecmds, ei, em):
                if x != y:
                    ver_bad.append(dict(value=c[8:], implementation=x[:400], model=y[:400], mutation="package value edit", profile=prof))
                # judge: an edited package value that validates must be the original one
                if x.startswith("validate=ok") and c[8:] != pkg:
                    same_content = c[8:].split(";")[2:] == pp[2:] and c[8:].split(";")[0] == pp[0] and c[8:].split(";")[1] == pp[1]
                    if not same_content:
                        viol.append(dict(kind="package_value", package=c[8:], original=pkg, answer=x[:400], profile=prof,
                                         why="an edited package value passes validate()"))
        impl.close()
    model.close()

    ck.cov["evaluations"] = evals
    ck.cov["distinct_nontrivial"] = scan_tot["mutants"] + pair_tot["mutants"] + ast_tot["mutants"]
    ck.cov["rule"] = ("level contents (0..8 orders, all 7 order types, uuid and ulid ids incl. nil / all-ones, quantities in {0,1,2,2^53+1,2^63,"
                      "u64::MAX-1,u64::MAX,random}, GTD payloads, tied timestamps in every 5th level); per content: the real package JSON, then "
                      "every single-byte substitution (255 values per offset on small texts, a fixed set + bit flips on large ones), deletion, "
                      "insertion (a byte set) at every offset, every truncation, sampled pairs/triples, AST-level structural edits; "
                      "non-trivial = mutants actually executed on the implementation")
    ck.cov["samples"] = samples
    ck.cov["exhaustive"] = False
    ck.extra["trusted_base"] = TRUSTED_BASE + jsn.TRUSTED_JSON
    ck.cov["traces_validated_against_impl"] = evals
    ck.extra["input_distribution"] = dict(levels=n_levels * len(profiles), text_bytes_min_max=[min(sizes or [0]), max(sizes or [0])],
                                          single_faults=scan_tot, pairs=pair_tot, structural=ast_tot, structural_kinds=kinds_seen,
                                          id_spellings=dict(spell_tot, kinds=len(spell_kinds)),
                                          profiles=profiles, sha256_calls_for_model=model.digests)
    if not replay:
        ck.oblige("correspondence (i): package value and JSON text = package_new / text_of_package of the model", not pkg_bad,
                  "%d disagreements" % len(pkg_bad))
        ck.oblige("correspondence (ii): payload = ser of the model, checksum = hashlib.sha256(payload)", not pay_bad,
                  "%d disagreements" % len(pay_bad))
        ck.oblige("correspondence (iii): restore verdicts and contents agree on structural mutants and edited package values", not ver_bad,
                  "%d disagreements" % len(ver_bad))
        ck.oblige("correspondence (iii, id spellings): packages whose order ids are respelled — %d same-id spellings restore identically, "
                  "%d other-id and %d near-miss spellings are rejected, by model, implementation and the python oracle alike (%d kinds)"
                  % (spell_tot["same"], spell_tot["other"], spell_tot["reject"], len(spell_kinds)),
                  not [d for d in ver_bad if str(d.get("mutation", "")).startswith("id_spell")] and min(spell_tot.values()) > 0
                  and len(spell_kinds) >= 40,
                  "%s, %d kinds" % (spell_tot, len(spell_kinds)))
    ck.oblige("judge: every fault is rejected or restores exactly the snapshotted content (implementation)", not viol,
              "%d failures" % len(viol))

    if viol:
        # a tampered package that was ACCEPTED with other content is the most telling replay: put those first
        viol.sort(key=lambda d: ("tampered package was accepted" not in str(d.get("why")),
                                 d.get("kind") != "restore" or not d.get("mutant_text_hex"),
                                 len(d.get("mutant_text_hex") or "") + len(d.get("base_text_hex") or "")))
        d = dict(viol[0])
        if d.get("mutant_text_hex"):
            d["mutant_text"] = unhx(d["mutant_text_hex"]).decode("utf-8", "replace")[:2000]
        d.update(failures=len(viol), replay_cmd="./check C09 --replay <this file>")
        ck.violation("fail", d)
    elif pkg_bad or pay_bad or ver_bad or not pr["ok"]:
        first = (pkg_bad or pay_bad or ver_bad or [None])[0]
        ck.violation("unproved", dict(kind="correspondence",
                                      broken=("package correspondence" if pkg_bad else "payload / checksum correspondence" if pay_bad
                                              else "restore verdict correspondence" if ver_bad else pr["failed"]),
                                      theorem=(None if pr["ok"] else "Properties/C09.v: " + str(pr["failed"])),
                                      first_disagreement=first, disagreements=len(pkg_bad) + len(pay_bad) + len(ver_bad),
                                      log=pr["log"][-1500:]),
                     note="no-failing-input-found")
    return ck.finish("cd /verif/coq && make Properties/C09.vo  (+ ./check C09 for the correspondence and the fault search)")
