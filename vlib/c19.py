"""C19 — the exported order queue is a FIFO with lookup and removal by id."""
import json
import random
import subprocess

from . import gen, lvl
from .common import *


def run_queue(lines, profile="debug"):
    p = subprocess.run([harness_bin(profile), "queue", MODELRUN], input="\n".join(lines) + "\n", text=True,
                       stdout=subprocess.PIPE, timeout=900)
    recs, cur = {}, None
    for l in p.stdout.splitlines():
        tag, _, rest = l.partition(" ")
        if tag == "C":
            cid, idx, op = rest.split(" ", 2)
            cur = dict(i=int(idx), op=op, I=None, M=None)
            recs.setdefault(cid, []).append(cur)
        elif tag == "I":
            cur["I"] = rest
        elif tag == "M":
            cur["M"] = rest
    return recs


def gen_case(rng, n, fresh_only, ids_all=None):
    ids_all = ids_all or (["u%d" % i for i in range(1, 7)] + ["l%d" % i for i in range(1, 3)])
    ops, busy, queued = [], set(), []
    ts = 10
    if rng.random() < 0.25:
        k = rng.randint(0, min(4, len(ids_all)))
        sel = rng.sample(ids_all, k)
        os_ = []
        for s in sel:
            ts += rng.randint(0, 2)
            os_.append(gen.order(rng.choice(gen.KINDS), oid=s, price=100, side="S", ts=ts, tif="GTC", vis=rng.randint(0, 9), hid=rng.randint(0, 5)))
        ops.append("%s [%s]" % (rng.choice(["QFROMVEC", "QFROMSTR", "QFROMJSON"]), ",".join(os_)))
        busy |= set(sel)
        queued += sel
    while len(ops) < n:
        x = rng.random()
        if x < 0.35:
            cand = [i for i in ids_all if (i not in busy)] if fresh_only else [i for i in ids_all if i not in queued]
            if not cand:
                ops.append("QPOP")
                continue
            k = rng.choice(cand)
            ts += rng.choice([0, 1, 2, -3])
            ops.append("QPUSH " + gen.order(rng.choice(gen.KINDS), oid=k, price=100, side=rng.choice("BS"), ts=max(ts, 0), tif="GTC",
                                            vis=rng.randint(0, 9), hid=rng.randint(0, 5)))
            busy.add(k)
            queued.append(k)
        elif x < 0.55:
            ops.append("QPOP")
            # python cannot know which id pops in the non-fresh case; keep `busy` conservative (never cleared there)
            if fresh_only and queued:
                k = queued.pop(0)
                busy.discard(k)
        elif x < 0.70:
            k = rng.choice(ids_all)
            ops.append("QREMOVE " + k)
            if k in queued:
                queued.remove(k)       # stays busy: its ticket is still outstanding
        elif x < 0.80:
            ops.append("QFIND " + rng.choice(ids_all))
        elif x < 0.87:
            ops.append("QLEN")
        elif x < 0.93:
            ops.append("QEMPTY")
        else:
            ops.append("QVEC")
    ops += ["QLEN", "QVEC"] + ["QPOP"] * (len(ids_all) + 1) + ["QEMPTY"]
    return ops


def run(tier, seed, replay=None):
    ck = Check("C19", tier, seed)
    rng = random.Random(seed)
    pr = check_proofs("C19", coqchk=(tier == "thorough"))
    for t in pr["theorems"]:
        ck.oblige("theorem " + t, pr["ok"], pr["failed"] or "")
    ck.assumptions = ["Print Assumptions: " + (", ".join(pr["assumptions"]) or "Closed under the global context (all theorems)")] + ([pr["coqchk"]] if pr.get("coqchk") else [])
    build_modelrun()
    build_harness("debug")
    if replay:
        cases = [json.load(open(replay))["ops"]]
    else:
        n = 1500 if tier == "quick" else 40000
        cases = [["QPUSH S:u1:100:S:1:GTC:5", "QPUSH S:u2:100:S:2:GTC:5", "QREMOVE u1", "QPUSH S:u1:100:S:3:GTC:7", "QPOP", "QPOP"]]
        cases += [gen_case(rng, rng.randint(4, 30), fresh_only=(i % 2 == 0)) for i in range(n)]
        # id recycling: two or three ids pushed, removed, popped and pushed again many times (per-id state left behind
        # by an earlier remove / pop / re-push)
        for i in range(400 if tier == "quick" else 10000):
            pool = rng.choice([["u1", "u2"], ["u1", "l1"], ["u1", "u2", "l3"], ["u1"]])
            cases.append(gen_case(rng, rng.randint(8, 40), fresh_only=False, ids_all=pool))
        # bulk sequences: long queues, many removals by id before the pops (thresholds inside the queue code)
        for i in range(40 if tier == "quick" else 1500):
            n_ids = rng.randint(30, 160)
            ids = ["u%d" % (j + 1) for j in range(n_ids)]
            ops = []
            for j, k in enumerate(ids):
                ops.append("QPUSH " + gen.order("S", oid=k, price=100, side="S", ts=10 + j, tif="GTC", vis=1 + j % 7))
            rm = rng.sample(ids, rng.randint(5, n_ids - 1))
            if rng.random() < 0.5:
                rm.sort(key=lambda x: int(x[1:]))
            for j, k in enumerate(rm):
                ops.append("QREMOVE " + k)
                if rng.random() < 0.03:
                    ops.append("QPOP")
            ops += ["QLEN"] + ["QPOP"] * (n_ids - len(rm) + 2) + ["QEMPTY"]
            cases.append(ops)
    lines = ["q%d|%s" % (i, "|".join(ops)) for i, ops in enumerate(cases)]
    recs = run_queue(lines)
    corr_bad, judge_bad, k2 = [], [], None
    n_ops, distinct = 0, set()
    for i, ops in enumerate(cases):
        rs = recs.get("q%d" % i, [])
        n_ops += len(rs)
        if any(o.startswith("QPOP") for o in ops) and any(o.startswith("QPUSH") for o in ops):
            distinct.add(tuple(ops))
        tainted = False
        for o in rs:
            I, M = o["I"], o["M"] or ""
            if " || " not in M:
                corr_bad.append((ops, o["i"], "model answered %s" % M[:80]))
                break
            conc_, rest = M.split(" || ")
            spec, fresh = rest.rsplit(" fresh=", 1)
            if fresh == "0":
                tainted = True

            def canon(x):
                return ",".join(lvl.canon_vec(x)) if x.startswith("[") else x
            stop = False
            if canon(I) != canon(conc_):
                corr_bad.append((ops, o["i"], "implementation %s, model %s" % (I[:100], conc_[:100])))
                stop = True     # still judge this answer against the abstract FIFO below
            if I.startswith("[") and not lvl.ts_sorted(I):
                judge_bad.append((ops, o["i"], "listing not in timestamp order: %s" % I))
                break
            if canon(I) != canon(spec):
                # K2 only if a non-fresh push happened AND the model of the code answers like the implementation
                if tainted and canon(I) == canon(conc_):
                    k2 = k2 or (ops, o["i"])
                else:
                    judge_bad.append((ops, o["i"], "`%s` returns %s, a FIFO with removal by id returns %s" % (o["op"][:40], I[:100], spec[:100])))
                break
            if stop:
                break
    ck.cov["evaluations"] = n_ops
    ck.cov["distinct_nontrivial"] = len(distinct)
    ck.cov["rule"] = ("sequences of push/pop/find/remove/len/is_empty/to_vec and builders (from_vec, From<Vec>, FromStr, Deserialize) on an OrderQueue; "
                      "half of them with every push fresh (the id has no outstanding ticket), half with ids re-pushed after removal by id; "
                      "non-trivial = contains a push and a pop; distinct by text")
    ck.cov["samples"] = [cases[0], cases[1][:10]] if len(cases) > 1 else cases[:1]
    ck.cov["traces_validated_against_impl"] = len(cases)
    ck.oblige("correspondence: OrderQueue = Model/Queue.v on every call", not corr_bad, "%d sequences differ" % len(corr_bad))
    ck.oblige("judge: OrderQueue = abstract FIFO (Spec/QueueSpec.v step_f) on every call of every fresh-push sequence", not judge_bad,
              "%d sequences fail" % len(judge_bad))
    listed = {f["id"]: f for f in known_findings()["findings"] if "C19" in f["properties"]}
    if k2:
        if "K2" in listed:
            ck.known("K2: " + listed["K2"]["what"])
        else:
            judge_bad.append((k2[0], k2[1], "re-push after removal by id takes the old ticket's position (unlisted)"))
    if judge_bad:
        judge_bad.sort(key=lambda x: len(x[0]))
        ops, i, why = judge_bad[0]
        ck.violation("fail", dict(kind="queue", ops=ops, failing_op=i, why=why, failures=len(judge_bad)))
    elif corr_bad or not pr["ok"]:
        ck.violation("unproved", dict(kind="queue", broken=("correspondence OrderQueue/Model.Queue" if corr_bad else pr["failed"]),
                                      first_disagreement=(dict(ops=corr_bad[0][0], op_index=corr_bad[0][1], difference=corr_bad[0][2]) if corr_bad else None),
                                      theorem=(None if pr["ok"] else "Properties/C19.v: " + str(pr["failed"]))),
                     note="no-failing-input-found")
    return ck.finish("cd /verif/coq && make Properties/C19.vo   (+ ./check C19)")
