"""C10 — snapshot / serialization round-trips preserve content; aggregates are derived."""
from . import gen, lvl
from .lvlprop import *


def judge(rec, price, ops):
    prev = None
    for o in rec["ops"]:
        I = o["I"]
        if I in ("panic", "timeout"):
            return [(o["i"], "implementation " + I)]
        if I == "skipped" or I.startswith("read="):
            continue
        d = lvl.kv(I.split(" || ")[0])
        op = o["op"]
        if "vec" in d and d.get("built", "ok") == "ok":
            vec = gen.parse_list(d["vec"])
            idl = [gen.parse_order(x)["id"] for x in vec]
            if len(set(idl)) != len(idl):
                return [(o["i"], "the listing shows an order twice: %s" % d["vec"])]
            if not lvl.ts_sorted(d["vec"]):
                return [(o["i"], "the listing is not in non-decreasing timestamp order: %s" % d["vec"])]
        if op == "SNAP":
            # a snapshot is a read: it must show the level as the previous operation left it (and is not itself a new state)
            if prev is not None and "vec" in d:
                if lvl.canon_vec(d["vec"]) != lvl.canon_vec(prev["vec"]):
                    return [(o["i"], "the snapshot's orders differ from the level's: %s vs %s" % (d["vec"], prev["vec"]))]
                if (d["cv"], d["ch"], d["cc"]) != (prev["cv"], prev["ch"], prev["cc"]):
                    return [(o["i"], "the snapshot's aggregates differ from the level's")]
            continue
        if op.startswith("REBUILD ") or op.startswith("FORK "):
            if d.get("built") != "ok":
                return [(o["i"], "rebuilding a level from its own %s form failed: %s" % (op.split(" ")[1], d.get("built")))]
            if prev is not None:
                if lvl.canon_vec(d["vec"]) != lvl.canon_vec(prev["vec"]):
                    return [(o["i"], "orders differ after `%s`: %s vs %s" % (op, d["vec"], prev["vec"]))]
                if (d["cv"], d["ch"], d["cc"]) != (prev["cv"], prev["ch"], prev["cc"]):
                    return [(o["i"], "aggregates differ after `%s`" % op)]
            e = state_agg_ok(d)
            if e:
                return [(o["i"], "after `%s`: %s" % (op, e))]
        if op.startswith("EXT "):
            if d.get("built") != "ok":
                return [(o["i"], "constructor rejected external data: %s" % d.get("built"))]
            e = state_agg_ok(d)
            if e:
                return [(o["i"], "aggregates carried by external data were believed: %s" % e)]
        if op.startswith("FORK "):
            continue     # the main level is unchanged; keep prev
        if "vec" in d and d.get("built", "ok") == "ok":
            prev = d
    return []


def coq_queries(rec, price, ops):
    out = []
    for o in rec["ops"]:
        I = o["I"]
        if I in ("panic", "skipped", "timeout") or I.startswith("read="):
            continue
        d = lvl.kv(I.split(" || ")[0])
        if "vec" in d and d.get("built", "ok") == "ok":
            out.append((o["i"], "listing %s" % d["vec"], "after `%s`: the listing repeats an order or is not in timestamp order" % o["op"][:60]))
            if o["op"].startswith(("REBUILD", "FORK", "EXT")):
                out.append((o["i"], "agg %s %s %s %s" % (d["cv"], d["ch"], d["cc"], d["vec"]),
                            "after `%s`: aggregates of the rebuilt level are not derived from its orders" % o["op"][:60]))
    return out


def corr_filter(text):
    return any(k in text for k in ("listing", "constructor", "permutation", " cv ", " ch ", " cc ", "panic", "model="))


def make_cases(rng, tier):
    n = 1000 if tier == "quick" else 25000
    cs = []
    for i in range(n):
        g = lvl.HistGen(rng, big=(i % 12 == 0))
        ops = g.history(rng.randint(4, 25))
        # make sure every history is rebuilt at least once, through every path over the run
        ops.append("REBUILD " + lvl.VIAS[i % len(lvl.VIAS)])
        ops += ["MATCH %d u7001" % rng.choice([1, 3, 9, 100]), "REBUILD " + rng.choice(lvl.VIAS), "SNAP"]
        cs.append((g.price, ops))
    for i in range(n // 4):
        g = lvl.HistGen(rng)
        ops = g.history(rng.randint(1, 6))
        orders = [g.new_order() for _ in range(rng.randint(0, 6))]
        ops.append("EXT %s %d %d %d [%s]" % (["snap", "ref", "data", "text", "pkg", "pjson"][i % 6], rng.choice([0, 7, 1 << 63]),
                                            rng.choice([0, 3, (1 << 64) - 1]), rng.choice([0, 9, 1000]), ",".join(orders)))
        ops += ["SNAP", "MATCH 4 u7002", "REBUILD " + rng.choice(lvl.VIAS)]
        cs.append((g.price, ops))
    cs += deep_histories(rng, 8 if tier == "quick" else 200, rebuild=True)
    cs += deep_histories(rng, 2 * len(lvl.VIAS) if tier == "quick" else 120, rebuild=True, sizes=[257, 258, 300], mixed=True)
    # reads (snapshot / package / JSON / text) taken BEFORE amendments that compensate each other (one order down by d, another
    # up by d: every total and every counter is back where it was), then a rebuild through every path: a cache keyed on
    # aggregates or statistics serves the old content
    for i in range(60 if tier == "quick" else 1500):
        a, b, d = rng.randint(5, 40), rng.randint(1, 30), rng.randint(1, 4)
        kinds = [rng.choice("SPIR"), rng.choice("SPIR")]
        ops = ["ADD " + gen.order(kinds[0], oid="u1", price=100, side="S", ts=10, tif="GTC", vis=a, hid=7 if kinds[0] in "IR" else 0, thr=0, amt=None),
               "ADD " + gen.order(kinds[1], oid="l2", price=100, side="B", ts=11, tif="GTC", vis=b, hid=0, thr=0, amt=None)]
        if rng.random() < 0.5:
            ops.append("ADD " + gen.order("S", oid="u3", price=100, side="S", ts=12, tif="GTC", vis=9))
        ops += ["READ " + rng.choice(["pkg", "snap", "json", "display"]), "SNAP"]
        ops += ["UPD UQ:u1:%d" % (a - d), "UPD UQ:l2:%d" % (b + d)]
        ops += ["READ " + rng.choice(["pkg", "snap"]), "REBUILD " + lvl.VIAS[i % len(lvl.VIAS)], "SNAP", "MATCH 3 u7000", "REBUILD " + rng.choice(lvl.VIAS)]
        cs.append((100, ops))
    return cs


def run(tier, seed, replay=None):
    return run_property("C10", tier, seed, replay, make_cases=make_cases, judge=judge, corr_filter=corr_filter,
                        nontrivial=lambda rec, price, ops: any(o.startswith("ADD") for o in ops), coq_queries=coq_queries)
