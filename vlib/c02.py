"""C02 — every match is fully accounted for and no order is ever over-filled."""
from . import gen, lvl
from .lvlprop import *


def judge(rec, price, ops):
    prev = None
    seen_ids = set()
    led = {}          # id -> [supplied, traded, returned]

    def L(k):
        return led.setdefault(k, [0, 0, 0])
    for o in rec["ops"]:
        I = o["I"]
        if I in ("panic", "timeout"):
            return [(o["i"], "implementation " + I)]
        if I == "skipped" or I.startswith("read="):
            continue
        d = lvl.kv(I.split(" || ")[0])
        op = o["op"]
        if op.startswith("ADDTX "):
            _, init, qs = op.split(" ")
            init = int(init)
            qs = [int(x) for x in gen.parse_list(qs)]
            rem, tot = init, 0
            steps = gen.parse_list(d["steps"])
            for q, s in zip(qs, steps):
                tot += q
                rem = max(init - tot, 0)
                if s != "%d/%d" % (rem, 1 if rem == 0 else 0):
                    return [(o["i"], "after appending transactions summing to %d to a result for %d: remaining/complete = %s" % (tot, init, s))]
            if int(d["exec"]) != tot or int(d["n"]) != len(qs):
                return [(o["i"], "executed_quantity %s != sum of appended transactions %d" % (d["exec"], tot))]
            continue
        before = {gen.parse_order(x)["id"]: gen.parse_order(x) for x in gen.parse_list(prev["vec"])} if prev else {}
        if op.startswith("ADD "):
            x = gen.parse_order(op[4:])
            L(x["id"])[0] += x["vis"] + x["hid"]
        elif op.startswith("UPD "):
            out = d.get("out", "")
            u = op[4:].split(":")
            if out.startswith("ok:") and out != "ok:-":
                n = gen.parse_order(out[3:])
                same_price = u[0] == "UQ" or (u[0] in ("UPQ", "RP") and int(u[2]) == price)
                if same_price:
                    old = before.get(n["id"])
                    if old and old["kind"] in "SPI":
                        # legitimate adjustment: requested display minus the display it replaces
                        nq = int(u[-1] if u[0] == "UQ" else u[3])
                        L(n["id"])[0] += nq - old["vis"]
                else:
                    L(n["id"])[2] += n["vis"] + n["hid"]
        elif op.startswith("REBUILD") or op.startswith("EXT"):
            pass
        elif op.startswith("MATCH "):
            _, qty, taker = op.split(" ")
            qty = int(qty)
            txs = [t.split("/") for t in gen.parse_list(d["txs"])]
            ex = sum(int(t[4]) for t in txs)
            if ex + int(d["rem"]) != qty or int(d["exec"]) != ex:
                return [(o["i"], "executed %d + remaining %s != requested %d" % (ex, d["rem"], qty))]
            if (d["complete"] == "1") != (int(d["rem"]) == 0):
                return [(o["i"], "is_complete=%s with remaining %s" % (d["complete"], d["rem"]))]
            after = {gen.parse_order(x)["id"] for x in gen.parse_list(d["vec"])}
            left = []
            for t in txs:
                tid, tk, mk, pr, q, sd = t
                if int(q) <= 0:
                    return [(o["i"], "transaction with quantity %s" % q)]
                if int(pr) != price:
                    return [(o["i"], "transaction priced %s at level %d" % (pr, price))]
                if tk != taker:
                    return [(o["i"], "transaction names taker %s, request was from %s" % (tk, taker))]
                if mk not in before:
                    return [(o["i"], "maker %s was not resting when the match began" % mk)]
                if sd != ("S" if before[mk]["side"] == "B" else "B"):
                    return [(o["i"], "taker side %s is not opposite to maker %s's side" % (sd, mk))]
                if tid in seen_ids:
                    return [(o["i"], "transaction id %s issued twice" % tid)]
                seen_ids.add(tid)
                L(mk)[1] += int(q)
            # makers that traded and are gone, in the order they left (= order of their LAST transaction)
            mks = [t[2] for t in txs]
            for j, mk in enumerate(mks):
                if mk not in after and mk not in mks[j + 1:]:
                    left.append(mk)
            if gen.parse_list(d["filled"]) != left:
                return [(o["i"], "filled_order_ids %s, makers that traded and left: %s" % (d["filled"], left))]
        if "vec" in d and d.get("built", "ok") == "ok":
            rest = {gen.parse_order(x)["id"]: gen.parse_order(x) for x in gen.parse_list(d["vec"])}
            for k, (sup, tr, ret) in led.items():
                r = rest[k]["vis"] + rest[k]["hid"] if k in rest else 0
                if tr + ret + r > sup:
                    return [(o["i"], "order %s: traded %d + returned %d + resting %d exceeds the %d it brought" % (k, tr, ret, r, sup))]
            prev = d
    return []


def coq_queries(rec, price, ops):
    out, prev = [], None
    for o in rec["ops"]:
        I = o["I"]
        if I in ("panic", "skipped", "timeout") or I.startswith("read="):
            continue
        d = lvl.kv(I.split(" || ")[0])
        if o["op"].startswith("MATCH ") and prev is not None and "txs" in d:
            _, qty, taker = o["op"].split(" ")
            out.append((o["i"], "acct %d %s %s %s %s %s %s" % (price, qty, taker, prev["vec"], d["txs"], d["rem"], d["complete"]),
                        "`%s`: the match result is not fully accounted for" % o["op"]))
        if "vec" in d and d.get("built", "ok") == "ok":
            prev = d
    return out


def corr_filter(text):
    return any(k in text for k in ("transaction", "filled", " rem ", " complete ", " exec ", "steps", "panic", "model=", " n "))


def make_cases(rng, tier):
    n = 1500 if tier == "quick" else 40000
    cs = histories(rng, n, rebuilds=False, reads=False)
    for i in range(n // 5):
        init = rng.choice([0, 1, 5, 20, 100, (1 << 64) - 1])
        qs = [rng.choice([0, 1, 2, 5, 20, 1 << 62]) for _ in range(rng.randint(0, 5))]
        if sum(qs) >= (1 << 64):
            qs = qs[:1]
        cs.append((100, ["ADDTX %d [%s]" % (init, ",".join(map(str, qs)))]))
    return cs


def run(tier, seed, replay=None):
    return run_property("C02", tier, seed, replay, make_cases=make_cases, judge=judge, corr_filter=corr_filter,
                        nontrivial=lambda rec, price, ops: any(o.startswith("MATCH") for o in ops), coq_queries=coq_queries)
