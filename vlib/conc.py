"""Concurrent programs on one PriceLevel: generation, execution under the
deterministic scheduler (harness conc), parsing, and the judges of the
concurrency properties applied to the implementation's own traces."""
import subprocess
import uuid

from . import gen
from .common import *
from .lvl import NS_MAIN, kv, canon_vec

W = 1 << 64


# ------------------------------------------------------------------ generation

class ProgGen:
    def __init__(self, rng, kinds="SIR", price=100, n_threads=None, reads=True, nexts=True):
        self.rng = rng
        self.kinds = kinds
        self.price = price
        self.n_threads = n_threads or rng.choice([2, 2, 3, 3, 4])
        self.reads, self.nexts = reads, nexts
        self.nid = 1
        self.ts = rng.choice([10, 10, 1_790_000_000_000_000_000, (1 << 64) - 500])

    def order(self, positive=True):
        r = self.rng
        oid = ("u%d" if r.random() < 0.8 else "l%d") % self.nid
        self.nid += 1
        used = self.__dict__.setdefault("used", [])
        if used and r.random() < 0.06:
            # the same 128 bits in the OTHER id format: a different order id
            tw = r.choice(used)
            tw = ("l" if tw[0] == "u" else "u") + tw[1:]
            if tw not in used:
                oid = tw
        used.append(oid)
        k = r.choice(self.kinds)
        lo = 1 if positive else 0
        v = r.choice([lo, 1, 2, 3, 5, 8, 10, 20])
        h = r.choice([0, 1, 3, 7, 20]) if k in "IR" else 0
        self.ts = min(self.ts + r.randint(0, 2), (1 << 64) - 1)
        return oid, gen.order(k, oid=oid, price=self.price, side=r.choice("BS"), ts=self.ts, tif="GTC",
                              vis=v, hid=h, thr=r.choice([0, 1, 2, 5]), amt=r.choice([None, 0, 1, 3, 10]),
                              auto=r.random() < 0.7)

    def program(self):
        r = self.rng
        setup, ids = [], []
        for _ in range(r.choice([0, 1, 1, 2, 2, 3, 3, 4, 4, 4])):      # sometimes an EMPTY level: the first adds race
            oid, o = self.order()
            setup.append("ADD " + o)
            ids.append(oid)
        if r.random() < getattr(self, "burst_rate", 0.04):
            # a level with a long past: 63-66 (or 256+) removals by id before the threads start (dead queue entries,
            # removal counters and compaction thresholds inside the queue), leaving one or two resting orders
            keep = ids[:r.choice([1, 1, 2])]
            extra = len(ids) - len(keep)
            # total removals by id in the past: just below, at, or just above a round threshold
            total = r.choice([64, 64, 64, 128, 256, 256, 1024]) + r.choice([-1, 0, 0, 0, 1, 2])
            for j in range(max(0, total - extra)):
                oid, o = self.order()
                setup.append("ADD " + o)
                setup.append("UPD C:%s" % oid)
            for k in ids[len(keep):]:
                setup.append("UPD C:%s" % k)
            ids[:] = keep
            self.long_past = True
        if r.random() < 0.3 and ids:       # pre-existing partial fill / stale ticket
            setup.append("MATCH %d u8000" % r.choice([1, 2, 3]))
        if r.random() < 0.2 and ids:
            setup.append("UPD UQ:%s:%d" % (r.choice(ids), r.choice([0, 1, 4, 9])))
        threads = []
        for t in range(self.n_threads):
            ops = []
            for _ in range(r.randint(1, 3)):
                x = r.random()
                if x < 0.22:
                    oid, o = self.order()
                    ops.append("ADD " + o)
                    ids.append(oid)
                elif x < 0.50:
                    ops.append("MATCH %d u%d" % (r.choice([1, 2, 3, 4, 5, 8, 12, 30, 100]), 9000 + 10 * t + len(ops)))
                elif x < 0.68:
                    ops.append("UPD C:%s" % (r.choice(ids) if ids and r.random() < 0.9 else "u999"))
                elif x < 0.86:
                    ops.append("UPD UQ:%s:%d" % (r.choice(ids) if ids and r.random() < 0.9 else "u999",
                                                 r.choice([0, 1, 2, 3, 6, 15])))
                elif x < 0.90:
                    k = r.choice(ids) if ids else "u999"
                    ops.append(r.choice(["UPD UP:%s:%d" % (k, self.price + 1), "UPD UP:%s:%d" % (k, self.price),
                                         "UPD RP:%s:%d:%d:B" % (k, self.price, r.choice([1, 4]))]))
                elif x < 0.96 and self.reads:
                    ops.append(r.choice(["RV", "RH", "RC", "LIST"]))
                elif self.nexts:
                    ops.append("NEXT")
                else:
                    ops.append("RV")
            threads.append(ops)
        if getattr(self, "long_past", False) and ids and len(threads) >= 2:
            oid, o = self.order()
            threads[0][0] = r.choice(["ADD " + o, "ADD " + o, "UPD C:%s" % ids[-1]])
            threads[1][0] = r.choice(["UPD C:%s" % ids[0], "UPD UQ:%s:%d" % (ids[0], r.choice([1, 3, 30])), "ADD " + self.order()[1],
                                      "MATCH %d u9800" % r.choice([1, 50])])
            self.long_past = False
        return setup, threads


def long_past_lines(rng, per_combo, flags):
    """Programs on a level with a long past: exactly T-1, T or T+1 removals by id happened before the threads start (T a round
    number a queue-internal counter might use), one or two orders rest, and the threads are an add / cancel racing an update,
    cancel, add or match - so a threshold crossed by the FIRST concurrent operation is crossed in every program."""
    out = []
    n = 0
    for T in (32, 64, 128, 256):
        for delta in (-1, 0, 1):
            for _ in range(per_combo):
                g = ProgGen(rng, n_threads=2)
                g.ts = 10
                setup = []
                keep = []
                for _k in range(rng.choice([1, 1, 2])):
                    oid, o = g.order()
                    setup.append("ADD " + o)
                    keep.append(oid)
                for _j in range(T + delta):
                    oid, o = g.order()
                    setup.append("ADD " + o)
                    setup.append("UPD C:%s" % oid)
                oid, o = g.order()
                t0 = rng.choice(["ADD " + o, "ADD " + o, "UPD C:%s" % keep[-1]])
                t1 = rng.choice(["UPD C:%s" % keep[0], "UPD UQ:%s:%d" % (keep[0], rng.choice([1, 3, 30])), "ADD " + g.order()[1],
                                 "MATCH %d u9800" % rng.choice([1, 50]), "UPD UQ:%s:%d" % (keep[0], rng.choice([2, 9]))])
                out.append(prog_line("L%d" % n, g.price, setup, [[t0], [t1]], "%s%d" % (rng.choice("rp"), rng.randint(1, 10 ** 9)), flags))
                n += 1
    return out


def prog_line(pid, price, setup, threads, sched, flags="drain"):
    return "%s|%d|%s|%s|%s|%s" % (pid, price, ";".join(setup), "#".join(";".join(t) for t in threads), sched, flags)


# ------------------------------------------------------------------ execution / parsing

def run_progs(lines, profile="debug", timeout=1800):
    """Returns dict id -> record(lines=[(tag, rest)], plus parsed fields)."""
    recs = {}
    pending = list(lines)
    order_ids = [l.split("|", 1)[0] for l in lines]
    guard = 0
    aborts = 0
    while pending and guard < 200:
        guard += 1
        p = subprocess.run([harness_bin(profile), "conc", MODELRUN], input="\n".join(pending) + "\n",
                           text=True, stdout=subprocess.PIPE, timeout=timeout)
        cur = None
        last = None
        for l in p.stdout.splitlines():
            tag, _, rest = l.partition(" ")
            if tag == "P":
                cur = dict(id=rest, ev=[], X=[], U=[], Q=None, V=None, D=None, DM=None, E=None, K=None, I0=None, N=None)
                recs[rest] = cur
                last = rest
            elif cur is None:
                continue
            elif tag in ("S", "A", "B", "R"):
                cur["ev"].append((tag, rest))
            elif tag == "U":
                cur["U"].append(rest)
            elif tag == "X":
                cur["X"].append(rest)
                cur["ev"].append((tag, rest))
            elif tag in ("Q", "V", "D", "DM", "E", "K", "I0", "N"):
                cur[tag] = rest
        if p.returncode in (3, 4) and last is not None:
            k = [i for i, l in enumerate(pending) if l.split("|", 1)[0] == last][0]
            pending = pending[k + 1:]
            aborts += 1
            if aborts >= 4:
                break          # enough aborted / hung runs; do not wait for more
        else:
            break
    return [recs[i] for i in order_ids if i in recs]


def total(o):
    d = gen.parse_order(o)
    return d["vis"] + d["hid"]


def parse_prog(line):
    f = line.split("|")
    setup = [x for x in f[2].split(";") if x]
    threads = [[x for x in t.split(";") if x] for t in f[3].split("#")]
    return dict(id=f[0], price=int(f[1]), setup=setup, threads=threads, sched=f[4], flags=f[5] if len(f) > 5 else "")


def analyse(rec, prog):
    """Derives per-run facts from the implementation's event log."""
    info = dict(calls={}, txs=[], snaps=[], errors=[])
    # per thread list of events within the current call
    cur_call = {}
    for tag, rest in rec["ev"]:
        if tag == "B":
            tid, ci, op = rest.split(" ", 2)
            c = dict(tid=int(tid), ci=int(ci), op=op, events=[], ret=None, begin=len(info["snaps"]))
            info["calls"][(int(tid), int(ci))] = c
            cur_call[int(tid)] = c
        elif tag == "S":
            tid, ev = rest.split(" ", 1)
            c = cur_call.get(int(tid))
            if c is not None:
                c["events"].append(ev)
            info.setdefault("steps", []).append((int(tid), ev))
        elif tag == "A":
            info["snaps"].append(tuple(int(x) for x in rest.split(" ")))
        elif tag == "R":
            tid, ci, r = rest.split(" ", 2)
            c = info["calls"][(int(tid), int(ci))]
            c["ret"] = r
            if r.startswith("match:"):
                d = kv(r[6:].replace(";", " "))
                for t in gen.parse_list(d["txs"]):
                    info["txs"].append((int(tid), int(ci), t.split("/")))
    return info


def setup_facts(prog, rec):
    """Orders resting after the sequential setup (from the I0 line)."""
    d = kv(rec["I0"])
    return d, gen.parse_list(d["vec"])


# ------------------------------------------------------------------ judges (implementation traces)

def judge_quiescent_agg(rec):
    """C03 clause 1: at quiescence the aggregates equal the sums over the resting orders."""
    if rec["Q"] is None or rec["Q"] == "aborted":
        return "execution did not reach quiescence: %s" % "; ".join(rec["X"])
    d = kv(rec["Q"])
    vec = gen.parse_list(d["vec"])
    sv = sum(gen.parse_order(o)["vis"] for o in vec)
    sh = sum(gen.parse_order(o)["hid"] for o in vec)
    if (int(d["cv"]), int(d["ch"]), int(d["cc"])) != (sv, sh, len(vec)):
        return "aggregates (%s,%s,%s) != sums over resting orders (%d,%d,%d)" % (d["cv"], d["ch"], d["cc"], sv, sh, len(vec))
    return None


def ledger(rec, prog, info):
    """Per id: supplied, executed, returned, discarded, resting (C03 clause 2)."""
    led = {}

    def e(k):
        return led.setdefault(k, dict(supplied=0, executed=0, returned=0, discarded=0, resting=0))
    _, vec0 = setup_facts(prog, rec)
    for o in vec0:
        e(gen.parse_order(o)["id"])["supplied"] += total(o)
    for c in info["calls"].values():
        if c["ret"] is None:
            continue
        if c["op"].startswith("ADD "):
            o = c["op"][4:]
            e(gen.parse_order(o)["id"])["supplied"] += total(o)
        elif c["op"].startswith("UPD "):
            r = c["ret"]
            removed = [x for x in c["events"] if x.startswith("REM ") and not x.endswith(" -")]
            inserted = [x for x in c["events"] if x.startswith("INS ")]
            if removed and inserted:          # same-price amend that succeeded
                old = gen.parse_order(removed[0].split(" ")[2])
                # what an amendment may legitimately add: the requested display minus the display of the
                # order it took out, for the three types whose quantity can be amended; nothing otherwise
                nq = int(c["op"].split(":")[-1] if c["op"].startswith("UPD UQ:") else c["op"].split(":")[3])
                if old["kind"] in "SPI":
                    e(old["id"])["supplied"] += nq - old["vis"]
            elif removed:                     # cancel / price move
                old = removed[0].split(" ")[2]
                e(gen.parse_order(old)["id"])["returned"] += total(old)
        elif c["op"].startswith("MATCH "):
            evs = c["events"]
            for i, x in enumerate(evs):
                # FS:cnt directly followed by FS:hid in a match = hidden quantity discarded
                if x.startswith("FS:cnt:") and i + 1 < len(evs) and evs[i + 1].startswith("FS:hid:"):
                    # the maker is the last order removed before
                    for y in reversed(evs[:i]):
                        if y.startswith("REM ") and not y.endswith(" -"):
                            e(y.split(" ")[1])["discarded"] += int(evs[i + 1].split(":")[2])
                            break
    for (_, _, t) in info["txs"]:
        e(t[2])["executed"] += int(t[4])
    if rec["Q"] and rec["Q"] != "aborted":
        for o in gen.parse_list(kv(rec["Q"])["vec"]):
            e(gen.parse_order(o)["id"])["resting"] += total(o)
    return led


def judge_ledger(rec, prog, info):
    led = ledger(rec, prog, info)
    for k, v in sorted(led.items()):
        if v["supplied"] != v["executed"] + v["returned"] + v["discarded"] + v["resting"]:
            return "order %s: supplied %d != executed %d + returned %d + discarded %d + resting %d" % (
                k, v["supplied"], v["executed"], v["returned"], v["discarded"], v["resting"])
    return None


def supplied_bound(prog, rec, info, upto_snap):
    """Total quantity supplied by calls begun before snapshot index [upto_snap]."""
    _, vec0 = setup_facts(prog, rec)
    s = sum(total(o) for o in vec0)
    n = len(vec0)
    for st in prog["setup"]:
        if st.startswith("ADD "):
            pass
    for c in info["calls"].values():
        if c["begin"] <= upto_snap:
            if c["op"].startswith("ADD "):
                s += total(c["op"][4:])
                n += 1
            elif c["op"].startswith("UPD UQ:") or c["op"].startswith("UPD UPQ:") or c["op"].startswith("UPD RP:"):
                s += int(c["op"].split(":")[-1] if c["op"].startswith("UPD UQ:") else c["op"].split(":")[3])
    # the setup may already have consumed part of what it supplied; bound by what was ever supplied
    for st in prog["setup"]:
        if st.startswith("ADD "):
            s += 0
    return s, n


def judge_range(rec, prog, info):
    """C12: after every step 0 <= each aggregate <= total ever supplied."""
    sup_all = sum(total(st[4:]) for st in prog["setup"] if st.startswith("ADD "))
    for st in prog["setup"]:
        if st.startswith("UPD UQ:"):
            sup_all += int(st.split(":")[-1])
    n_all = sum(1 for st in prog["setup"] if st.startswith("ADD "))
    begun = sorted(info["calls"].values(), key=lambda c: c["begin"])
    for i, (cv, ch, cc) in enumerate(info["snaps"]):
        s, n = sup_all, n_all
        for c in begun:
            if c["begin"] > i:
                break
            if c["op"].startswith("ADD "):
                s += total(c["op"][4:])
                n += 1
            elif c["op"].startswith("UPD UQ:"):
                s += int(c["op"].split(":")[-1])
            elif c["op"].startswith("UPD RP:") or c["op"].startswith("UPD UPQ:"):
                s += int(c["op"].split(":")[3])
        if not (0 <= cv <= s and 0 <= ch <= s and 0 <= cc <= n):
            return "after step %d a reader sees (visible %d, hidden %d, count %d); supplied so far: quantity %d, orders %d" % (
                i, cv, ch, cc, s, n)
    return None


def judge_ids(rec, info, ns=None):
    ns = ns or NS_MAIN
    """C14: ids handed out (NEXT calls and transactions) are pairwise distinct, and each is
    uuid5(namespace, decimal counter) of one of the counter values the generator handed out."""
    ids = []
    for c in info["calls"].values():
        if c["ret"] and c["ret"].startswith("id:"):
            ids.append(c["ret"][3:])
    for (_, _, t) in info["txs"]:
        ids.append(t[0])
    if len(set(ids)) != len(ids):
        return "duplicate id among %d issued: %s" % (len(ids), sorted(x for x in ids if ids.count(x) > 1)[:2])
    olds = [int(ev.split(":")[3]) for _, ev in info.get("steps", []) if ev.startswith("FA:gen:")]
    if len(set(olds)) != len(olds):
        return "the generator handed out counter %s twice" % sorted(x for x in olds if olds.count(x) > 1)[:1]
    if olds and olds != [(olds[0] + i) % W for i in range(len(olds))]:
        return "generator counters (in trace order) are not c0, c0+1, ...: %s" % olds[:8]
    want = {str(uuid.uuid5(ns, str(k))) for k in olds}
    bad = [x for x in ids if x not in want]
    if bad:
        return "id %s is not uuid5(namespace, k) for any counter k the generator handed out in this run" % bad[0]
    return None


def judge_stats(rec, prog, info):
    """C15 at quiescence (orders priced at the level price)."""
    if rec["Q"] is None or rec["Q"] == "aborted":
        return None
    d = kv(rec["Q"])
    a, r, _, q, v = [int(x) for x in d["st"].split("/")]
    d0, _ = setup_facts(prog, rec)
    a0, r0, _, q0, v0 = [int(x) for x in d0["st"].split("/")]
    adds = sum(1 for c in info["calls"].values() if c["op"].startswith("ADD ") and c["ret"])
    rems = 0
    for c in info["calls"].values():
        if c["op"].startswith("UPD ") and c["ret"] and c["ret"].startswith("upd:ok:") and c["ret"] != "upd:ok:-":
            if not any(x.startswith("INS ") for x in c["events"]):
                rems += 1
    qty = sum(int(t[4]) for (_, _, t) in info["txs"])
    if a - a0 != adds:
        return "orders_added grew by %d, %d adds returned" % (a - a0, adds)
    if r - r0 != rems:
        return "orders_removed grew by %d, %d successful removals" % (r - r0, rems)
    if q - q0 != qty:
        return "quantity_executed grew by %d, transactions sum to %d" % (q - q0, qty)
    if v - v0 != qty * prog["price"]:
        return "value_executed grew by %d, expected %d x %d" % (v - v0, qty, prog["price"])
    return None


def judge_drain(rec):
    """C08: after a draining match nothing with displayed quantity is left and the
    aggregates describe exactly what remains."""
    if rec["D"] is None:
        return None
    if rec["D"] in ("panic",):
        return "draining match panicked"
    d = kv(rec["D"])
    vec = gen.parse_list(d["vec"])
    left = [o for o in vec if gen.parse_order(o)["vis"] > 0]
    if left:
        return "after the draining match %s still displays quantity (unreachable by matching)" % left[0]
    sv = sum(gen.parse_order(o)["vis"] for o in vec)
    sh = sum(gen.parse_order(o)["hid"] for o in vec)
    if (int(d["cv"]), int(d["ch"]), int(d["cc"])) != (sv, sh, len(vec)):
        return "after the drain aggregates (%s,%s,%s) != sums (%d,%d,%d)" % (d["cv"], d["ch"], d["cc"], sv, sh, len(vec))
    return None


def judge_handout(rec, prog, info):
    """C08: every order put into the map is taken out by at most one thread (and the
    quiescent listing accounts for the rest)."""
    _, vec0 = setup_facts(prog, rec)
    live = {gen.parse_order(o)["id"]: o for o in vec0}
    for tid, ev in info.get("steps", []):
        if ev.startswith("INS "):
            o = ev[4:]
            live[gen.parse_order(o)["id"]] = o
        elif ev.startswith("REM ") and not ev.endswith(" -"):
            _, k, o = ev.split(" ")
            if k not in live:
                return "order %s handed out twice (removed while not in the map)" % k
            del live[k]
    if rec["Q"] and rec["Q"] != "aborted":
        fin = {gen.parse_order(o)["id"] for o in gen.parse_list(kv(rec["Q"])["vec"])}
        if fin != set(live):
            return "orders in the map by the event log %s != orders listed at quiescence %s" % (sorted(live), sorted(fin))
    return None


def _amend_like(op, price):
    if op.startswith("UPD UQ:"):
        return True
    if op.startswith("UPD UPQ:") or op.startswith("UPD RP:"):
        return int(op.split(":")[2]) == price
    return False


def _target(op):
    return op.split(":")[1] if op.startswith("UPD ") else None


def judge_ack(rec, prog, info):
    """C13.  Returns (violation text or None, known-finding text or None)."""
    _, vec0 = setup_facts(prog, rec)
    price = prog["price"]
    in_map = {gen.parse_order(o)["id"] for o in vec0}
    held = {}          # id -> thread holding it out of the map, intending to put it back (matcher / amender)
    last_rem = {}      # thread -> id of the order it most recently took out and has not re-inserted
    open_op = {}       # thread -> op text of the call in progress
    watch = {}         # thread -> facts about its cancel/amend call in progress
    cancelled = set()  # ids taken out for good by a cancel / price move and not added again
    stray = {}         # id -> (thread, op) of a call that took it out without being a match or an update of that order
    took = {}          # thread -> ids its call in progress has taken out of the map and not re-inserted
    viol, known = None, None
    for tag, rest in rec["ev"]:
        if tag == "B":
            tid, _, op = rest.split(" ", 2)
            tid = int(tid)
            open_op[tid] = op
            k = _target(op)
            if k is not None and (op.startswith("UPD C:") or _amend_like(op, price)):
                other = k in held and held[k] != tid
                st = stray.get(k)
                watch[tid] = dict(id=k, resting=(k in in_map or other or (st is not None and st[0] != tid)), held=other, removed=False, op=op,
                                  stray=(st[1] if st is not None and st[0] != tid else None))
        elif tag == "S":
            tid, ev = rest.split(" ", 1)
            tid = int(tid)
            op = open_op.get(tid, "")
            if ev.startswith("REM ") and not ev.endswith(" -"):
                k = ev.split(" ")[1]
                in_map.discard(k)
                took.setdefault(tid, []).append(k)
                if op.startswith("MATCH") or (_amend_like(op, price) and _target(op) == k):
                    held[k] = tid
                    last_rem[tid] = k
                elif _target(op) == k:
                    cancelled.add(k)
                    for t2, w in watch.items():
                        if t2 != tid and w["id"] == k:
                            w["removed"] = True
                else:
                    # a call that is neither a match nor an update OF THIS ORDER took it out of the book (an add of
                    # another order, an update of another order, a read): nobody is entitled to do that
                    stray[k] = (tid, op)
                    for t2, w in watch.items():
                        if t2 != tid and w["id"] == k:
                            w["stray"] = op
            elif ev.startswith("INS "):
                k = gen.parse_order(ev[4:])["id"]
                stray.pop(k, None)
                if k in took.get(tid, []):
                    took[tid].remove(k)
                if k in cancelled:
                    if op.startswith("ADD ") and gen.parse_order(op[4:])["id"] == k:
                        cancelled.discard(k)
                    else:
                        viol = viol or ("order %s was inserted again by `%s` after a cancel had reported success" % (k, op))
                in_map.add(k)
                if held.get(k) == tid:
                    del held[k]
                if last_rem.get(tid) == k:
                    del last_rem[tid]
            elif ev.startswith("FS:cnt:") and op.startswith("MATCH"):
                k = last_rem.pop(tid, None)       # the matcher drops the filled order it holds
                if k is not None:
                    held.pop(k, None)
                    for t2, w in watch.items():
                        if w["id"] == k:
                            w["removed"] = True
            for t2, w in watch.items():
                if w["id"] in held and held[w["id"]] != t2:
                    w["held"] = True
        elif tag == "R":
            tid, _, r = rest.split(" ", 2)
            tid = int(tid)
            op_done = open_op.pop(tid, None) or ""
            gone = took.pop(tid, [])
            if r == "upd:err" and gone:
                # the call was refused, yet it took an order out of the book and did not put it back
                viol = viol or ("`%s` reports an error but removed order %s from the book" % (op_done, gone[0]))
            w = watch.pop(tid, None)
            if w and r == "upd:ok:-" and w["resting"] and not w["removed"]:
                if w.get("stray"):
                    viol = viol or ("`%s` reports not-found for order %s, which was resting and had only been taken out of the book "
                                    "temporarily by `%s` (a call that is neither a match nor an update of that order)" % (w["op"], w["id"], w["stray"][:60]))
                elif w["held"]:
                    known = ("K4 `%s` reports not-found while another operation holds order %s between taking it out "
                             "of the book and putting the remainder back" % (w["op"], w["id"]))
                else:
                    viol = viol or ("`%s` reports not-found although order %s was resting before the call began and nothing removed it"
                                    % (w["op"], w["id"]))
    return viol, known


# ------------------------------------------------------------------ the exported queue on its own (C08, second half)

def gen_qprog(rng):
    ids = ["u%d" % i for i in range(1, 8)]
    ts = 10

    def order(k):
        nonlocal ts
        ts += rng.randint(0, 2)
        return gen.order("S", oid=k, price=100, side="S", ts=ts, tif="GTC", vis=rng.randint(1, 9))
    pool = list(ids)
    rng.shuffle(pool)
    setup = ["QPUSH " + order(pool.pop()) for _ in range(rng.randint(0, 3))]
    threads = []
    for t in range(rng.choice([2, 2, 3, 3, 4])):
        ops = []
        for _ in range(rng.randint(1, 4)):
            x = rng.random()
            if x < 0.3 and pool:
                ops.append("QPUSH " + order(pool.pop()))       # ids pushed once: no known-finding K2 involved
            elif x < 0.6:
                ops.append("QPOP")
            elif x < 0.75:
                ops.append("QREMOVE " + rng.choice(ids))
            elif x < 0.87:
                ops.append("QFIND " + rng.choice(ids))
            else:
                ops.append(rng.choice(["QLEN", "QEMPTY", "QVEC"]))
        threads.append(ops)
    return setup, threads


def run_qprogs(lines, profile="debug", timeout=1800):
    recs = {}
    pending = list(lines)
    order_ids = [l.split("|", 1)[0] for l in lines]
    guard = 0
    while pending and guard < 200:
        guard += 1
        p = subprocess.run([harness_bin(profile), "qconc", MODELRUN], input="\n".join(pending) + "\n",
                           text=True, stdout=subprocess.PIPE, timeout=timeout)
        cur, last = None, None
        for l in p.stdout.splitlines():
            tag, _, rest = l.partition(" ")
            if tag == "P":
                cur = dict(id=rest, ev=[], X=[], U=[], Q=None, V=None, D=None, K=None, I0=None, N=None)
                recs[rest] = cur
                last = rest
            elif cur is None:
                continue
            elif tag in ("S", "B", "R"):
                cur["ev"].append((tag, rest))
            elif tag == "U":
                cur["U"].append(rest)
            elif tag == "X":
                cur["X"].append(rest)
            elif tag in ("Q", "V", "D", "K", "I0", "N"):
                cur[tag] = rest
        if p.returncode in (3, 4) and last is not None:
            k = [i for i, l in enumerate(pending) if l.split("|", 1)[0] == last][0]
            pending = pending[k + 1:]
        else:
            break
    return [recs[i] for i in order_ids if i in recs]


def judge_queue_run(rec):
    """Every order handed to the queue is handed out exactly once: to one popper / remover during the run,
    or by the draining pops afterwards; never to two, never to none."""
    if rec["X"]:
        return "run aborted: " + "; ".join(rec["X"])
    live = {}
    for o in gen.parse_list(kv(rec["I0"])["vec"]):
        live[gen.parse_order(o)["id"]] = o
    handed = []
    for tag, rest in rec["ev"]:
        if tag == "S":
            tid, ev = rest.split(" ", 1)
            if ev.startswith("INS "):
                o = ev[4:]
                live[gen.parse_order(o)["id"]] = o
            elif ev.startswith("REM ") and not ev.endswith(" -"):
                _, k, o = ev.split(" ")
                if k not in live:
                    return "order %s handed out twice" % k
                del live[k]
                handed.append(o)
    q = kv(rec["Q"])
    listed = gen.parse_list(q["vec"])
    if sorted(listed) != sorted(live.values()):
        return "listing at quiescence %s != orders still queued by the event log %s" % (listed, sorted(live.values()))
    if int(q["len"]) != len(listed) or (q["empty"] == "1") != (len(listed) == 0):
        return "len/is_empty (%s/%s) disagree with the listing of %d orders" % (q["len"], q["empty"], len(listed))
    d = kv(rec["D"])
    popped = gen.parse_list(d["popped"])
    if sorted(popped) != sorted(listed):
        return "draining pops return %s, the queue listed %s (an order is stranded or duplicated)" % (popped, listed)
    return None
