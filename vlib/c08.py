"""C08 — concurrent operations never strand or duplicate an order."""
from . import conc
from .concprop import *


def run(tier, seed, replay=None):
    return run_conc_property(
        "C08", tier, seed, replay,
        judges=[("handed out exactly once", conc.judge_handout),
                ("draining match", lambda rec, prog, info: conc.judge_drain(rec))],
        n_quick=2500, n_thorough=60000)
