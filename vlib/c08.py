"""C08 — concurrent operations never strand or duplicate an order."""
from . import conc
from .concprop import *


def queue_part(ck):
    """Second half of the quantifier: concurrent push / pop / remove / find on the exported queue itself."""
    import random
    rng = random.Random(ck.seed + 8)
    if os.path.exists(os.path.join(COQ, "Properties", "C08queue.v")):
        pr = check_proofs("C08queue", coqchk=(ck.tier == "thorough"))
        for t in pr["theorems"]:
            ck.oblige("theorem " + t, pr["ok"], pr["failed"] or "")
        if not pr["ok"]:
            ck.violation("queue_proofs", dict(broken=pr["failed"], theorem="Properties/C08queue.v", log=pr["log"][-1500:]), note="no-failing-input-found")
    n = 800 if ck.tier == "quick" else 20000
    lines = []
    for i in range(n):
        setup, threads = conc.gen_qprog(rng)
        lines.append("q%d|%s|%s|r%d" % (i, ";".join(setup), "#".join(";".join(t) for t in threads), rng.randint(1, 10 ** 9)))
    recs = conc.run_qprogs(lines)
    bad, rej = [], []
    for rec, line in zip(recs, lines):
        j = conc.judge_queue_run(rec)
        if j:
            bad.append((line, rec["K"], j))
        v = rec["V"] or ""
        if rec.get("U"):
            rej.append((line, rec["K"], "shared objects of the queue do not match Model/ConcQ.v: " + "; ".join(rec["U"])[:300]))
        elif not v.startswith("accepted"):
            rej.append((line, rec["K"], v[:300]))
        else:
            # return values of every call
            mrets = [t.split("|") if t else [] for t in kv(v)["rets"].split("#")]
            irets = {}
            for tag, rest in rec["ev"]:
                if tag == "R":
                    tid, ci, r = rest.split(" ", 2)
                    irets.setdefault(int(tid), []).append(r)
            for tid, rs in irets.items():
                for ci, r in enumerate(rs):
                    m = mrets[tid][ci] if tid < len(mrets) and ci < len(mrets[tid]) else "<none>"
                    if r.startswith("vec:") and m.startswith("vec:"):
                        if canon_vec(r[4:]) != canon_vec(m[4:]):
                            rej.append((line, rec["K"], "thread %d call %d listing differs" % (tid, ci)))
                    elif r != m:
                        rej.append((line, rec["K"], "thread %d call %d returns %s, model %s" % (tid, ci, r, m)))
    ck.cov["evaluations"] += sum(len(r["ev"]) for r in recs)
    ck.extra["queue_programs"] = len(recs)
    ck.oblige("queue alone: every scheduled run accepted by Model/ConcQ.v, same return values", not rej, "%d runs" % len(rej))
    ck.oblige("queue alone judge: every order handed out exactly once (event log + draining pops)", not bad, "%d runs" % len(bad))
    if bad:
        line, k, why = bad[0]
        ck.violation("queue_fail", dict(kind="qconc-program", program=line, schedule=k, why=why))
    elif rej:
        line, k, v = rej[0]
        ck.violation("queue_unproved", dict(kind="qconc-program", broken="correspondence OrderQueue / Model.ConcQ", program=line,
                                            schedule=k, model_says=v), note="no-failing-input-found")


def run(tier, seed, replay=None):
    return run_conc_property(
        "C08", tier, seed, replay,
        judges=[("handed out exactly once", conc.judge_handout),
                ("draining match", lambda rec, prog, info: conc.judge_drain(rec))],
        n_quick=2500, n_thorough=60000, extra_obligations=queue_part, flags="drain,mode=O,proj=map+tk")
