"""C08 — concurrent operations never strand or duplicate an order."""
from . import conc
from .concprop import *
from . import c03
from .c03 import CoqJudges


def queue_part(ck):
    """Second half of the quantifier: concurrent push / pop / remove / find on the exported queue itself."""
    import random
    rng = random.Random(ck.seed + 8)
    if os.path.exists(os.path.join(COQ, "Properties", "C08queue.v")):
        pr = check_proofs("C08queue", coqchk=(ck.tier == "thorough"))
        for t in pr["theorems"]:
            ck.oblige("theorem " + t, pr["ok"], pr["failed"] or "")
        if not pr["ok"]:
            ck.violation("queue_proofs", dict(broken=pr["failed"], theorem="Properties/C08queue.v", log=pr["log"][-1500:]), note="no-failing-input-found")
    n = 800 if ck.tier == "quick" else 20000
    lines = []
    for i in range(n):
        setup, threads = conc.gen_qprog(rng)
        lines.append("q%d|%s|%s|r%d" % (i, ";".join(setup), "#".join(";".join(t) for t in threads), rng.randint(1, 10 ** 9)))
    recs = conc.run_qprogs(lines)
    bad, rej = [], []
    for rec, line in zip(recs, lines):
        j = conc.judge_queue_run(rec)
        if j:
            bad.append((line, rec["K"], j))
        v = rec["V"] or ""
        if rec.get("U"):
            rej.append((line, rec["K"], "shared objects of the queue do not match Model/ConcQ.v: " + "; ".join(rec["U"])[:300]))
        elif not v.startswith("accepted"):
            rej.append((line, rec["K"], v[:300]))
        else:
            # return values of every call
            mrets = [t.split("|") if t else [] for t in kv(v)["rets"].split("#")]
            irets = {}
            for tag, rest in rec["ev"]:
                if tag == "R":
                    tid, ci, r = rest.split(" ", 2)
                    irets.setdefault(int(tid), []).append(r)
            for tid, rs in irets.items():
                for ci, r in enumerate(rs):
                    m = mrets[tid][ci] if tid < len(mrets) and ci < len(mrets[tid]) else "<none>"
                    if r.startswith("vec:") and m.startswith("vec:"):
                        if canon_vec(r[4:]) != canon_vec(m[4:]):
                            rej.append((line, rec["K"], "thread %d call %d listing differs" % (tid, ci)))
                    elif r != m:
                        rej.append((line, rec["K"], "thread %d call %d returns %s, model %s" % (tid, ci, r, m)))
    ck.cov["evaluations"] += sum(len(r["ev"]) for r in recs)
    ck.extra["queue_programs"] = len(recs)
    ck.oblige("queue alone: every scheduled run accepted by Model/ConcQ.v, same return values", not rej, "%d runs" % len(rej))
    ck.oblige("queue alone judge: every order handed out exactly once (event log + draining pops)", not bad, "%d runs" % len(bad))
    if bad:
        line, k, why = bad[0]
        ck.violation("queue_fail", dict(kind="qconc-program", program=line, schedule=k, why=why))
    elif rej:
        line, k, v = rej[0]
        ck.violation("queue_unproved", dict(kind="qconc-program", broken="correspondence OrderQueue / Model.ConcQ", program=line,
                                            schedule=k, model_says=v), note="no-failing-input-found")


# ---- the statements handed to the extracted Coq judges (Spec/ConcJudges.v; Properties/Tie.v Tie_judge_handout*,
# Tie_judge_cells*, Tie_judge_final_cells): per run, from the listing after the set-up, the map events of the scheduler's
# log in trace order (insert / remove / get, with the thread that performed them) and the listing at quiescence.
#   handout: no order is handed out by two successful removes without an insert in between, and only an order that was
#            resting or inserted is handed out                    (handout_b <=> HandoutOnce: C08_no_double_handout,
#                                                                  C08_handout_is_initial)
#   cells:   every remove / get of an id observes exactly the order last inserted under that id and not removed since,
#            and the listing at quiescence is the map so replayed  (cells_b, final_cells_b: C08_trace_cell for all ids)
#   drained: the draining match after quiescence: if it comes back with quantity remaining nothing is left that displays
#            quantity, and the aggregates it leaves are the sums over what remains   (drained_b <=> Drained:
#                                                                  C08_drain_after_quiescence, C01_match)
CJ = CoqJudges({"handout": "handed out at most once, handout_b",
                "cells": "every remove / get observes the last insert; listing at quiescence = replayed map, cells_b + final_cells_b",
                "drained": "draining match leaves nothing displayed and aggregates = sums over what remains, drained_b"})


def map_events(info):
    return [(tid, ev) for tid, ev in info.get("steps", []) if ev.startswith(("INS ", "REM ", "GET "))]


def handout_stmt_ok(vec0, evs):
    """python restatement of HandoutOnce (as handout_b computes it)"""
    live = {gen.parse_order(o)["id"] for o in vec0}
    for _, ev in evs:
        f = ev.split(" ")
        if f[0] == "INS":
            live.add(gen.parse_order(f[1])["id"])
        elif f[0] == "REM" and f[2] != "-":
            if f[1] not in live:
                return False
            live.discard(f[1])
    return True


def cells_stmt_ok(vec0, evs, fin):
    """python restatement of CellsOK /\\ FinalCells (as cells_b / final_cells_b compute them); listings are read as
    finite maps id -> order (first row of an id counts, as [lookup] does)"""
    m = {}
    for o in vec0:
        m.setdefault(gen.parse_order(o)["id"], o)
    for _, ev in evs:
        f = ev.split(" ")
        if f[0] == "INS":
            m[gen.parse_order(f[1])["id"]] = f[1]
        elif f[0] in ("REM", "GET"):
            if m.get(f[1], "-") != f[2]:
                return False
            if f[0] == "REM":
                m.pop(f[1], None)
    if fin is not None:
        fm = {}
        for o in fin:
            fm.setdefault(gen.parse_order(o)["id"], o)
        if fm != m:
            return False
    return True


def judge_handout(rec, prog, info):
    """conc.judge_handout AND the extracted handout_b / cells_b + final_cells_b on the same event log and listings:
    the run fails if any of them rejects."""
    py = conc.judge_handout(rec, prog, info)
    d0, vec0 = conc.setup_facts(prog, rec)
    evs = map_events(info)
    fin = gen.parse_list(kv(rec["Q"])["vec"]) if rec["Q"] and rec["Q"] != "aborted" else None
    toks = " ".join("%d~%s" % (tid, ev.replace(" ", "~")) for tid, ev in evs)
    v1 = CJ.judge("handout", "handout %s %s" % (d0["vec"], toks), handout_stmt_ok(vec0, evs), rec, prog)
    v2 = CJ.judge("cells", "cells %s %s %s" % (d0["vec"], kv(rec["Q"])["vec"] if fin is not None else "-", toks),
                   cells_stmt_ok(vec0, evs, fin), rec, prog)
    if py:
        return py
    if v1 is None or v2 is None:
        return "the extracted judges handout_b / cells_b could not read the map events of this run"
    if not v1:
        return "extracted judge handout_b rejects: an order is handed out twice without an insert in between, or without ever being in the map"
    if not v2:
        return ("extracted judge cells_b / final_cells_b rejects: a remove / get does not observe the order last inserted under its id, "
                "or the listing at quiescence is not the map replayed from the event log")
    return None


def drained_stmt_ok(d):
    """python restatement of Drained (Spec/ConcJudges.v) on the state line after the draining match"""
    vec = [gen.parse_order(o) for o in gen.parse_list(d["vec"])]
    return ((int(d["rem"]) == 0 or all(o["vis"] == 0 for o in vec)) and
            (int(d["cv"]), int(d["ch"]), int(d["cc"])) == (sum(o["vis"] for o in vec), sum(o["hid"] for o in vec), len(vec)))


def judge_drain(rec, prog, info):
    """conc.judge_drain AND the extracted drained_b on the same result of the draining match."""
    py = conc.judge_drain(rec)
    if rec["D"] is None or rec["D"] == "panic":
        return py
    d = kv(rec["D"])
    v = CJ.judge("drained", "drained %s %s %s %s %s" % (d["rem"], d["vec"], d["cv"], d["ch"], d["cc"]), drained_stmt_ok(d), rec, prog)
    if py:
        return py
    if v is None:
        return "the extracted judge drained_b could not read the result of the draining match %s" % rec["D"][-200:]
    if not v:
        return ("extracted judge drained_b rejects: the draining match returned with %s remaining and left %s with aggregates (%s,%s,%s)"
                % (d["rem"], d["vec"][:300], d["cv"], d["ch"], d["cc"]))
    return None


def extra(ck):
    CJ.obligations(ck)
    queue_part(ck)


def run(tier, seed, replay=None):
    return run_conc_property(
        "C08", tier, seed, replay,
        judges=[("handed out exactly once", judge_handout),
                ("draining match", judge_drain)],
        n_quick=2500, n_thorough=60000, extra_obligations=extra, flags="drain,mode=O,proj=map+tk",
        extra_lines=lambda rng, tier: ([l.replace("|drain,mode=O", "|drain,mode=O,proj=map+tk") for l in c03.extra_lines(rng, tier)] +
                                       conc.long_past_lines(rng, 12 if tier == "quick" else 150, "drain,mode=O,proj=map+tk")))
