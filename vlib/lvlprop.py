"""Shared driver for the properties decided over sequential PriceLevel histories
(C01, C02, C04, C06, C07, C10, C11, C15): proof obligations + lock-step
correspondence (scoped to the observables the property depends on) + the
property's judge applied to the implementation's own trace + verdict logic."""
import json
import random

from . import gen, lvl
from .common import *


def coq_judge(queries):
    """Runs `JUDGE …` queries through the extracted judges of Spec/Judges.v (modelrun); returns list of bools."""
    import subprocess
    if not queries:
        return []
    p = subprocess.run([MODELRUN], input="".join("JUDGE " + q + "\n" for q in queries), text=True,
                       stdout=subprocess.PIPE, timeout=1200)
    ans = p.stdout.splitlines()
    if len(ans) != len(queries):
        raise RuntimeError("judge co-process answered %d of %d queries" % (len(ans), len(queries)))
    return [a == "= 1" for a in ans]


def load_corpus(pid):
    """corpus/<pid>.txt: one case per line `price|op|op|...` (# comments)."""
    out = []
    p = os.path.join(CORPUS, pid + ".txt")
    if os.path.exists(p):
        for l in open(p):
            l = l.strip()
            if l and not l.startswith("#"):
                f = l.split("|")
                out.append((int(f[0]), f[1:]))
    return out


def state_agg_ok(d):
    """Agg on an implementation state line (dict from kv)."""
    vec = gen.parse_list(d["vec"])
    sv = sum(gen.parse_order(o)["vis"] for o in vec)
    sh = sum(gen.parse_order(o)["hid"] for o in vec)
    if (int(d["cv"]), int(d["ch"]), int(d["cc"])) != (sv, sh, len(vec)):
        return "aggregates (visible %s, hidden %s, count %s) != sums over the listed orders (%d, %d, %d)" % (
            d["cv"], d["ch"], d["cc"], sv, sh, len(vec))
    return None


class LevelRun:
    """One batch of histories through the harness, with lookup by case id."""

    def __init__(self, cases, mode="O", profile="debug"):
        # cases: list of (cid, price, ops)
        self.cases = {c[0]: c for c in cases}
        lines = [lvl.case_line(cid, price, mode, ops) for (cid, price, ops) in cases]
        self.recs = lvl.run_cases(lines, profile) if lines else []
        self.mode, self.profile = mode, profile


def run_property(pid, tier, seed, replay, *, make_cases, judge, corr_filter=None, checker_note="",
                 classify=None, mode="O", rule="", profiles=None, extra_obligations=None, nontrivial=None,
                 coq_queries=None):
    """
    make_cases(rng, tier) -> list of (price, ops)            (corpus is prepended automatically)
    judge(rec, price, ops) -> list of (opindex, text)         property violated by the IMPLEMENTATION trace
    corr_filter(text) -> bool                                 which model/impl differences matter to this property
    classify(rec, price, ops, opindex, text) -> None | "Kx …" known-finding attribution of a judge failure
    """
    ck = Check(pid, tier, seed)
    rng = random.Random(seed)
    pr = check_proofs(pid, coqchk=(tier == "thorough"))
    for t in pr["theorems"]:
        ck.oblige("theorem " + t, pr["ok"], pr["failed"] or "")
    if not pr["theorems"]:
        ck.oblige("Properties/%s.v" % pid, False, pr["failed"] or "")
    ck.assumptions = ["Print Assumptions: " + (", ".join(pr["assumptions"]) or "Closed under the global context (all theorems)")] + ([pr["coqchk"]] if pr.get("coqchk") else [])
    build_modelrun()
    build_harness("debug")
    profiles = profiles or (["debug", "release"] if tier == "thorough" else ["debug"])
    if "release" in profiles:
        build_harness("release")

    if replay:
        r = json.load(open(replay))
        raw = [(r["price"], r["ops"])]
        if r.get("judge_mode") == "C":
            mode = "C" + mode[1:]      # the failure was judged against the model's own per-order function
    else:
        raw = load_corpus(pid) + make_cases(rng, tier)
    cases = [("c%d" % i, p, ops) for i, (p, ops) in enumerate(raw)]

    corr_bad, judge_bad, known_hits, iface_bad = [], [], {}, []
    formal = []          # (rec, price, ops, opindex, query, text, profile): decided by the extracted Coq judges below
    n_ops = 0
    distinct = set()
    dist = {}
    passes = [(prof, mode, cases) for prof in profiles]
    if not replay:
        # the same histories with a client that KEEPS the handles the library returns (mode K), and - in the quick tier, which
        # otherwise runs the debug build only - a sample under the release build (debug_assert!, overflow checks differ)
        passes.append(("debug", mode + "K", cases[::4]))
        if "release" not in profiles and pid in ("C01", "C15"):
            build_harness("release")
            passes.append(("release", mode, cases[:250]))
    elif r.get("run_mode"):
        passes = [(str(r.get("profile", "debug")).split("/")[0], r["run_mode"], cases)]
    for prof, pmode, pcases in passes:
        run = LevelRun(pcases, pmode, prof)
        prof = prof if pmode == mode else "%s/%s" % (prof, pmode)
        for rec in run.recs:
            cid, price, ops = run.cases[rec["case"]]
            n_ops += len(rec["ops"])
            for o in ops:
                k = o.split(" ")[0]
                dist[k] = dist.get(k, 0) + 1
            if nontrivial is None or nontrivial(rec, price, ops):
                distinct.add((price, tuple(ops)))
            if rec["timeout_at"] is not None:
                judge_bad.append((rec, price, ops, rec["timeout_at"], "the implementation did not return from this call within its time budget", prof))
                continue
            diffs = lvl.compare(rec)
            if corr_filter:
                diffs = [d for d in diffs if corr_filter(d[1])]
            if diffs:
                corr_bad.append((rec, price, ops, diffs[0][0], diffs[0][1], prof))
            if rec["end"] and "iface=1" not in rec["end"]:
                iface_bad.append((rec, price, ops, prof))
            if coq_queries:
                for (i, q, text) in coq_queries(rec, price, ops):
                    formal.append((rec, price, ops, i, q, text, prof))
            for (i, text) in judge(rec, price, ops):
                k = classify(rec, price, ops, i, text) if classify else None
                if k:
                    known_hits.setdefault(k.split(" ")[0], (k, price, ops))
                else:
                    judge_bad.append((rec, price, ops, i, text, prof))
                break    # first failure of a case is enough
        if len(run.recs) != len(pcases):
            ck.oblige("harness ran all cases (%s)" % prof, False, "%d of %d" % (len(run.recs), len(pcases)))

    if iface_bad and not judge_bad and mode.startswith("O") and not replay:
        # the implementation's per-order answers break the interface the theorems assume.  In oracle mode model and judge
        # follow those answers; run the same histories against the model's OWN per-order function (mode C) so that the
        # judge sees what the property demands independently of the implementation's per-order function
        redo = [("i%d" % k, price, ops) for k, (rec, price, ops, prof) in enumerate(iface_bad[:40])]
        run_c = LevelRun(redo, "C" + mode[1:], "debug")
        for rec in run_c.recs:
            cid, price, ops = run_c.cases[rec["case"]]
            if rec["timeout_at"] is not None:
                continue
            for (i, text) in judge(rec, price, ops):
                if not (classify and classify(rec, price, ops, i, text)):
                    judge_bad.append((rec, price, ops, i, text + " [judged against the model's own per-order function: the "
                                      "implementation's per-order answers violate the interface I_cons]", "debug"))
                break

    if formal:
        verdicts = coq_judge([f[4] for f in formal])
        fails = [f for f, v in zip(formal, verdicts) if not v]
        seen_cases = set()
        for (rec, price, ops, i, q, text, prof) in fails:
            if id(rec) in seen_cases:
                continue
            seen_cases.add(id(rec))
            judge_bad.append((rec, price, ops, i, text + " [extracted judge: JUDGE %s -> false]" % q[:120], prof))
        ck.oblige("formal judge (Spec/Judges.v, extracted): %d statements evaluated on implementation observations" % len(formal),
                  not fails, "%d false" % len(fails))
    ck.cov["evaluations"] = n_ops
    ck.cov["distinct_nontrivial"] = len(distinct)
    ck.cov["rule"] = rule or ("single-threaded histories (corpus first, then generated from one PRNG); an evaluation is one operation "
                              "executed on implementation and model; non-trivial = history reaching a non-empty book with a match or update; distinct by text")
    ck.cov["samples"] = [dict(price=c[1], ops=c[2][:12]) for c in cases[:2]]
    ck.cov["traces_validated_against_impl"] = len(cases) * len(profiles)
    ck.extra["input_distribution"] = dict(histories=len(cases), op_mix=dist, profiles=profiles, mode=mode)
    ck.oblige("correspondence: implementation = model on the observables of %s, every operation of every history" % pid,
              not corr_bad, "%d histories differ" % len(corr_bad))
    ck.oblige("interface: every match_against answer of the implementation satisfies I_cons (Spec/Iface.v)",
              not iface_bad, "%d histories" % len(iface_bad))
    ck.oblige("judge: the property holds on every implementation trace (outside listed known findings)",
              not judge_bad, "%d histories fail" % len(judge_bad))
    if extra_obligations:
        extra_obligations(ck)
    if tier == "thorough" and not replay and pid in ("C01", "C02", "C07"):
        extraction_crosscheck(ck, rng)

    # known findings: print the ones listed in known_findings.json that reproduced
    listed = {f["id"]: f for f in known_findings()["findings"] if pid in f["properties"]}
    for kid, (text, price, ops) in sorted(known_hits.items()):
        if kid in listed:
            ck.known("%s: %s" % (kid, listed[kid]["what"]))
        else:
            # a class the file does not list: report as a violation
            judge_bad.append((None, price, ops, -1, "unlisted finding class: " + text, "debug"))

    def fails(price, ops_try, md=None):
        run = LevelRun([("s", price, ops_try)], md or mode, "debug")
        if not run.recs:
            return False
        rec = run.recs[0]
        if rec["timeout_at"] is not None:
            return True
        for (i, text) in judge(rec, price, ops_try):
            if not (classify and classify(rec, price, ops_try, i, text)):
                return True
        if coq_queries:
            qs = [q for (_, q, _) in coq_queries(rec, price, ops_try)]
            if qs and not all(coq_judge(qs)):
                return True
        return False

    if judge_bad:
        judge_bad.sort(key=lambda x: len(x[2]))
        rec, price, ops, i, text, prof = judge_bad[0]
        small = ops
        try:
            if rec is not None and len(ops) > 1:
                md = ("C" + mode[1:]) if "[judged against the model's own per-order function" in text else mode
                if "/" in str(prof):
                    md = str(prof).split("/")[1]
                small = lvl.shrink(ops, lambda o: fails(price, o, md))
        except Exception:
            small = ops
        run = LevelRun([("s", price, small)], md if rec is not None and len(ops) > 1 else mode, "debug")
        trace = [dict(op=o["op"], impl=o["I"], model=o["M"]) for o in run.recs[0]["ops"]] if run.recs else []
        ck.violation("fail", dict(kind="level-history", price=price, ops=small, failing_op=i, why=text, profile=prof,
                                  judge_mode=("C" if "[judged against the model's own per-order function" in text else mode[:1]),
                                  run_mode=(str(prof).split("/")[1] if "/" in str(prof) else None),
                                  original_length=len(ops), trace=trace, failures=len(judge_bad)))
    elif corr_bad or iface_bad or not pr["ok"]:
        first = None
        if corr_bad:
            rec, price, ops, i, text, prof = corr_bad[0]
            first = dict(price=price, ops=ops, op_index=i, difference=text)
        elif iface_bad:
            rec, price, ops, prof = iface_bad[0]
            first = dict(price=price, ops=ops, difference="a match_against answer violates I_cons")
        ck.violation("unproved", dict(
            kind="level-history",
            broken=("correspondence model/implementation" if corr_bad else
                    "interface I_cons of the per-order function" if iface_bad else pr["failed"]),
            theorem=(None if pr["ok"] else "Properties/%s.v: %s" % (pid, pr["failed"])),
            first_disagreement=first, log=pr["log"][-1500:] if not pr["ok"] else ""),
            note="no-failing-input-found")
    return ck.finish("cd /verif/coq && make Properties/%s.vo   (+ ./check %s for correspondence and judge) %s" % (pid, pid, checker_note))


# ---------------------------------------------------------------- common case makers

def histories(rng, n, lo=5, hi=40, n_long=None, **kw):
    """n ordinary histories plus a share of LONG ones (150-450 operations, many cancels and amendments):
    queue-internal thresholds (compaction, resizing, batch limits) are only crossed by long histories."""
    out = []
    n_burst = kw.pop("n_burst", max(3, n // 400))
    off_price = "at_level_price" not in kw
    for i in range(n):
        if off_price:
            # a third of the histories hold orders whose own price field differs from the level's (add_order never checks it),
            # with re-pricings aimed at the level's price and at the orders' own prices
            kw["at_level_price"] = (i % 3 != 1)
        g = lvl.HistGen(rng, big=(i % 12 == 0), **kw)
        g.upd_heavy = (i % 9 == 4)
        out.append((g.price, g.history(rng.randint(lo, hi) * (2 if g.upd_heavy else 1))))
    # tombstone bursts: N amendments of one order, or N add+cancel pairs, in front of a live order, then a sweep
    # (thresholds inside queue code: 64, 256, 1024 dead entries)
    for i in range(n_burst):
        N = rng.choice([63, 64, 65, 255, 256, 257, 1023, 1024, 1025]) if i % 3 else rng.choice([64, 1024, 1025])
        ops = ["ADD " + gen.order("S", oid="u1", price=100, side="S", ts=10, tif="GTC", vis=11)]
        if rng.random() < 0.5:
            for j in range(N):
                ops.append("UPD UQ:u1:%d" % (10 + j % 3))
        else:
            for j in range(N):
                ops.append("ADD " + gen.order("S", oid="u%d" % (100 + j), price=100, side="S", ts=11 + j, tif="GTC", vis=1))
                ops.append("UPD C:u%d" % (100 + j))
        ops.append("ADD " + gen.order("S", oid="l2", price=100, side="S", ts=5000, tif="GTC", vis=20))
        ops.append("MATCH %d u7000" % rng.choice([31, 40, 1 << 40]))
        ops.append("UPD C:l2")
        ops.append("ADD " + gen.order("I", oid="u3", price=100, side="B", ts=6000, tif="GTC", vis=2, hid=5))
        ops.append("MATCH 3 u7001")
        out.append((100, ops))
    out += deep_histories(rng, kw.pop("n_deep", max(6, n // 150)), rebuild=kw.get("rebuilds", True))
    n_long = max(20, n // 40) if n_long is None else n_long
    for i in range(n_long):
        g = lvl.HistGen(rng, **kw)
        out.append((g.price, g.history(rng.randint(150, 450))))
    return out


def deep_histories(rng, n, rebuild=None, fork=False, sizes=None, mixed=None):
    """Levels that are DEEP (33 .. 300 resting orders, strictly increasing timestamps, fresh ids: no known-finding taint):
    per-sweep chunking, batch loading on restore and size-gated fast paths only exist beyond round numbers of resting orders.
    Uniform books of Standard orders of 10 with takers of 10*k+5 (the partial fill lands exactly on the k-th order, k around
    32 / 64 / 128 / 256) alternate with mixed books (all seven types, icebergs and reserves with hidden quantity).
    rebuild: None | True (REBUILD through every path after the first sweep); fork: FORK before the sweeps (C11)."""
    out = []
    for i in range(n):
        N = rng.choice(sizes or [33, 34, 40, 65, 66, 70, 129, 130, 257, 258, 300])
        uniform = (i % 2 == 0) if mixed is None else (not mixed)
        ops, ts = [], 100
        for j in range(N):
            ts += rng.randint(1, 3)
            oid = ("u%d" if rng.random() < 0.8 else "l%d") % (j + 1)
            if uniform:
                ops.append("ADD " + gen.order("S", oid=oid, price=100, side="S", ts=ts, tif="GTC", vis=10))
            else:
                k = rng.choice(gen.KINDS)
                ops.append("ADD " + gen.order(k, oid=oid, price=100, side=rng.choice("BS"), ts=ts, tif=rng.choice(gen.TIFS),
                                              vis=rng.randint(1, 12), hid=rng.choice([0, 3, 17]) if k in "IR" else 0,
                                              thr=rng.choice([0, 1, 5]), amt=rng.choice([None, 0, 2, 10, 80]), auto=rng.random() < 0.7))
        via = lvl.VIAS[i % len(lvl.VIAS)]
        if fork:
            ops.append("FORK " + via)
        if rebuild and i % 2 == 1:
            ops.append("REBUILD " + lvl.VIAS[(i // 2) % len(lvl.VIAS)])      # the full-depth level through a rebuild path
        ks = [k for k in (4, 31, 32, 33, 63, 64, 65, 127, 128, 129, 255, 256, 257) if k < N]
        first = True
        for _ in range(rng.randint(2, 4)):
            k = rng.choice(ks[-4:] if first else ks)
            ops.append("MATCH %d u%d" % ((10 * k + 5) if uniform else rng.choice([7, 60, 5 * k, 9 * k]), 7300 + len(ops)))
            if first and rebuild:
                ops.append("REBUILD " + via)
            first = False
            x = rng.random()
            if x < 0.3:
                ops.append("UPD UQ:%s:%d" % (("u%d" % rng.randint(1, N)), rng.choice([4, 10, 15])))
            elif x < 0.45:
                ops.append("UPD C:u%d" % rng.randint(1, N))
            elif x < 0.6:
                ts += 1
                ops.append("ADD " + gen.order("S", oid="u%d" % (N + 1 + len(ops)), price=100, side="S", ts=ts, tif="GTC", vis=10))
            ops.append("MATCH %d u%d" % (rng.choice([10, 24, 50]), 7400 + len(ops)))
        ops.append("MATCH %d u7999" % (1 << 40))
        out.append((100, ops))
    return out


def nontrivial_default(rec, price, ops):
    return any(o.startswith("MATCH") or o.startswith("UPD") for o in ops) and any(o.startswith("ADD") for o in ops)


# ---------------------------------------------------------------- extraction cross-check (thorough tier)

def _n(v):
    return "%d%%N" % v


def coq_oid(k):
    return "(%s %s)" % ("Uuid" if k[0] == "u" else "Ulid", _n(int(k[1:])))


def coq_order(s):
    d = gen.parse_order(s)
    tif = d["tif"]
    tifc = {"GTC": "Gtc", "IOC": "Ioc", "FOK": "Fok", "DAY": "Day"}.get(tif) or "(Gtd %s)" % _n(int(tif[3:]))
    c = "(mkCommon %s %s %s %s %s)" % (coq_oid(d["id"]), _n(d["price"]), "Buy" if d["side"] == "B" else "Sell", _n(d["ts"]), tifc)
    k = d["kind"]
    if k == "S": return "(Standard %s %s)" % (c, _n(d["vis"]))
    if k == "P": return "(PostOnly %s %s)" % (c, _n(d["vis"]))
    if k == "M": return "(MarketToLimit %s %s)" % (c, _n(d["vis"]))
    if k == "I": return "(Iceberg %s %s %s)" % (c, _n(d["vis"]), _n(d["hid"]))
    if k == "T": return "(TrailingStop %s %s %s %s)" % (c, _n(d["vis"]), _n(int(d["params"][0])), _n(int(d["params"][1])))
    if k == "G":
        peg = {"BB": "BestBid", "BA": "BestAsk", "MP": "MidPrice", "LT": "LastTrade"}[d["params"][1]]
        return "(Pegged %s %s (%s)%%Z %s)" % (c, _n(d["vis"]), d["params"][0], peg)
    thr, amt, au = d["params"]
    return "(Reserve %s %s %s %s %s %s)" % (c, _n(d["vis"]), _n(d["hid"]), _n(int(thr)),
                                            "None" if amt == "-" else "(Some %s)" % _n(int(amt)), "true" if au == "1" else "false")


def coq_update(u):
    f = u.split(":")
    if f[0] == "C": return "(Cancel %s)" % coq_oid(f[1])
    if f[0] == "UP": return "(UpdatePrice %s %s)" % (coq_oid(f[1]), _n(int(f[2])))
    if f[0] == "UQ": return "(UpdateQuantity %s %s)" % (coq_oid(f[1]), _n(int(f[2])))
    if f[0] == "UPQ": return "(UpdatePriceAndQuantity %s %s %s)" % (coq_oid(f[1]), _n(int(f[2])), _n(int(f[3])))
    return "(Replace %s %s %s %s)" % (coq_oid(f[1]), _n(int(f[2])), _n(int(f[3])), "Buy" if f[4] == "B" else "Sell")


def extraction_crosscheck(ck, rng, n=120):
    """Sampled histories evaluated inside Coq (vm_compute on Model/Run.v) vs the extracted model + driver."""
    import subprocess
    cases = []
    for i in range(n):
        g = lvl.HistGen(rng, rebuilds=False, reads=False, forks=False)
        ops = [o for o in g.history(rng.randint(4, 25)) if o.split(" ")[0] in ("ADD", "MATCH", "UPD")]
        ops = [o for o in ops if not (o.startswith("MATCH") and int(o.split(" ")[1]) > (1 << 40))]
        cases.append((g.price, ops))
    # extracted model
    inp = []
    for price, ops in cases:
        inp.append("NEW %d C" % price)
        inp += ops
        inp.append("STATE")
    p = subprocess.run([MODELRUN], input="\n".join(inp) + "\n", text=True, stdout=subprocess.PIPE, timeout=600)
    outs = p.stdout.splitlines()
    finals, k = [], 0
    for price, ops in cases:
        k += 1 + len(ops)
        finals.append(outs[k][2:])
        k += 1
    # the generator counter is not part of STATE: recompute it from the number of transactions
    def summarise(state, n_tx):
        d = lvl.kv(state)
        st = [int(x) for x in d["st"].split("/")]
        m = gen.parse_list(d["map"])
        tk = gen.parse_list(d["tk"])

        def onum(k):
            return 2 * int(k[1:]) + (0 if k[0] == "u" else 1)
        h1 = 0
        for o in m:
            q = gen.parse_order(o)
            h1 = (h1 * 31 + onum(q["id"]) + 3 * q["vis"] + 7 * q["hid"]) % 1000000007
        h2 = 0
        for t in tk:
            h2 = (h2 * 31 + onum(t)) % 1000000007
        return [int(d["cv"]), int(d["ch"]), int(d["cc"]), n_tx] + st + [len(m), len(tk), h1, h2]
    # number of transactions per case = generator counter: count from MATCH answers
    ntx, k = [], 0
    for price, ops in cases:
        k += 1
        c = 0
        for o in ops:
            if o.startswith("MATCH"):
                c += len(gen.parse_list(lvl.kv(outs[k][2:])["txs"]))
            k += 1
        k += 1
        ntx.append(c)
    want = [summarise(f, c) for f, c in zip(finals, ntx)]
    path = os.path.join(COQ, "cases_lvl.v")
    with open(path, "w") as f:
        f.write("From PL Require Import Model.Run.\nOpen Scope N_scope.\n")
        for price, ops in cases:
            terms = []
            for o in ops:
                t = o.split(" ")
                if t[0] == "ADD": terms.append("RAdd %s" % coq_order(t[1]))
                elif t[0] == "MATCH": terms.append("RMatch %s %s" % (_n(int(t[1])), coq_oid(t[2])))
                else: terms.append("RUpd %s" % coq_update(t[1]))
            f.write("Eval vm_compute in run_summary 3000 %s [%s].\n" % (_n(price), "; ".join(terms)))
    rc, out = sh("timeout 900 coqc -noglob -Q . PL cases_lvl.v", cwd=COQ)
    for ext in (".v", ".vo", ".vok", ".vos", ".glob"):
        try: os.remove(os.path.join(COQ, "cases_lvl" + ext))
        except OSError: pass
    if rc != 0:
        ck.oblige("extraction cross-check (vm_compute) runs", False, out[-400:])
        return
    flat = " ".join(out.split())
    got = [[int(x) for x in m.split("; ")] for m in re.findall(r"= \[([0-9; ]+)\]", flat)]
    bad = [i for i, (a, b) in enumerate(zip(got, want)) if a != b]
    ck.oblige("extracted model + driver = vm_compute inside Coq (Model/Run.v) on %d sampled histories" % len(cases),
              not bad and len(got) == len(cases), "%d differ, %d evaluated; first: %s" % (len(bad), len(got), (cases[bad[0]], got[bad[0]], want[bad[0]]) if bad else ""))
