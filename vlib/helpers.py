"""Helper API — the crate's small pure functions (Side::opposite, OrderId::from_u64/nil/Default,
TimeInForce::is_immediate/has_expiry/is_expired, the OrderType accessors and predicates,
with_reduced_quantity, refresh_iceberg, Transaction::maker_side/total_value,
MatchResult::executed_quantity/executed_value/add_filled_order_id, the transaction list,
PriceLevel ==/cmp/total_quantity, the statistics recorders and reset) against Model/Helpers.v.

Laws: Properties/Helpers.v (proved).  Tie to the code: every generated call line `H <fn> <args>` is
answered by the implementation (harness mode `helpers`) and by the extracted model (modelrun,
command group `H` = build with overflow checks / `HR` = build without) and the answers are compared
line by line, in BOTH build profiles, because the u64 `*`, `+` and `.sum()` in these helpers panic in
one and wrap in the other.

Not a property of its own: `run_helpers(ck, ...)` adds its obligations to the check that calls it
(C05).  A disagreement in which the model's answer is what the proved law demands (restated in
`expect` below) and the implementation's is not is filed as a concrete violation naming the call;
any other failure as a correspondence violation without an input."""
import json
import subprocess

from . import gen
from .common import *

U = [0, 1, 2, 3, 79, 80, 81, (1 << 32) - 1, 1 << 32, (1 << 32) + 1, 1 << 53, (1 << 53) + 1,
     (1 << 63) - 1, 1 << 63, (1 << 63) + 1, W - 2, W - 1]
IDS = ["u0", "u1", "u2", "l0", "l5", "u340282366920938463463374607431768211455",
       "l340282366920938463463374607431768211455", "u18446744073709551616", "l18446744073709551616"]
PLAIN_TIFS = ["GTC", "IOC", "FOK", "DAY"]


# ---------------------------------------------------------------- generators

def num(rng):
    """boundary-biased u64"""
    r = rng.random()
    if r < 0.45:
        return rng.choice(U)
    if r < 0.70:
        return rng.randint(0, 10)
    if r < 0.85:
        return rng.randint(0, 1000)
    return rng.getrandbits(rng.randint(1, 64))


def small(rng):
    return rng.randint(0, 1000) if rng.random() < 0.8 else rng.choice([0, 1, 1 << 20, 1 << 31])


def rtif(rng):
    return rng.choice(PLAIN_TIFS) if rng.random() < 0.6 else "GTD%d" % num(rng)


def rorder(rng, kind=None, q=num):
    k = kind or rng.choice(gen.KINDS)
    return gen.order(k, oid=rng.choice(IDS), price=q(rng), side=rng.choice("BS"), ts=q(rng), tif=rtif(rng),
                     vis=q(rng), hid=q(rng), thr=q(rng), amt=rng.choice([None, q(rng)]), auto=rng.random() < 0.5,
                     trail=q(rng), lastref=q(rng),
                     off=rng.choice([0, 1, -1, (1 << 63) - 1, -(1 << 63), rng.randint(-1000, 1000)]),
                     peg=rng.choice(gen.PEGS))


def rtx(rng, q=num, idx=None):
    return "%d/%s/%s/%d/%d/%s" % (rng.randint(0, 9) if idx is None else idx, rng.choice(IDS), rng.choice(IDS),
                                  q(rng), q(rng), rng.choice("BS"))


def rtxs(rng, q=num):
    return "[%s]" % ",".join(rtx(rng, q, i) for i in range(rng.choice([0, 1, 1, 2, 2, 3, 5])))


def rorders(rng, q=num, maxn=3):
    n = rng.randint(0, maxn)
    # distinct ids (the level's map is keyed by id)
    ids = rng.sample(IDS, n)
    os = []
    for k in ids:
        o = rorder(rng, q=q).split(":")
        o[1] = k
        os.append(":".join(o))
    return "[%s]" % ",".join(os)


def rstats(rng):
    ops = []
    for _ in range(rng.randint(0, 8)):
        r = rng.random()
        if r < 0.25:
            ops.append("a")
        elif r < 0.45:
            ops.append("r")
        elif r < 0.55:
            ops.append("z")
        else:
            q = small if rng.random() < 0.6 else num
            ops.append("e:%d:%d" % (q(rng), q(rng)))
    return "[%s]" % ",".join(ops)


def fixed_calls():
    """the exhaustive / grid part (independent of the seed)"""
    c = [("opp", ["B"]), ("opp", ["S"]), ("oid_nil", []), ("oid_default", []), ("oid_default", [])]
    c += [("oid_u64", [str(n)]) for n in U]
    tifs = PLAIN_TIFS + ["GTD%d" % n for n in U]
    for t in tifs:
        c.append(("tif_imm", [t]))
        c.append(("tif_hasexp", [t]))
    nows = [0, 1, 2, 80, (1 << 53) + 1, 1 << 63, W - 2, W - 1]
    for t in PLAIN_TIFS + ["GTD%d" % n for n in nows]:
        for now in nows:
            for close in ["-"] + [str(n) for n in nows]:
                c.append(("tif_expired", [t, str(now), close]))
    hd = dict(oid="u7", price=100, side="S", ts=5)
    for k in gen.KINDS:
        for tif in PLAIN_TIFS + ["GTD0", "GTD18446744073709551615"]:
            o = gen.order(k, tif=tif, vis=6, hid=4, thr=1, amt=None, **hd)
            c.append(("acc", [o]))
        for v in (0, 5, W - 1):
            for h in (0, 3, W - 1):
                o = gen.order(k, tif="GTC", vis=v, hid=h, thr=1, amt=2, **hd)
                for a in (0, 1, 2, 3, 4, 80, 1 << 32, (1 << 53) + 1, 1 << 63, W - 1):
                    c.append(("wrq", [o, str(a)]))
                    c.append(("refresh", [o, str(a)]))
    for p in U:
        for q in U:
            t = "0/u1/u2/%d/%d/B" % (p, q)
            c.append(("tx_value", [t]))
            c.append(("mr_execv", ["[%s]" % t]))
    for s in "BS":
        c.append(("tx_maker", ["3/u1/l5/100/7/%s" % s]))
    for a in (0, 1, W - 2, W - 1, 1 << 63):
        for b in (0, 1, W - 1, 1 << 63):
            c.append(("mr_execq", ["[0/u1/u2/1/%d/B,1/u1/u0/1/%d/S]" % (a, b)]))
            c.append(("mr_execv", ["[0/u1/u2/1/%d/B,1/u1/u0/1/%d/S]" % (a, b)]))
    for p1 in (0, 1, 100, W - 1):
        for p2 in (0, 1, 100, W - 1):
            c.append(("lvl_cmp", [str(p1), "[]", str(p2), "[S:u1:100:S:1:GTC:5]"]))
    c += [("mr_filled", ["[]"]), ("txl", ["[]"]), ("lvl_total", ["100", "[]"]), ("stats", ["[]"]),
          ("stats", ["[a,a,e:5:100,r]"]), ("stats", ["[a,e:5:100,z]"]), ("stats", ["[z]"]),
          ("stats", ["[e:4294967296:4294967296,a]"]), ("stats", ["[e:%d:%d]" % (W - 1, W - 1)])]
    return c


def random_call(rng):
    r = rng.random()
    if r < 0.02:
        return ("opp", [rng.choice("BS")])
    if r < 0.06:
        return ("oid_u64", [str(num(rng))])
    if r < 0.09:
        return (rng.choice(["tif_imm", "tif_hasexp"]), [rtif(rng)])
    if r < 0.21:
        t = rtif(rng)
        now = num(rng)
        if t.startswith("GTD") and rng.random() < 0.6:
            e = int(t[3:])
            now = max(0, min(W - 1, e + rng.choice([-1, 0, 1])))
        close = "-" if rng.random() < 0.3 else str(max(0, min(W - 1, now + rng.choice([-1, 0, 1]))) if rng.random() < 0.5 else num(rng))
        return ("tif_expired", [t, str(now), close])
    if r < 0.29:
        return ("acc", [rorder(rng)])
    if r < 0.39:
        return ("wrq", [rorder(rng), str(num(rng))])
    if r < 0.53:
        o = rorder(rng, kind=rng.choice("IIRRSPTGM"))
        d = gen.parse_order(o)
        a = num(rng) if rng.random() < 0.6 else max(0, min(W - 1, d["hid"] + rng.choice([-1, 0, 1])))
        return ("refresh", [o, str(a)])
    if r < 0.56:
        return ("tx_maker", [rtx(rng)])
    if r < 0.64:
        return ("tx_value", [rtx(rng, small if rng.random() < 0.3 else num)])
    if r < 0.72:
        return ("mr_execq", [rtxs(rng, small if rng.random() < 0.4 else num)])
    if r < 0.82:
        return ("mr_execv", [rtxs(rng, small if rng.random() < 0.5 else num)])
    if r < 0.84:
        return ("mr_filled", ["[%s]" % ",".join(rng.choice(IDS) for _ in range(rng.randint(0, 4)))])
    if r < 0.87:
        return ("txl", [rtxs(rng)])
    if r < 0.92:
        p1 = num(rng)
        p2 = p1 if rng.random() < 0.4 else (max(0, min(W - 1, p1 + rng.choice([-1, 1]))) if rng.random() < 0.5 else num(rng))
        return ("lvl_cmp", [str(p1), rorders(rng, maxn=2), str(p2), rorders(rng, maxn=2)])
    if r < 0.96:
        return ("lvl_total", [str(num(rng)), rorders(rng, small if rng.random() < 0.4 else num, maxn=4)])
    return ("stats", [rstats(rng)])


def gen_calls(rng, n_random):
    return fixed_calls() + [random_call(rng) for _ in range(n_random)]


# ---------------------------------------------------------------- the laws, restated (python)

def _tx(s):
    i, tk, mk, p, q, sd = s.split("/")
    return dict(idx=int(i), taker=tk, maker=mk, price=int(p), qty=int(q), side=sd)


def _checked(release, total):
    return str(total % W) if release or total < W else "panic"


def _set_vis(o, q):
    p = o.split(":")
    p[6] = str(q)
    return ":".join(p)


def _level(p, os):
    cv = ch = cc = 0
    for o in gen.parse_list(os):
        d = gen.parse_order(o)
        cv, ch, cc = (cv + d["vis"]) % W, (ch + d["hid"]) % W, (cc + 1) % W
    return int(p), cv, ch, cc


def expect(fn, a, release):
    """What Properties/Helpers.v says the answer must be (None: no law restated for this call)."""
    opp = {"B": "S", "S": "B"}
    if fn == "opp":
        return opp[a[0]]                                                   # H_opposite_*
    if fn == "oid_u64":
        return "u%d" % (int(a[0]) << 64)                                   # H_from_u64_bytes
    if fn == "oid_nil":
        return "u0"
    if fn == "oid_default":
        return "ulid"                                                      # H_default_is_not_nil
    if fn == "tif_imm":
        return "1" if a[0] in ("IOC", "FOK") else "0"                      # H_tif_is_immediate
    if fn == "tif_hasexp":
        return "1" if a[0] == "DAY" or a[0].startswith("GTD") else "0"     # H_tif_has_expiry
    if fn == "tif_expired":                                                # H_tif_is_expired
        t, now, close = a[0], int(a[1]), a[2]
        if t.startswith("GTD"):
            return "1" if int(t[3:]) <= now else "0"
        if t == "DAY":
            return "1" if close != "-" and int(close) <= now else "0"
        return "0"
    if fn == "acc":
        d = gen.parse_order(a[0])
        return "id=%s price=%d side=%s ts=%d tif=%s vis=%d hid=%d imm=%d fok=%d po=%d" % (
            d["id"], d["price"], d["side"], d["ts"], d["tif"], d["vis"], d["hid"],
            d["tif"] in ("IOC", "FOK"), d["tif"] == "FOK", d["kind"] == "P")
    if fn == "wrq":                                                        # H_wrq_display / H_wrq_accessors
        return _set_vis(a[0], int(a[1])) if a[0][0] in "SIP" else a[0]
    if fn == "refresh":                                                    # H_refresh_iceberg
        d = gen.parse_order(a[0])
        if d["kind"] not in "IR":
            return a[0] + "/0"
        amt = int(a[1])
        used = min(d["hid"], amt)
        p = a[0].split(":")
        p[6], p[7] = str(amt), str(d["hid"] - used)
        return ":".join(p) + "/%d" % used
    if fn == "tx_maker":
        return opp[_tx(a[0])["side"]]                                      # H_maker_side
    if fn == "tx_value":
        t = _tx(a[0])
        return _checked(release, t["price"] * t["qty"])                    # H_total_value
    if fn == "mr_execq":                                                   # H_executed_quantity / _sums_mod
        return _checked(release, sum(_tx(t)["qty"] for t in gen.parse_list(a[0])))
    if fn == "mr_execv":                                                   # H_executed_value / _sums_mod
        return _checked(release, sum(_tx(t)["price"] * _tx(t)["qty"] for t in gen.parse_list(a[0])))
    if fn == "mr_filled":
        return a[0]                                                        # H_add_filled_order_id
    if fn == "txl":                                                        # H_transaction_list
        n = len(gen.parse_list(a[0]))
        return "len=%d empty=%d vec=%s" % (n, n == 0, a[0])
    if fn == "lvl_cmp":                                                    # H_level_order_is_price_order
        x, y = int(a[0]), int(a[2])
        c = "L" if x < y else ("E" if x == y else "G")
        return "eq=%d ne=%d cmp=%s pcmp=%s lt=%d le=%d gt=%d ge=%d" % (x == y, x != y, c, c, x < y, x <= y, x > y, x >= y)
    if fn == "lvl_total":                                                  # H_level_total_quantity
        p, cv, ch, cc = _level(a[0], a[1])
        return "price=%d vis=%d hid=%d cnt=%d total=%s" % (p, cv, ch, cc, _checked(release, cv + ch))
    if fn == "stats":                                                      # H_stats_reset / H_record_*
        s = [0, 0, 0, 0, 0]
        for i, op in enumerate(gen.parse_list(a[0])):
            f = op.split(":")
            if f[0] == "a":
                s[0] = (s[0] + 1) % W
            elif f[0] == "r":
                s[1] = (s[1] + 1) % W
            elif f[0] == "z":
                s = [0, 0, 0, 0, 0]
            else:
                q, p = int(f[1]), int(f[2])
                s[2] = (s[2] + 1) % W
                s[3] = (s[3] + q) % W
                if q * p >= W and not release:
                    return "panic@%d %s" % (i, "/".join(map(str, s)))     # H_record_execution_panic_state
                s[4] = (s[4] + q * p) % W
        return "/".join(map(str, s))
    return None


LAW = dict(opp="H_opposite_involutive / H_opposite_no_fixpoint", oid_u64="H_from_u64_bytes", oid_nil="H_from_u64_zero_is_nil",
           oid_default="H_default_is_not_nil", tif_imm="H_tif_is_immediate", tif_hasexp="H_tif_has_expiry",
           tif_expired="H_tif_is_expired", acc="accessors (H_order_is_immediate, H_order_is_fill_or_kill, H_order_is_post_only)",
           wrq="H_wrq_display / H_wrq_accessors", refresh="H_refresh_iceberg", tx_maker="H_maker_side",
           tx_value="H_total_value", mr_execq="H_executed_quantity / H_executed_sums_mod",
           mr_execv="H_executed_value / H_executed_sums_mod", mr_filled="H_add_filled_order_id", txl="H_transaction_list",
           lvl_cmp="H_level_order_is_price_order", lvl_total="H_level_total_quantity",
           stats="H_stats_reset / H_record_order_added / H_record_order_removed / H_record_execution")


# ---------------------------------------------------------------- running both sides

def run_impl(lines, profile):
    p = subprocess.run([harness_bin(profile), "helpers"], input="".join(l + "\n" for l in lines), text=True,
                       stdout=subprocess.PIPE, timeout=1800)
    return p.stdout.splitlines()


def run_model(lines):
    p = subprocess.run([MODELRUN], input="".join(l + "\n" for l in lines), text=True, stdout=subprocess.PIPE, timeout=1800)
    return [l[2:] if l.startswith("= ") else l for l in p.stdout.splitlines()]


def run_helpers(ck, tier, rng, replay=None):
    """Adds to [ck]: the theorems of Properties/Helpers.v, and the correspondence of the library's helper API with
    Model/Helpers.v in the debug and the release profile."""
    pr = check_proofs("Helpers", coqchk=(tier == "thorough"))
    for t in pr["theorems"]:
        ck.oblige("theorem " + t, pr["ok"], pr["failed"] or "")
    if not pr["theorems"]:
        ck.oblige("Properties/Helpers.v", False, pr["failed"] or "")
    ck.assumptions.append("Properties/Helpers.v Print Assumptions: " + (", ".join(pr["assumptions"]) or "Closed under the global context"))
    if not pr["ok"]:
        ck.violation("helpers_unproved", dict(kind="helpers", broken=str(pr["failed"]), theorem="Properties/Helpers.v: " + str(pr["failed"]),
                                              log=pr["log"][-1500:]), note="no-failing-input-found")

    build_modelrun()
    profiles = ["debug", "release"]
    for prof in profiles:
        build_harness(prof)

    only = None
    if replay:
        r = json.load(open(replay))
        if r.get("kind") != "helpers" or "call" not in r:
            return                      # a replay of the match_against part: nothing to re-run here
        only = r["call"].split(" ")
        calls = [(only[1], only[2:])]
        profiles = [r.get("profile", "debug")]
    else:
        calls = gen_calls(rng, 4000 if tier == "quick" else 100000)

    concrete, corr, broken, judge_bad = [], [], [], []
    n_eval = 0
    per_fn = {}
    panics = 0
    for prof in profiles:
        release = prof == "release"
        lines = [" ".join(["HR" if release else "H", fn] + args) for fn, args in calls]
        impl = run_impl(lines, prof)
        model = run_model(lines)
        if len(impl) != len(lines) or len(model) != len(lines):
            broken.append("%s: %d implementation / %d model answers for %d calls" % (prof, len(impl), len(model), len(lines)))
            continue
        n_eval += len(lines)
        for (fn, args), line, i, m in zip(calls, lines, impl, model):
            if prof == profiles[0]:
                per_fn[fn] = per_fn.get(fn, 0) + 1
            if "panic" in m:
                panics += 1
            if m.startswith("error") or i.startswith("error"):
                broken.append("%s: %s -> implementation %s / model %s" % (prof, line, i, m))
                continue
            e = expect(fn, args, release)
            if e is not None and e != m:
                judge_bad.append("%s: %s -> model %s / law restatement %s" % (prof, line, m, e))
            if i == m:
                continue
            if e is not None and e == m:
                concrete.append((len(line), line, prof, i, m, fn))
            else:
                corr.append((len(line), line, prof, i, m, fn, e))

    n_calls = len(calls)
    ck.oblige("correspondence: helper API of the library = Model/Helpers.v on %d calls (x %s)" % (n_calls, " + ".join(profiles)),
              not concrete and not corr and not broken,
              "%d disagreements, %d machinery errors" % (len(concrete) + len(corr), len(broken)))
    ck.oblige("judge: implementation answer = what Properties/Helpers.v demands (python restatement) on every helper call",
              not concrete, "%d failures" % len(concrete))
    ck.oblige("judge validation: the python restatement of the laws = the extracted Model/Helpers.v on every helper call",
              not judge_bad, "; ".join(judge_bad[:3]))
    ck.extra["helpers"] = dict(
        calls=n_calls, evaluations=n_eval, profiles=profiles, per_function=per_fn, model_answers_with_panic=panics,
        rule=("call lines `H <fn> <args>`: fixed grid (both sides, 17 64-bit boundary values incl. 0, 1, 2^32, 2^53+1, 2^63, u64::MAX for "
              "from_u64 / price x quantity; every tif incl. GTD at 0 / now / u64::MAX and DAY with and without market close over a "
              "now x close grid; 7 order variants x 6 tifs for the accessors; 7 variants x display/hidden in {0, small, u64::MAX} x 10 "
              "amounts for with_reduced_quantity and refresh_iceberg; equal / unequal level prices) + boundary-biased random calls; "
              "each call answered in the debug profile (overflow -> panic) and the release profile (overflow -> wrap)"),
        not_reachable="OrderBookEntry (crate-private: modelled and proved, not differentially checked); MatchResult::average_price (f64)")
    ck.cov["traces_validated_against_impl"] = ck.cov.get("traces_validated_against_impl", 0) + n_eval

    if concrete:
        concrete.sort()
        _, line, prof, i, m, fn = concrete[0]
        ck.violation("helpers", dict(
            kind="helpers", call=line, profile=prof, implementation=i, model=m, law=LAW.get(fn, fn),
            why="helper API: `%s` (%s build) answers %s; Model/Helpers.v and the law %s demand %s" % (
                line, prof, i[:120], LAW.get(fn, fn), m[:120]),
            failures=len(concrete), failing_functions=sorted(set(c[5] for c in concrete)),
            replay_cmd="./check C05 --replay <this file>"))
    elif corr or broken:
        first = corr and sorted(corr)[0]
        ck.violation("helpers_corr", dict(
            kind="helpers", broken="correspondence helper API = Model/Helpers.v",
            first_disagreement=(dict(call=first[1], profile=first[2], implementation=first[3], model=first[4], law_restated=first[6])
                                if first else None),
            machinery=broken[:5]), note="no-failing-input-found")
