"""C07 — cancel, move and amend do exactly what they report; read-only calls are pure."""
from . import gen, lvl
from .lvlprop import *

IDENT = ("kind", "id", "price", "side", "ts", "tif", "params")


def judge(rec, price, ops):
    prev = None          # implementation state before the op (dict)
    cancelled = set()
    for o in rec["ops"]:
        I = o["I"]
        if I in ("panic", "timeout"):
            return [(o["i"], "implementation " + I)]
        if I == "skipped" or I.startswith("read="):
            continue
        d = lvl.kv(I.split(" || ")[0])
        op = o["op"]
        if op.startswith("ADD "):
            cancelled.discard(gen.parse_order(op[4:])["id"])
        if op.startswith("MATCH "):
            for t in gen.parse_list(d["txs"]):
                mk = t.split("/")[2]
                if mk in cancelled:
                    return [(o["i"], "order %s trades after its cancel reported success" % mk)]
        if op.startswith("UPD ") and prev is not None and "vec" in prev:
            u = op[4:].split(":")
            k = u[1]
            before = {gen.parse_order(x)["id"]: x for x in gen.parse_list(prev["vec"])}
            after = {gen.parse_order(x)["id"]: x for x in gen.parse_list(d["vec"])}
            out = d["out"]
            kind = u[0]
            same_price = kind == "UQ" or (kind in ("UPQ", "RP") and int(u[2]) == price)
            if kind == "UP" and int(u[2]) == price:
                if out != "err" or lvl.canon_vec(prev["vec"]) != lvl.canon_vec(d["vec"]) or (prev["cv"], prev["ch"], prev["cc"]) != (d["cv"], d["ch"], d["cc"]):
                    return [(o["i"], "price update to the level's own price must be rejected without effect (got %s)" % out)]
            elif not same_price:      # cancel / price move
                if k in before:
                    if out != "ok:" + before[k]:
                        return [(o["i"], "removing %s returns %s, the resting order is %s" % (k, out, before[k]))]
                    if k in after or {x: y for x, y in before.items() if x != k} != after:
                        return [(o["i"], "removing %s changed other orders or left it in the book" % k)]
                    cancelled.add(k)
                else:
                    if out != "ok:-" or before != after:
                        return [(o["i"], "unknown id %s: returns %s / book changed" % (k, out))]
            else:                     # same-price amendment
                nq = int(u[-1] if kind == "UQ" else u[3])
                if k in before:
                    if not out.startswith("ok:") or out == "ok:-":
                        return [(o["i"], "amending resting order %s returns %s" % (k, out))]
                    n = out[3:]
                    if after.get(k) != n:
                        return [(o["i"], "amend returns %s but %s now rests" % (n, after.get(k)))]
                    a, b = gen.parse_order(before[k]), gen.parse_order(n)
                    if any(a.get(f) != b.get(f) for f in IDENT) or a["hid"] != b["hid"]:
                        return [(o["i"], "amend changed identity fields or hidden quantity of %s" % k)]
                    if a["kind"] in "SPI" and b["vis"] != nq:
                        return [(o["i"], "amended %s shows %d, requested %d" % (k, b["vis"], nq))]
                    if a["kind"] not in "SPI" and n != before[k]:
                        return [(o["i"], "amend must leave %s orders unchanged" % a["kind"])]
                    if {x: y for x, y in before.items() if x != k} != {x: y for x, y in after.items() if x != k}:
                        return [(o["i"], "amending %s changed another order" % k)]
                else:
                    if out != "ok:-" or before != after:
                        return [(o["i"], "amend of unknown id %s: returns %s / book changed" % (k, out))]
        if "vec" in d and d.get("built", "ok") == "ok":
            prev = d
    return []


def corr_filter(text):
    return True      # update results and the whole state after them


def strip_reads(ops):
    return [o for o in ops if not (o.startswith("READ") or o == "SNAP")]


def purity(ck):
    """Metamorphic: the same history with and without read-only calls gives the same later results."""
    import random
    rng = random.Random(ck.seed + 7)
    n = 300 if ck.tier == "quick" else 6000
    with_reads, without = [], []
    for i in range(n):
        g = lvl.HistGen(rng, rebuilds=False)
        ops = g.history(rng.randint(8, 30))
        extra = []
        for o in ops:
            extra.append(o)
            if rng.random() < 0.5:
                extra.append(rng.choice(["READ " + r for r in lvl.READS] + ["SNAP"]))
        with_reads.append(("a%d" % i, g.price, extra))
        without.append(("b%d" % i, g.price, strip_reads(extra)))
    # blind mode: the harness itself performs no read-only call between the operations
    ra = LevelRun(with_reads, "CB").recs
    rb = LevelRun(without, "CB").recs
    bad = []
    for x, y, c in zip(ra, rb, with_reads):
        xs = [(o["op"], o["I"]) for o in x["ops"] if not (o["op"].startswith("READ") or o["op"] == "SNAP")]
        ys = [(o["op"], o["I"]) for o in y["ops"]]

        def norm(s):
            # transaction ids and listing tie order are not part of the comparison
            d = lvl.kv(s.split(" || ")[0])
            if "vec" in d:
                d["vec"] = ",".join(lvl.canon_vec(d["vec"]))
            return d
        for (o1, i1), (o2, i2) in zip(xs, ys):
            if norm(i1) != norm(i2):
                bad.append((c[1], c[2], o1, i1, i2))
                break
    ck.cov["evaluations"] += sum(len(r["ops"]) for r in ra) + sum(len(r["ops"]) for r in rb)
    ck.oblige("judge (purity): inserting list/snapshot/display/serialise/statistics calls never changes a later result", not bad,
              "%d histories differ" % len(bad))
    if bad:
        price, ops, o1, i1, i2 = bad[0]
        ck.violation("purity", dict(kind="level-history", price=price, ops=ops, why="with read-only calls inserted `%s` gives %s, without them %s" % (o1, i1[:200], i2[:200])))


def make_cases(rng, tier):
    n = 1500 if tier == "quick" else 40000
    return histories(rng, n, rebuilds=False)


def run(tier, seed, replay=None):
    return run_property("C07", tier, seed, replay, make_cases=make_cases, judge=judge, corr_filter=corr_filter,
                        nontrivial=lambda rec, price, ops: any(o.startswith("UPD") for o in ops), extra_obligations=purity)
