"""C07 — cancel, move and amend do exactly what they report; read-only calls are pure."""
from . import gen, lvl
from .lvlprop import *
from .c06 import judges_agree

IDENT = ("kind", "id", "price", "side", "ts", "tif", "params")


def judge(rec, price, ops):
    prev = None          # implementation state before the op (dict)
    cancelled = set()
    for o in rec["ops"]:
        I = o["I"]
        if I in ("panic", "timeout"):
            return [(o["i"], "implementation " + I)]
        if I == "skipped" or I.startswith("read="):
            continue
        d = lvl.kv(I.split(" || ")[0])
        op = o["op"]
        if op.startswith("ADD "):
            cancelled.discard(gen.parse_order(op[4:])["id"])
        if op.startswith("MATCH "):
            for t in gen.parse_list(d["txs"]):
                mk = t.split("/")[2]
                if mk in cancelled:
                    return [(o["i"], "order %s trades after its cancel reported success" % mk)]
        if op.startswith("UPD ") and prev is not None and "vec" in prev:
            u = op[4:].split(":")
            k = u[1]
            before = {gen.parse_order(x)["id"]: x for x in gen.parse_list(prev["vec"])}
            after = {gen.parse_order(x)["id"]: x for x in gen.parse_list(d["vec"])}
            out = d["out"]
            kind = u[0]
            same_price = kind == "UQ" or (kind in ("UPQ", "RP") and int(u[2]) == price)
            if kind == "UP" and int(u[2]) == price:
                if out != "err" or lvl.canon_vec(prev["vec"]) != lvl.canon_vec(d["vec"]) or (prev["cv"], prev["ch"], prev["cc"]) != (d["cv"], d["ch"], d["cc"]):
                    return [(o["i"], "price update to the level's own price must be rejected without effect (got %s)" % out)]
            elif not same_price:      # cancel / price move
                if k in before:
                    if out != "ok:" + before[k]:
                        return [(o["i"], "removing %s returns %s, the resting order is %s" % (k, out, before[k]))]
                    if k in after or {x: y for x, y in before.items() if x != k} != after:
                        return [(o["i"], "removing %s changed other orders or left it in the book" % k)]
                    cancelled.add(k)
                else:
                    if out != "ok:-" or before != after:
                        return [(o["i"], "unknown id %s: returns %s / book changed" % (k, out))]
            else:                     # same-price amendment
                nq = int(u[-1] if kind == "UQ" else u[3])
                if k in before:
                    if not out.startswith("ok:") or out == "ok:-":
                        return [(o["i"], "amending resting order %s returns %s" % (k, out))]
                    n = out[3:]
                    if after.get(k) != n:
                        return [(o["i"], "amend returns %s but %s now rests" % (n, after.get(k)))]
                    a, b = gen.parse_order(before[k]), gen.parse_order(n)
                    if any(a.get(f) != b.get(f) for f in IDENT) or a["hid"] != b["hid"]:
                        return [(o["i"], "amend changed identity fields or hidden quantity of %s" % k)]
                    if a["kind"] in "SPI" and b["vis"] != nq:
                        return [(o["i"], "amended %s shows %d, requested %d" % (k, b["vis"], nq))]
                    if a["kind"] not in "SPI" and n != before[k]:
                        return [(o["i"], "amend must leave %s orders unchanged" % a["kind"])]
                    if {x: y for x, y in before.items() if x != k} != {x: y for x, y in after.items() if x != k}:
                        return [(o["i"], "amending %s changed another order" % k)]
                else:
                    if out != "ok:-" or before != after:
                        return [(o["i"], "amend of unknown id %s: returns %s / book changed" % (k, out))]
            if all(x in d and x in prev for x in ("cv", "ch", "cc")) and not upd_stmt_ok(price, prev, op[4:], d):
                return [(o["i"], "`%s` returning %s: the book after the call or the aggregates (%s/%s/%s -> %s/%s/%s) are not what the update kind prescribes" % (
                    op, out[:80], prev.get("cv"), prev.get("ch"), prev.get("cc"), d.get("cv"), d.get("ch"), d.get("cc")))]
        if "vec" in d and d.get("built", "ok") == "ok":
            prev = d
    return []


# ---- the statement handed to the extracted Coq judge (Spec/Judges.v: update_ok_b <=> UpdateOk, update_counts_b <=>
# UpdateCounts; Properties/Tie.v Tie_judge_update*): one per update call, from the listing and the aggregates before,
# the update, the returned outcome, the listing and the aggregates after.  Left to the python judge above and to the
# differential run: "a cancelled order never trades" (a statement about the rest of the history), queue position
# (visible only through later matches), read purity (metamorphic run below).

def _wsub(a, b):
    return (a + W - b % W) % W


def _delta(c, old, new):
    return c if old == new else ((c + (new - old)) % W if old < new else _wsub(c, old - new))


def _book(vec):
    m = {}
    for x in gen.parse_list(vec):
        m.setdefault(gen.parse_order(x)["id"], x)      # first row wins, as Queue.lookup
    return m


def _with_reduced_quantity(x, nq):
    f = x.split(":")
    if f[0] in "SPI":
        f[6] = str(nq)
    return ":".join(f)


def upd_stmt_ok(price, prev, ustr, d):
    """python restatement of UpdateOk /\ UpdateCounts (Spec/Judges.v) on one call"""
    u = ustr.split(":")
    kind, k = u[0], u[1]
    before, after = _book(prev["vec"]), _book(d["vec"])
    out = d["out"]
    cb = tuple(int(prev[x]) for x in ("cv", "ch", "cc"))
    ca = tuple(int(d[x]) for x in ("cv", "ch", "cc"))
    if kind == "C":
        cls = "out"
    elif kind == "UQ":
        cls, nq = "amend", int(u[2])
    elif kind == "UP":
        cls = "reject" if int(u[2]) == price else "out"
    else:                                   # UPQ:<id>:<price>:<qty>   RP:<id>:<price>:<qty>:<side>
        cls, nq = ("amend", int(u[3])) if int(u[2]) == price else ("out", None)
    rest = lambda m: {x: y for x, y in m.items() if x != k}
    if cls == "reject":
        return out == "err" and after == before and ca == cb
    if k not in before:
        return out == "ok:-" and after == before and ca == cb
    o = gen.parse_order(before[k])
    if cls == "out":
        return (out == "ok:" + before[k] and k not in after and rest(after) == rest(before)
                and ca == (_wsub(cb[0], o["vis"]), _wsub(cb[1], o["hid"]), _wsub(cb[2], 1)))
    n = _with_reduced_quantity(before[k], nq)
    return (out == "ok:" + n and after.get(k) == n and rest(after) == rest(before)
            and ca == (_delta(cb[0], o["vis"], gen.parse_order(n)["vis"]), cb[1], cb[2]))


def statements(rec, price, ops):
    """-> [(opindex, JUDGE query, text, verdict of the python restatement on exactly this statement)]"""
    res, prev = [], None
    for o in rec["ops"]:
        I = o["I"]
        if I in ("panic", "skipped", "timeout") or I.startswith("read="):
            continue
        d = lvl.kv(I.split(" || ")[0])
        op = o["op"]
        if op.startswith("UPD ") and prev is not None and "out" in d and all(x in d and x in prev for x in ("vec", "cv", "ch", "cc")):
            q = "upd %d %s %s/%s/%s %s %s %s %s/%s/%s" % (price, prev["vec"], prev["cv"], prev["ch"], prev["cc"], op[4:], d["out"],
                                                         d["vec"], d["cv"], d["ch"], d["cc"])
            res.append((o["i"], q, "`%s` returning %s: outcome, book after the call or aggregates are not what the update kind prescribes" % (op, d["out"][:80]),
                        upd_stmt_ok(price, prev, op[4:], d)))
        if "vec" in d and d.get("built", "ok") == "ok":
            prev = d
    return res


_STMTS = []      # (price, ops, opindex, query, python verdict) of the statements judged in this run


def coq_queries(rec, price, ops):
    out = []
    for (i, q, text, py) in statements(rec, price, ops):
        _STMTS.append((price, ops, i, q, py))
        out.append((i, q, text))
    return out


def corr_filter(text):
    return True      # update results and the whole state after them


def strip_reads(ops):
    return [o for o in ops if not (o.startswith("READ") or o == "SNAP")]


def purity(ck):
    """Metamorphic: the same history with and without read-only calls gives the same later results."""
    import random
    rng = random.Random(ck.seed + 7)
    n = 300 if ck.tier == "quick" else 6000
    with_reads, without = [], []
    for i in range(n):
        g = lvl.HistGen(rng, rebuilds=False)
        # a third of the histories amend/cancel-heavy (stale queue entries pile up: what a read-only call could be tempted to tidy)
        g.upd_heavy = (i % 3 == 1)
        ops = g.history(rng.randint(8, 30) * (2 if g.upd_heavy else 1))
        extra = []
        for o in ops:
            extra.append(o)
            if rng.random() < 0.5:
                extra.append(rng.choice(["READ " + r for r in lvl.READS] + ["SNAP"]))
        with_reads.append(("a%d" % i, g.price, extra))
        without.append(("b%d" % i, g.price, strip_reads(extra)))
    # compensating amendments (totals and counters return to where they were) between two reads, observed through a rebuild
    # from the level's own package / snapshot: a read that left a cache behind changes what the rebuild yields
    for i in range(n // 4):
        a, b, d = rng.randint(5, 40), rng.randint(1, 30), rng.randint(1, 4)
        base = ["ADD " + gen.order(rng.choice("SIR"), oid="u1", price=100, side="S", ts=10, tif="GTC", vis=a, hid=0, thr=0, amt=None),
                "ADD " + gen.order("S", oid="l2", price=100, side="B", ts=11, tif="GTC", vis=b)]
        rd = "READ " + rng.choice(["pkg", "snap", "json"])
        tail = ["UPD UQ:u1:%d" % (a - d), "UPD UQ:l2:%d" % (b + d), "REBUILD " + rng.choice(["pkg", "pjson", "snap", "ref"]), "MATCH 1099511627776 u7000"]      # the sweep shows every quantity
        with_reads.append(("a%d" % (n + i), 100, base + [rd] + tail[:2] + [rd] + tail[2:]))
        without.append(("b%d" % (n + i), 100, base + tail))
    # blind mode: the harness itself performs no read-only call between the operations
    ra = LevelRun(with_reads, "CB").recs
    rb = LevelRun(without, "CB").recs
    bad = []
    for x, y, c in zip(ra, rb, with_reads):
        xs = [(o["op"], o["I"]) for o in x["ops"] if not (o["op"].startswith("READ") or o["op"] == "SNAP")]
        ys = [(o["op"], o["I"]) for o in y["ops"]]

        def norm(s):
            # transaction ids and listing tie order are not part of the comparison
            d = lvl.kv(s.split(" || ")[0])
            if "vec" in d:
                d["vec"] = ",".join(lvl.canon_vec(d["vec"]))
            return d
        for (o1, i1), (o2, i2) in zip(xs, ys):
            if norm(i1) != norm(i2):
                bad.append((c[1], c[2], o1, i1, i2))
                break
    ck.cov["evaluations"] += sum(len(r["ops"]) for r in ra) + sum(len(r["ops"]) for r in rb)
    ck.oblige("judge (purity): inserting list/snapshot/display/serialise/statistics calls never changes a later result", not bad,
              "%d histories differ" % len(bad))
    if bad:
        price, ops, o1, i1, i2 = bad[0]
        ck.violation("purity", dict(kind="level-history", price=price, ops=ops, why="with read-only calls inserted `%s` gives %s, without them %s" % (o1, i1[:200], i2[:200])))


def make_cases(rng, tier):
    n = 1500 if tier == "quick" else 40000
    return histories(rng, n, rebuilds=False)


def run(tier, seed, replay=None):
    return run_property("C07", tier, seed, replay, make_cases=make_cases, judge=judge, corr_filter=corr_filter,
                        nontrivial=lambda rec, price, ops: any(o.startswith("UPD") for o in ops), coq_queries=coq_queries,
                        extra_obligations=lambda ck: (judges_agree(ck, _STMTS, "UpdateOk and UpdateCounts, per update call"), purity(ck)))
