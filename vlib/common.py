"""Shared plumbing of the /verif checks: paths, builds, proof obligations,
evidence, verdict lines, known findings."""
import fcntl
import json
import os
import re
import subprocess
import sys
import time

VERIF = os.path.dirname(os.path.dirname(os.path.abspath(__file__)))
# The registered checks always run against /repo.  For trying seeded changes in parallel without touching /repo,
# VERIF_REPO may name a scratch copy; the harness is then built in a private directory and evidence / replays go
# to VERIF_OUT (never to /verif/evidence).
REPO = os.environ.get("VERIF_REPO", "/repo")
_OUT = os.environ.get("VERIF_OUT")
COQ = os.path.join(VERIF, "coq")
MODELRUN_DIR = os.path.join(VERIF, "modelrun")
MODELRUN = os.path.join(MODELRUN_DIR, "modelrun")
HARNESS_SRC = os.path.join(VERIF, "harness")
HARNESS_DIR = HARNESS_SRC if REPO == "/repo" else os.path.join(_OUT or "/tmp/verif_scratch", "harness")
EVIDENCE = os.path.join(_OUT, "evidence") if _OUT else os.path.join(VERIF, "evidence")
REPLAYS = os.path.join(_OUT, "replays") if _OUT else os.path.join(VERIF, "replays")
CORPUS = os.path.join(VERIF, "corpus")
GUARD = "pricelevel_verif"
W = 1 << 64

ENV = dict(os.environ)
ENV["CARGO_NET_OFFLINE"] = "true"


class BuildError(Exception):
    pass


def sh(cmd, cwd=None, timeout=3600, env=None, inp=None):
    p = subprocess.run(cmd, cwd=cwd, shell=isinstance(cmd, str), stdout=subprocess.PIPE,
                       stderr=subprocess.STDOUT, timeout=timeout, env=env or ENV,
                       input=inp, text=True)
    return p.returncode, p.stdout


class Lock:
    """Serialises builds when several checks run at once."""

    def __init__(self, name):
        self.path = os.path.join(VERIF, ".%s.lock" % name)

    def __enter__(self):
        self.f = open(self.path, "w")
        fcntl.flock(self.f, fcntl.LOCK_EX)

    def __exit__(self, *a):
        fcntl.flock(self.f, fcntl.LOCK_UN)
        self.f.close()


# ---------------------------------------------------------------- builds

def build_coq(targets=None):
    """Full .vo build (never -vos).  Returns the build log."""
    with Lock("coq"):
        if not os.path.exists(os.path.join(COQ, "Makefile")) or \
                os.path.getmtime(os.path.join(COQ, "_CoqProject")) > os.path.getmtime(os.path.join(COQ, "Makefile")):
            rc, out = sh("coq_makefile -f _CoqProject -o Makefile", cwd=COQ)
            if rc != 0:
                raise BuildError("coq_makefile failed:\n" + out)
        tgt = " ".join(targets) if targets else ""
        rc, out = sh("timeout 3000 make -j16 %s" % tgt, cwd=COQ, timeout=3100)
        return rc, out


def build_modelrun():
    with Lock("modelrun"):
        srcs = [os.path.join(MODELRUN_DIR, f) for f in ("model.ml", "model.mli", "driver.ml")]
        for s in srcs:
            if not os.path.exists(s):
                raise BuildError("missing %s (run the Coq build first: Extract.v writes it)" % s)
        if os.path.exists(MODELRUN) and all(os.path.getmtime(MODELRUN) >= os.path.getmtime(s) for s in srcs):
            return
        rc, out = sh("ocamlfind ocamlopt -package zarith -linkpkg -w -a model.mli model.ml driver.ml -o modelrun",
                     cwd=MODELRUN_DIR)
        if rc != 0:
            raise BuildError("modelrun build failed:\n" + out)


def harness_bin(profile="debug"):
    return os.path.join(HARNESS_DIR, "target", profile, "harness")


def build_harness(profile="debug"):
    """Rebuilds the harness against /repo's current working tree with the hook guard on."""
    if HARNESS_DIR != HARNESS_SRC:
        # private copy of the harness sources pointing at the scratch repository
        os.makedirs(HARNESS_DIR, exist_ok=True)
        sh("rsync -a --exclude target --exclude Cargo.lock %s/ %s/" % (HARNESS_SRC, HARNESS_DIR))
        ct = open(os.path.join(HARNESS_SRC, "Cargo.toml")).read().replace('path = "/repo"', 'path = "%s"' % REPO)
        open(os.path.join(HARNESS_DIR, "Cargo.toml"), "w").write(ct)
    with Lock("cargo" if HARNESS_DIR == HARNESS_SRC else "cargo_" + str(abs(hash(HARNESS_DIR)))):
        lock_src = os.path.join("/repo", "Cargo.lock")
        lock_dst = os.path.join(HARNESS_DIR, "Cargo.lock")
        if not os.path.exists(lock_dst):
            sh(["cp", lock_src, lock_dst])
        env = dict(ENV)
        env["RUSTFLAGS"] = "--cfg %s" % GUARD
        cmd = "cargo build --offline" + (" --release" if profile == "release" else "")
        rc, out = sh(cmd, cwd=HARNESS_DIR, env=env, timeout=3000)
        if rc != 0:
            raise BuildError("harness build failed (does /repo still compile?):\n" + out[-4000:])
        return out


# ---------------------------------------------------------------- proof obligations

FORBIDDEN = re.compile(
    r"\b(Admitted|admit|Axiom|Axioms|Parameter|Parameters|Conjecture|Conjectures|"
    r"Admit\s+Obligations|Unset\s+Guard\s+Checking|Unset\s+Positivity\s+Checking|"
    r"Unset\s+Universe\s+Checking|bypass_check|Local\s+Unset\s+Guard)\b")
ALLOWED_ASSUMPTIONS = set()   # every property theorem must be closed under the global context


def strip_coq_comments(src):
    out, depth, i = [], 0, 0
    while i < len(src):
        if src.startswith("(*", i):
            depth += 1
            i += 2
        elif src.startswith("*)", i) and depth > 0:
            depth -= 1
            i += 2
        else:
            if depth == 0:
                out.append(src[i])
            i += 1
    return "".join(out)


def scan_forbidden():
    """Greps every .v of the development for declarations that would put an
    unproved statement into the trusted base."""
    hits = []
    for root, _, files in os.walk(COQ):
        for f in files:
            if f.endswith(".v"):
                p = os.path.join(root, f)
                src = strip_coq_comments(open(p).read())
                for m in FORBIDDEN.finditer(src):
                    # "Variable"/"Hypothesis" inside sections are allowed; those words are not in the regex
                    line = src.count("\n", 0, m.start()) + 1
                    hits.append("%s:%d:%s" % (os.path.relpath(p, VERIF), line, m.group(0)))
    return hits


def run_coqchk(pid):
    """Independent re-check of the compiled property library and everything it depends on."""
    rc, out = sh("timeout 1500 coqchk -o -silent -Q . PL PL.Properties.%s" % pid, cwd=COQ, timeout=1600)
    m = re.search(r"\* Axioms:\s*(.*?)\n\s*\n", out, re.S)
    axioms = m.group(1).strip() if m else "?"
    return rc == 0 and axioms == "<none>", "coqchk rc=%d axioms=%s" % (rc, axioms.replace("\n", " ")[:300])


def check_proofs(pid, force=True, coqchk=False):
    """Builds Properties/<pid>.vo (forcing a re-check of the statements file),
    returns dict(ok, obligations, discharged, assumptions, log, failed)."""
    res = dict(ok=False, obligations=0, discharged=0, assumptions=[], log="", failed=None, theorems=[])
    vfile = os.path.join(COQ, "Properties", pid + ".v")
    if not os.path.exists(vfile):
        res["failed"] = "missing Properties/%s.v" % pid
        return res
    src = strip_coq_comments(open(vfile).read())
    thms = re.findall(r"\b(?:Theorem|Corollary)\s+([A-Za-z0-9_']+)", src)
    res["theorems"] = thms
    res["obligations"] = len(thms)
    hits = scan_forbidden()
    if hits:
        res["failed"] = "forbidden vernacular: " + "; ".join(hits[:5])
        return res
    rc, out = build_coq()          # everything the statements depend on, and Extract.v
    if rc != 0:
        res["log"] = out[-3000:]
        m = re.search(r'File "\./([^"]+)", line (\d+)', out)
        res["failed"] = "Coq build failed" + (" at %s:%s" % (m.group(1), m.group(2)) if m else "")
        return res
    if force:
        with Lock("coq"):
            vo = vfile + "o"
            if os.path.exists(vo):
                os.remove(vo)
            rc, out = sh("timeout 1200 make Properties/%s.vo" % pid, cwd=COQ, timeout=1300)
        res["log"] = out[-6000:]
        if rc != 0:
            m = re.search(r'File "\./([^"]+)", line (\d+)', out)
            res["failed"] = "statement file does not check" + (" at %s:%s" % (m.group(1), m.group(2)) if m else "")
            return res
        # Print Assumptions output: either "Closed under the global context" or "Axioms:" + list
        closed = out.count("Closed under the global context")
        axioms = []
        for blk in re.findall(r"Axioms:\n((?:.+\n?)+?)(?=\n[A-Z]|\Z)", out):
            for ln in blk.splitlines():
                m = re.match(r"\s*([A-Za-z0-9_.']+)\s*:", ln)
                if m:
                    axioms.append(m.group(1))
        res["assumptions"] = sorted(set(axioms))
        n_print = len(re.findall(r"\bPrint\s+Assumptions\b", src))
        if n_print < len(thms):
            res["failed"] = "a theorem of Properties/%s.v has no Print Assumptions" % pid
            return res
        bad = [a for a in res["assumptions"] if a not in ALLOWED_ASSUMPTIONS]
        if bad:
            res["failed"] = "assumptions outside the allow-list: " + ", ".join(bad)
            return res
        if closed + (1 if axioms else 0) < n_print and not axioms:
            res["failed"] = "could not read Print Assumptions output"
            return res
    if coqchk:
        ok, note = run_coqchk(pid)
        res["coqchk"] = note
        if not ok:
            res["failed"] = "coqchk: " + note
            return res
    res["discharged"] = len(thms)
    res["ok"] = True
    return res


# ---------------------------------------------------------------- known findings

def known_findings():
    p = os.path.join(VERIF, "known_findings.json")
    if not os.path.exists(p):
        return {"findings": [], "fixed": []}
    return json.load(open(p))


# ---------------------------------------------------------------- evidence / verdict

TRUSTED_BASE = [
    "Coq 8.16.1 kernel (coqc; vm_compute for witness lemmas); no native_compute",
    "axioms: none (Print Assumptions of every property theorem = Closed under the global context; checked on every run)",
    "extraction: ExtrOcamlBasic directives only (bool, option, list, prod, unit, sumbool -> OCaml); N/Z/positive/nat stay extracted inductives; OCaml 4.13.1; modelrun/driver.ml (parsing/printing glue, zarith for decimal I/O)",
    "correspondence harness /verif/harness (Rust) and /verif/vlib (python generators, comparison, judges)",
    "hand-written Gallina model of /repo/src (Model/*.v); tied to the code only by the differential runs of this check",
    "modelled, not verified: DashMap/SegQueue as linearisable map/FIFO, sequentially consistent memory, usize = 64 bit, serde_json, uuid/ulid text formats, SHA-256/SHA-1",
]


class Check:
    """One run of one property's check: collects obligations, coverage and violations."""

    def __init__(self, pid, tier, seed):
        self.pid, self.tier, self.seed = pid, tier, seed
        self.t0 = time.time()
        self.obligations = []      # (name, ok, detail)
        self.violations = []       # (replay_path, note)
        self.known_lines = []
        self.cov = dict(evaluations=0, distinct_nontrivial=0, rule="", samples=[])
        self.assumptions = []
        self.extra = {}

    def oblige(self, name, ok, detail=""):
        self.obligations.append((name, bool(ok), detail))

    def replay_path(self, tag):
        os.makedirs(REPLAYS, exist_ok=True)
        return os.path.join(REPLAYS, "%s_%s.json" % (self.pid, tag))

    def violation(self, tag, payload, note=""):
        p = self.replay_path(tag)
        payload = dict(payload)
        payload.setdefault("property", self.pid)
        payload.setdefault("seed", self.seed)
        with open(p, "w") as f:
            json.dump(payload, f, indent=1)
        self.violations.append((p, note))
        return p

    def known(self, text):
        self.known_lines.append(text)

    def finish(self, checker_cmd):
        # safety net: an undischarged obligation never goes unreported
        failed = [(n, d) for (n, ok, d) in self.obligations if not ok]
        if failed and not self.violations:
            self.violation("undischarged", dict(kind="obligations", broken="; ".join(n for n, _ in failed)[:300],
                                                undischarged=[dict(name=n, detail=d) for n, d in failed]),
                           note="no-failing-input-found")
        wall = time.time() - self.t0
        n_ob = len(self.obligations)
        n_ok = sum(1 for o in self.obligations if o[1])
        cov = dict(self.cov)
        cov.update(dict(
            obligations=n_ob, discharged=n_ok, checker_cmd=checker_cmd, trusted_base=TRUSTED_BASE,
            obligation_list=[dict(name=n, ok=ok, detail=d) for (n, ok, d) in self.obligations],
            known_findings_printed=self.known_lines))
        cov.update(self.extra)
        ev = dict(property_id=self.pid, tier=self.tier, seed=self.seed, level="proof",
                  coverage=cov, assumptions=self.assumptions, wall_s=round(wall, 2),
                  violations=len(self.violations))
        os.makedirs(EVIDENCE, exist_ok=True)
        with open(os.path.join(EVIDENCE, self.pid + ".json"), "w") as f:
            json.dump(ev, f, indent=1)
        for k in self.known_lines:
            print("KNOWN-FINDING: property=%s %s" % (self.pid, k))
        for (p, note) in self.violations:
            print("VIOLATION property=%s replay=%s%s" % (self.pid, p, (" " + note) if note else ""))
        print("%s %s: %d/%d obligations discharged, %d evaluations, %d violation(s), %.1fs" % (
            self.pid, self.tier, n_ok, n_ob, cov.get("evaluations", 0), len(self.violations), wall))
        sys.stdout.flush()
        return 1 if self.violations else 0


# ---------------------------------------------------------------- hook coverage (source scan)

HOOKED_FILES = ["src/price_level/level.rs", "src/price_level/statistics.rs", "src/price_level/order_queue.rs", "src/utils/uuid.rs"]
_SHARED = re.compile(r"std::sync::atomic::\{?\s*Atomic|\bcrossbeam(::|_)|\bdashmap::|\bMutex\b|\bRwLock\b|\bUnsafeCell\b|\bstatic\s+mut\b|"
                     r"\bthread_local!|\bRefCell\b|\bCell<|\bOnceLock\b|\bOnceCell\b|\blazy_static!|\bparking_lot\b|\bAtomic(Bool|I64|I32|U32|U8|Ptr|Isize)\b|"
                     r"\bstd::sync::mpsc\b|\bCondvar\b|\bunsafe\b")


def _strip_rust(src):
    """drop the trailing #[cfg(test)] module, comments and string literals (line structure kept)"""
    cut = src.find("#[cfg(test)]")
    if cut >= 0:
        src = src[:cut]
    src = re.sub(r"/\*.*?\*/", lambda m: "\n" * m.group(0).count("\n"), src, flags=re.S)
    src = re.sub(r"//[^\n]*", "", src)
    src = re.sub(r'"(?:[^"\\\n]|\\.)*"', '""', src)
    return src


def hook_coverage():
    """Every shared-memory primitive used by the modelled files must be the cfg-switched one (so that the scheduler and the
    trace acceptance see every shared access).  Returns a list of offending 'file:line: text'."""
    bad = []
    for rel in HOOKED_FILES:
        path = os.path.join(REPO, rel)
        try:
            lines = _strip_rust(open(path).read()).split("\n")
        except OSError:
            bad.append(rel + ": missing")
            continue
        prev = ""
        for i, ln in enumerate(lines, 1):
            t = ln.strip()
            if not t:
                continue
            if _SHARED.search(t) and "cfg(not(pricelevel_verif))" not in prev and "cfg(not(pricelevel_verif))" not in t:
                bad.append("%s:%d: %s" % (rel, i, t[:100]))
            prev = t
    return bad


# ---------------------------------------------------------------- constants named in the source

def source_constants(limit=120):
    """Integer literals of the crate's non-test source (thresholds, defaults, batch sizes ...): the generators add them and their
    neighbours to their boundary pools, so that a value the CODE singles out is a value the inputs single out too."""
    vals = set()
    for root, _, files in os.walk(os.path.join(REPO, "src")):
        if "/tests" in root:
            continue
        for f in files:
            if not f.endswith(".rs") or f == "verif_sync.rs":
                continue
            try:
                src = _strip_rust(open(os.path.join(root, f)).read())
            except OSError:
                continue
            for m in re.finditer(r"(?<![\w.])(\d[\d_]*)(?:u64|usize|u32|u128|i64)?(?![\w.])", src):
                try:
                    v = int(m.group(1).replace("_", ""))
                except ValueError:
                    continue
                if 2 <= v < (1 << 64):
                    vals.add(v)
    out = sorted(vals)[:limit]
    return out
