#!/bin/sh
# Builds the whole framework offline from files on disk: Coq development (full .vo),
# extracted model + OCaml driver, Rust harness against /repo's working tree.
set -e
cd "$(dirname "$0")"
export CARGO_NET_OFFLINE=true
( cd coq && coq_makefile -f _CoqProject -o Makefile >/dev/null && timeout 3000 make -j16 )
( cd modelrun && ocamlfind ocamlopt -package zarith -linkpkg -w -a model.mli model.ml driver.ml -o modelrun )
( cd modelrun && [ -f driver_json.ml ] && ocamlfind ocamlopt -package zarith -linkpkg -w -a model_json.mli model_json.ml driver_json.ml -o modelrun_json || true )
( cd modelrun && [ -f driver_text.ml ] && ocamlfind ocamlopt -package zarith -linkpkg -w -a model_text.mli model_text.ml driver_text.ml -o modelrun_text || true )
cp -f /repo/Cargo.lock harness/Cargo.lock
( cd harness && RUSTFLAGS="--cfg pricelevel_verif" cargo build --offline && RUSTFLAGS="--cfg pricelevel_verif" cargo build --offline --release )
echo setup ok
