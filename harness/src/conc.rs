//! Concurrent programs on one PriceLevel under a deterministic baton-passing
//! scheduler installed as the `verif_sync` hook: exactly one worker thread runs
//! between two shared-memory operations, so an execution is a function of
//! (program, schedule).  The event log is then replayed through the model's
//! `accept` (modelrun co-process).
//!
//! Program line:  id|price|setup ops (;)|thread ops (; within, # between threads)|sched|flags
//!   sched = `r<seed>` (uniform random), `p<seed>` (PCT-style priorities with 2 change points)
//!           or an explicit comma list of thread indices (then falls back to round-robin)
//!   flags = comma list: `drain` (final huge match), `mode=O|C`

use crate::enc::*;
use crate::level::{result_str, state_str, Model};
use crate::out;
use pricelevel::verif_sync::{self, Hook};
use pricelevel::{OrderId, OrderType, PriceLevel, UuidGenerator};
use std::any::Any;
use std::cell::Cell;
use std::panic::{catch_unwind, AssertUnwindSafe};
use std::sync::{Arc, Condvar, Mutex};
use std::time::Duration;
use uuid::Uuid;

thread_local! {
    static ME: Cell<Option<usize>> = const { Cell::new(None) };
}

struct St {
    running: Option<usize>,
    granted: Option<usize>,
    pending: Vec<bool>,
    done: Vec<bool>,
    log: Vec<String>,
    aborted: bool,
}

struct Sched {
    st: Mutex<St>,
    cv: Condvar,
    base: usize,
    gen_id: usize,
    queue_mode: bool,
}

/// Which shared object of a level (by creation offset) plays which role in the model.  Learned once per process by
/// running a fixed single-threaded scenario with distinctive values under a recording hook, so that an object added to
/// or removed from the level / queue / statistics does not silently shift the identification.
struct Calib {
    level_roles: Vec<Option<&'static str>>,
    queue_roles: Vec<Option<&'static str>>,
    problems: Vec<String>,
}

struct Recorder {
    log: Mutex<Vec<(usize, &'static str, &'static str, u64)>>,
}
impl Hook for Recorder {
    fn before(&self, obj: usize, kind: &'static str, op: &'static str, num: u64, _a: Option<&dyn Any>) {
        self.log.lock().unwrap().push((obj, kind, op, num));
    }
    fn after(&self, _obj: usize, _op: &'static str, _num: u64, _r: Option<&dyn Any>) {}
}

const EXPECT_LEVEL_OBJECTS: usize = 13; // 3 aggregates, map, ticket queue, 5 modelled statistics, 3 time statistics
const EXPECT_QUEUE_OBJECTS: usize = 2;

fn calibrate() -> Calib {
    let mut problems = Vec::new();
    let rec = Arc::new(Recorder { log: Mutex::new(Vec::new()) });
    // ---- level
    let base = verif_sync::next_id();
    let lvl = PriceLevel::new(1000);
    let span = verif_sync::next_id() - base;
    let generator = UuidGenerator::new(Uuid::parse_str(crate::level::NS_MAIN).unwrap());
    verif_sync::set_hook(Some(rec.clone() as Arc<dyn Hook>));
    let take = |rec: &Recorder| -> Vec<(usize, &'static str, &'static str, u64)> { std::mem::take(&mut *rec.log.lock().unwrap()) };
    let mut roles: Vec<Option<&'static str>> = vec![None; span];
    let set = |roles: &mut Vec<Option<&'static str>>, problems: &mut Vec<String>, obj: usize, role: &'static str| {
        if obj < base || obj - base >= roles.len() {
            return;
        }
        let slot = &mut roles[obj - base];
        match slot {
            None => *slot = Some(role),
            Some(r) if *r == role => {}
            Some(r) => problems.push(format!("calibration: object {} looks like both {} and {}", obj - base, r, role)),
        }
    };
    lvl.add_order(order_of_str("I:u1:1000:S:10:GTC:1234567:7654321").unwrap());
    let ev_add = take(&rec);
    let _ = lvl.update_order(update_of_str("C:u1").unwrap());
    let ev_cancel = take(&rec);
    lvl.add_order(order_of_str("S:u2:1000:S:11:GTC:3").unwrap());
    let _ = take(&rec);
    let _ = lvl.match_order(3, oid_of_str("u3").unwrap(), &generator);
    let ev_match = take(&rec);
    verif_sync::set_hook(None);
    for &(o, k, op, n) in &ev_add {
        match (k, op, n) {
            ("u64", "fetch_add", 1234567) => set(&mut roles, &mut problems, o, "vis"),
            ("u64", "fetch_add", 7654321) => set(&mut roles, &mut problems, o, "hid"),
            ("map", "insert", _) => set(&mut roles, &mut problems, o, "map"),
            ("queue", "push", _) => set(&mut roles, &mut problems, o, "tk"),
            _ => {}
        }
    }
    for &(o, k, op, n) in &ev_cancel {
        match (k, op, n) {
            ("usize", "fetch_sub", 1) => set(&mut roles, &mut problems, o, "cnt"),
            ("usize", "fetch_add", 1) => set(&mut roles, &mut problems, o, "srem"),
            _ => {}
        }
    }
    for &(o, k, op, n) in &ev_add {
        if (k, op, n) == ("usize", "fetch_add", 1) && o >= base && o - base < span && roles[o - base].is_none() {
            set(&mut roles, &mut problems, o, "sadd");
        }
    }
    for &(o, k, op, n) in &ev_match {
        match (k, op, n) {
            ("u64", "fetch_add", 3) => set(&mut roles, &mut problems, o, "sqty"),
            ("u64", "fetch_add", 3000) => set(&mut roles, &mut problems, o, "sval"),
            ("usize", "fetch_add", 1) if o >= base && o - base < span && roles[o - base].is_none() => set(&mut roles, &mut problems, o, "sexe"),
            _ => {}
        }
    }
    for want in ["vis", "hid", "cnt", "map", "tk", "sadd", "srem", "sexe", "sqty", "sval"] {
        if roles.iter().filter(|r| **r == Some(want)).count() != 1 {
            problems.push(format!("calibration: no unique shared object plays the role {want}"));
        }
    }
    if span != EXPECT_LEVEL_OBJECTS {
        problems.push(format!("a level creates {span} shared objects, the model accounts for {EXPECT_LEVEL_OBJECTS}"));
    }
    // ---- queue alone
    let qbase = verif_sync::next_id();
    let q = pricelevel::OrderQueue::new();
    let qspan = verif_sync::next_id() - qbase;
    verif_sync::set_hook(Some(rec.clone() as Arc<dyn Hook>));
    q.push(Arc::new(order_of_str("S:u1:1000:S:10:GTC:5").unwrap()));
    let ev_push = take(&rec);
    verif_sync::set_hook(None);
    let mut qroles: Vec<Option<&'static str>> = vec![None; qspan];
    for &(o, k, op, _) in &ev_push {
        if o >= qbase && o - qbase < qspan {
            match (k, op) {
                ("map", "insert") => qroles[o - qbase] = Some("map"),
                ("queue", "push") => qroles[o - qbase] = Some("tk"),
                _ => {}
            }
        }
    }
    for want in ["map", "tk"] {
        if qroles.iter().filter(|r| **r == Some(want)).count() != 1 {
            problems.push(format!("calibration: no unique shared object of the queue plays the role {want}"));
        }
    }
    if qspan != EXPECT_QUEUE_OBJECTS {
        problems.push(format!("a queue creates {qspan} shared objects, the model accounts for {EXPECT_QUEUE_OBJECTS}"));
    }
    Calib { level_roles: roles, queue_roles: qroles, problems }
}

fn calib() -> &'static Calib {
    static C: std::sync::OnceLock<Calib> = std::sync::OnceLock::new();
    C.get_or_init(calibrate)
}

impl Sched {
    fn role(&self, obj: usize) -> Option<&'static str> {
        let c = calib();
        if self.queue_mode {
            return obj.checked_sub(self.base).and_then(|k| c.queue_roles.get(k).copied().flatten());
        }
        if obj == self.gen_id {
            return Some("gen");
        }
        // time statistics, objects the model does not know and foreign objects: not scheduled, not logged
        obj.checked_sub(self.base).and_then(|k| c.level_roles.get(k).copied().flatten())
    }
}

fn any_order(a: &dyn Any) -> Option<String> {
    a.downcast_ref::<Arc<OrderType<()>>>().map(|o| str_of_order(o))
}
fn any_oid(a: &dyn Any) -> Option<String> {
    a.downcast_ref::<OrderId>().map(str_of_oid)
}

thread_local! {
    static CUR: Cell<Option<(usize, &'static str, u64)>> = const { Cell::new(None) };
    static ARG: std::cell::RefCell<String> = const { std::cell::RefCell::new(String::new()) };
}

impl Hook for Sched {
    fn before(&self, obj: usize, _kind: &'static str, op: &'static str, num: u64, a: Option<&dyn Any>) {
        let me = match ME.with(|m| m.get()) {
            Some(m) => m,
            None => return,
        };
        if self.role(obj).is_none() {
            return;
        }
        let arg = match a {
            Some(x) => any_order(x).or_else(|| any_oid(x)).unwrap_or_else(|| "?".into()),
            None => String::new(),
        };
        ARG.with(|c| *c.borrow_mut() = arg);
        CUR.with(|c| c.set(Some((obj, op, num))));
        let mut st = self.st.lock().unwrap();
        if st.running == Some(me) {
            st.running = None;
        }
        st.pending[me] = true;
        self.cv.notify_all();
        while st.granted != Some(me) && !st.aborted {
            st = self.cv.wait(st).unwrap();
        }
        if st.aborted {
            drop(st);
            // unwind this worker: the run is over
            std::panic::resume_unwind(Box::new("aborted"));
        }
        st.granted = None;
        st.running = Some(me);
        st.pending[me] = false;
    }

    fn after(&self, obj: usize, op: &'static str, num: u64, r: Option<&dyn Any>) {
        let me = match ME.with(|m| m.get()) {
            Some(m) => m,
            None => return,
        };
        let role = match self.role(obj) {
            Some(r) => r,
            None => return,
        };
        let (_, _, arg_num) = CUR.with(|c| c.get()).unwrap_or((0, "", 0));
        let arg = ARG.with(|c| c.borrow().clone());
        let res = match r {
            Some(x) => any_order(x).or_else(|| any_oid(x)).unwrap_or_else(|| "?".into()),
            None => "-".to_string(),
        };
        let e = match op {
            "fetch_add" => format!("FA:{role}:{arg_num}:{num}"),
            "fetch_sub" => format!("FS:{role}:{arg_num}:{num}"),
            "load" => format!("LD:{role}:{num}"),
            "store" => format!("ST:{role}:{arg_num}"),
            "insert" => format!("INS {arg}"),
            "remove" => format!("REM {arg} {res}"),
            "get" => format!("GET {arg} {res}"),
            "push" => format!("PUSH {arg}"),
            "pop" => format!("POP {res}"),
            "iter" => format!("ITER {num}"),
            "len" => format!("LEN {num}"),
            "is_empty" => format!("EMPTY {num}"),
            _ => format!("?{op}"),
        };
        let mut st = self.st.lock().unwrap();
        st.log.push(format!("S {me} {e}"));
    }
}

struct Rng(u64);
impl Rng {
    fn next(&mut self) -> u64 {
        // splitmix64
        self.0 = self.0.wrapping_add(0x9E3779B97F4A7C15);
        let mut z = self.0;
        z = (z ^ (z >> 30)).wrapping_mul(0xBF58476D1CE4E5B9);
        z = (z ^ (z >> 27)).wrapping_mul(0x94D049BB133111EB);
        z ^ (z >> 31)
    }
}

fn do_call(lvl: &PriceLevel, generator: &UuidGenerator, op: &str) -> String {
    let t: Vec<&str> = op.split(' ').collect();
    match t[0] {
        "ADD" => {
            let o = order_of_str(t[1]).unwrap();
            let r = lvl.add_order(o);
            format!("add:{}", str_of_order(&r))
        }
        "MATCH" => {
            let qty: u64 = t[1].parse().unwrap();
            let taker = oid_of_str(t[2]).unwrap();
            let r = lvl.match_order(qty, taker, generator);
            format!("match:{}", result_str(&r).replace(' ', ";"))
        }
        "UPD" => {
            let u = update_of_str(t[1]).unwrap();
            match lvl.update_order(u) {
                Ok(o) => format!("upd:ok:{}", str_of_oorder(&o.map(|a| *a))),
                Err(_) => "upd:err".to_string(),
            }
        }
        "RV" => format!("num:{}", lvl.visible_quantity()),
        "RH" => format!("num:{}", lvl.hidden_quantity()),
        "RC" => format!("num:{}", lvl.order_count()),
        "LIST" => format!("list:{}", list_str(&lvl.iter_orders(), |o| str_of_order(o))),
        // a snapshot: three counter loads and an iteration (Model/Conc.v: CSnapshot)
        "SNAP" => {
            let s = lvl.snapshot();
            format!("snap:{}/{}/{}/{}", s.visible_quantity, s.hidden_quantity, s.order_count, list_str(&s.orders, |o| str_of_order(o)))
        }
        // a snapshot package restored at once: must always succeed
        "SNAPPKG" => match lvl.snapshot_package().and_then(PriceLevel::from_snapshot_package) {
            Ok(l) => format!("pkg:ok:{}", l.order_count()),
            Err(e) => format!("pkg:err:{}", e.to_string().replace(' ', "_")),
        },
        "NEXT" => format!("id:{}", generator.next()),
        // observers of the generator (logging, serialisation): must not disturb the sequence (only in `nomodel` programs)
        "DBG" => format!("dbg:{}", format!("{:?}", generator).len().min(1)),
        "GSER" => format!("dbg:{}", serde_json::to_string(generator).map(|s| s.len().min(1)).unwrap_or(0)),
        "GCLONE" => "dbg:1".to_string(),
        _ => format!("error:{op}"),
    }
}

pub fn run(modelrun: &str) {
    let _ = calib();
    out::start_watchdog();
    let mut model = Model::spawn(modelrun);
    let stdin = std::io::stdin();
    use std::io::BufRead;
    for line in stdin.lock().lines() {
        let line = line.unwrap();
        if line.is_empty() {
            continue;
        }
        let f: Vec<&str> = line.split('|').collect();
        let (id, price, setup, threads, sched, flags) = (f[0], f[1], f[2], f[3], f[4], f.get(5).copied().unwrap_or(""));
        let price: u64 = price.parse().unwrap();
        let mode = if flags.contains("mode=C") { "C" } else { "O" };
        let drain = flags.split(',').any(|x| x == "drain");
        out::line(&format!("P {id}"));
        for p in &calib().problems {
            out::line(&format!("U {p}"));
        }

        let base = verif_sync::next_id();
        let lvl = Arc::new(PriceLevel::new(price));
        let gen_id = verif_sync::next_id();
        // `gen0=<n>`: a generator that has already issued n ids (built through its Deserialize impl)
        let gen0: u64 = flags.split(',').find_map(|x| x.strip_prefix("gen0=")).and_then(|x| x.parse().ok()).unwrap_or(0);
        // `ns=<uuid>`: namespace of the generator (default: the fixed test namespace)
        let ns: String = flags.split(',').find_map(|x| x.strip_prefix("ns=")).unwrap_or(crate::level::NS_MAIN).to_string();
        let generator: Arc<UuidGenerator> = if gen0 == 0 {
            Arc::new(UuidGenerator::new(Uuid::parse_str(&ns).unwrap()))
        } else {
            Arc::new(serde_json::from_str(&format!("{{\"namespace\":\"{ns}\",\"counter\":{gen0}}}")).unwrap())
        };
        model.call(&format!("NEW {price} {mode}"));
        if gen0 != 0 {
            model.call(&format!("GEN {gen0}"));
        }
        for op in setup.split(';').filter(|s| !s.is_empty()) {
            do_call(&lvl, &generator, op);
            let t: Vec<&str> = op.split(' ').collect();
            let m = match t[0] {
                "ADD" => model.call(&format!("ADD {}", t[1])),
                "MATCH" => model.call(&format!("MATCH {} {}", t[1], t[2])),
                "UPD" => model.call(&format!("UPD {}", t[1])),
                _ => String::new(),
            };
            if m.starts_with("error") {
                out::line(&format!("X setup {m}"));
            }
        }
        out::line(&format!("I0 {}", state_str(&lvl)));

        let progs: Vec<Vec<String>> = threads
            .split('#')
            .map(|t| t.split(';').filter(|s| !s.is_empty()).map(|s| s.to_string()).collect())
            .collect();
        let n = progs.len();
        let sc = Arc::new(Sched {
            st: Mutex::new(St {
                running: None,
                granted: None,
                pending: vec![false; n],
                done: vec![false; n],
                log: Vec::new(),
                aborted: false,
            }),
            cv: Condvar::new(),
            base,
            gen_id,
            queue_mode: false,
        });
        verif_sync::set_hook(Some(sc.clone() as Arc<dyn Hook>));
        let mut handles = Vec::new();
        for (tid, prog) in progs.iter().enumerate() {
            let (lvl, generator, sc, prog) = (lvl.clone(), generator.clone(), sc.clone(), prog.clone());
            handles.push(std::thread::spawn(move || {
                ME.with(|m| m.set(Some(tid)));
                for (ci, op) in prog.iter().enumerate() {
                    sc.st.lock().unwrap().log.push(format!("B {tid} {ci} {op}"));
                    let r = catch_unwind(AssertUnwindSafe(|| do_call(&lvl, &generator, op)));
                    let mut st = sc.st.lock().unwrap();
                    match r {
                        Ok(r) => st.log.push(format!("R {tid} {ci} {r}")),
                        Err(_) => {
                            if !st.aborted {
                                st.log.push(format!("X panic in thread {tid} call {ci}"));
                            }
                            break;
                        }
                    }
                }
                let mut st = sc.st.lock().unwrap();
                if st.running == Some(tid) {
                    st.running = None;
                }
                st.done[tid] = true;
                sc.cv.notify_all();
            }));
        }

        // ---- scheduler ----
        let mut rng = Rng(0);
        let mut explicit: Vec<usize> = Vec::new();
        let mut kind = 'x';
        if let Some(s) = sched.strip_prefix('r') {
            rng = Rng(s.parse().unwrap_or(1));
            kind = 'r';
        } else if let Some(s) = sched.strip_prefix('p') {
            rng = Rng(s.parse().unwrap_or(1));
            kind = 'p';
        } else {
            explicit = sched.split(',').filter(|s| !s.is_empty()).map(|s| s.parse().unwrap()).collect();
        }
        // PCT: random distinct priorities, two random change points
        let mut prio: Vec<u64> = (0..n).map(|_| rng.next() % 1000 + 10).collect();
        let change: Vec<u64> = vec![rng.next() % 40, rng.next() % 120];
        let mut steps: u64 = 0;
        let budget: u64 = 20000;
        let mut taken: Vec<usize> = Vec::new();
        let mut enabled_log: Vec<String> = Vec::new();
        let mut snaps: Vec<String> = Vec::new();
        loop {
            let mut st = sc.st.lock().unwrap();
            let t0 = std::time::Instant::now();
            loop {
                let settled = st.running.is_none() && st.granted.is_none() && (0..n).all(|i| st.done[i] || st.pending[i]);
                if settled {
                    break;
                }
                let (g, to) = sc.cv.wait_timeout(st, Duration::from_millis(200)).unwrap();
                st = g;
                if to.timed_out() && t0.elapsed() > Duration::from_secs(5) {
                    st.log.push("X timeout: a thread neither parked nor finished within 5 s".into());
                    st.aborted = true;
                    sc.cv.notify_all();
                    break;
                }
            }
            if st.aborted {
                break;
            }
            // aggregates as a reader would see them now (scheduler thread is not a worker: no yield)
            if steps > 0 {
                snaps.push(format!("{} {} {}", lvl.visible_quantity(), lvl.hidden_quantity(), lvl.order_count()));
            }
            let enabled: Vec<usize> = (0..n).filter(|&i| !st.done[i] && st.pending[i]).collect();
            if enabled.is_empty() {
                break;
            }
            if steps >= budget {
                st.log.push(format!("X budget: more than {budget} steps"));
                st.aborted = true;
                sc.cv.notify_all();
                break;
            }
            let pick = if (steps as usize) < explicit.len() && enabled.contains(&explicit[steps as usize]) {
                explicit[steps as usize]
            } else if kind == 'r' {
                enabled[(rng.next() % enabled.len() as u64) as usize]
            } else if kind == 'p' {
                if change.contains(&steps) {
                    let top = *enabled.iter().max_by_key(|&&i| prio[i]).unwrap();
                    prio[top] = rng.next() % 9; // demote
                }
                *enabled.iter().max_by_key(|&&i| prio[i]).unwrap()
            } else {
                // explicit list exhausted or names a thread that cannot move: lowest enabled index
                enabled[0]
            };
            taken.push(pick);
            enabled_log.push(enabled.iter().map(|t| t.to_string()).collect::<Vec<_>>().join("."));
            steps += 1;
            st.granted = Some(pick);
            sc.cv.notify_all();
        }
        for h in handles {
            let _ = h.join();
        }
        verif_sync::set_hook(None);
        let log = std::mem::take(&mut sc.st.lock().unwrap().log);
        // interleave the per-step aggregate snapshots after their S line
        let mut si = 0;
        let mut trace: Vec<String> = Vec::new();
        let mut aborted = false;
        for l in &log {
            out::line(l);
            if l.starts_with("S ") {
                if si < snaps.len() {
                    out::line(&format!("A {}", snaps[si]));
                }
                si += 1;
                trace.push(l[2..].replace(' ', "~"));
            }
            if l.starts_with("X ") {
                aborted = true;
            }
        }
        out::line(&format!("K {}", taken.iter().map(|t| t.to_string()).collect::<Vec<_>>().join(",")));
        out::line(&format!("N {}", enabled_log.join(",")));
        if aborted {
            out::line("Q aborted");
            out::flush();
            // worker threads may be stuck; start from a clean process
            std::process::exit(4);
        }
        out::line(&format!("Q {}", state_str(&lvl)));
        // ---- model: accept the trace ----
        // `nomodel`: the program uses calls Model/Conc.v does not have (snapshot): judged only, not compared
        let nomodel = flags.split(',').any(|x| x == "nomodel");
        if nomodel {
            out::line("V nomodel");
        } else {
            let tl = progs.iter().map(|p| p.join(";").replace(' ', "~")).collect::<Vec<_>>().join("#");
            let m = model.call(&format!("CTHREADS {tl}"));
            if m.starts_with("error") {
                out::line(&format!("X model {m}"));
            }
            // `proj=<classes>`: compare only events on these object classes (see CTRACEP in modelrun/driver.ml)
            let proj = flags.split(',').find_map(|x| x.strip_prefix("proj="));
            let v = match proj {
                Some(p) => model.call(&format!("CTRACEP {} {}", p.replace('+', ","), trace.join(" "))),
                None => model.call(&format!("CTRACE {}", trace.join(" "))),
            };
            out::line(&format!("V {v}"));
        }
        if drain {
            let r = catch_unwind(AssertUnwindSafe(|| {
                out::arm(&format!("{id} drain"), 5000);
                let res = lvl.match_order(u64::MAX, oid_of_str("u777777").unwrap(), &generator);
                out::disarm();
                format!("{} {}", result_str(&res), state_str(&lvl))
            }));
            out::line(&format!("D {}", r.unwrap_or_else(|_| "panic".into())));
            if !nomodel {
                let m = model.call("CDRAIN u777777");
                out::line(&format!("DM {m}"));
            }
        }
        let e = model.call("IFACE");
        out::line(&format!("E {id} {e}"));
        out::flush();
    }
}


// ---------------------------------------------------------------------------------------------
// The exported OrderQueue on its own, from several threads (second half of C08's quantifier).
// Program line:  id|setup pushes (;)|thread ops (; within, # between)|sched
//   ops: QPUSH <order> | QPOP | QREMOVE <id> | QFIND <id> | QLEN | QEMPTY | QVEC

fn do_qcall(q: &pricelevel::OrderQueue, op: &str) -> String {
    let t: Vec<&str> = op.split(' ').collect();
    let oo = |o: Option<Arc<OrderType<()>>>| str_of_oorder(&o.map(|a| *a));
    match t[0] {
        "QPUSH" => {
            q.push(Arc::new(order_of_str(t[1]).unwrap()));
            "unit".into()
        }
        "QPOP" => format!("ord:{}", oo(q.pop())),
        "QREMOVE" => format!("ord:{}", oo(q.remove(oid_of_str(t[1]).unwrap()))),
        "QFIND" => format!("ord:{}", oo(q.find(oid_of_str(t[1]).unwrap()))),
        "QLEN" => format!("num:{}", q.len()),
        "QEMPTY" => format!("bool:{}", if q.is_empty() { 1 } else { 0 }),
        "QVEC" => format!("vec:{}", list_str(&q.to_vec(), |o| str_of_order(o))),
        _ => format!("error:{op}"),
    }
}

pub fn run_queue(modelrun: &str) {
    let _ = calib();
    out::start_watchdog();
    let mut model = Model::spawn(modelrun);
    let stdin = std::io::stdin();
    use std::io::BufRead;
    for line in stdin.lock().lines() {
        let line = line.unwrap();
        if line.is_empty() {
            continue;
        }
        let f: Vec<&str> = line.split('|').collect();
        let (id, setup, threads, sched) = (f[0], f[1], f[2], f[3]);
        out::line(&format!("P {id}"));
        for p in &calib().problems {
            out::line(&format!("U {p}"));
        }
        let base = verif_sync::next_id();
        let q = Arc::new(pricelevel::OrderQueue::new());
        model.call("QNEW");
        for op in setup.split(';').filter(|s| !s.is_empty()) {
            do_qcall(&q, op);
            model.call(op);
        }
        out::line(&format!("I0 len={} vec={}", q.len(), list_str(&q.to_vec(), |o| str_of_order(o))));
        let progs: Vec<Vec<String>> = threads
            .split('#')
            .map(|t| t.split(';').filter(|s| !s.is_empty()).map(|s| s.to_string()).collect())
            .collect();
        let n = progs.len();
        let sc = Arc::new(Sched {
            st: Mutex::new(St { running: None, granted: None, pending: vec![false; n], done: vec![false; n], log: Vec::new(), aborted: false }),
            cv: Condvar::new(),
            base,
            gen_id: usize::MAX,
            queue_mode: true,
        });
        verif_sync::set_hook(Some(sc.clone() as Arc<dyn Hook>));
        let mut handles = Vec::new();
        for (tid, prog) in progs.iter().enumerate() {
            let (q, sc, prog) = (q.clone(), sc.clone(), prog.clone());
            handles.push(std::thread::spawn(move || {
                ME.with(|m| m.set(Some(tid)));
                for (ci, op) in prog.iter().enumerate() {
                    sc.st.lock().unwrap().log.push(format!("B {tid} {ci} {op}"));
                    let r = catch_unwind(AssertUnwindSafe(|| do_qcall(&q, op)));
                    let mut st = sc.st.lock().unwrap();
                    match r {
                        Ok(r) => st.log.push(format!("R {tid} {ci} {r}")),
                        Err(_) => {
                            if !st.aborted {
                                st.log.push(format!("X panic in thread {tid} call {ci}"));
                            }
                            break;
                        }
                    }
                }
                let mut st = sc.st.lock().unwrap();
                if st.running == Some(tid) {
                    st.running = None;
                }
                st.done[tid] = true;
                sc.cv.notify_all();
            }));
        }
        let mut rng = Rng(0);
        let mut explicit: Vec<usize> = Vec::new();
        let mut random = false;
        if let Some(sd) = sched.strip_prefix('r') {
            rng = Rng(sd.parse().unwrap_or(1));
            random = true;
        } else {
            explicit = sched.split(',').filter(|s| !s.is_empty()).map(|s| s.parse().unwrap()).collect();
        }
        let mut steps: usize = 0;
        let mut taken: Vec<usize> = Vec::new();
        let mut enabled_log: Vec<String> = Vec::new();
        loop {
            let mut st = sc.st.lock().unwrap();
            let t0 = std::time::Instant::now();
            loop {
                let settled = st.running.is_none() && st.granted.is_none() && (0..n).all(|i| st.done[i] || st.pending[i]);
                if settled {
                    break;
                }
                let (g, to) = sc.cv.wait_timeout(st, Duration::from_millis(200)).unwrap();
                st = g;
                if to.timed_out() && t0.elapsed() > Duration::from_secs(5) {
                    st.log.push("X timeout: a thread neither parked nor finished within 5 s".into());
                    st.aborted = true;
                    sc.cv.notify_all();
                    break;
                }
            }
            if st.aborted {
                break;
            }
            let enabled: Vec<usize> = (0..n).filter(|&i| !st.done[i] && st.pending[i]).collect();
            if enabled.is_empty() {
                break;
            }
            if steps >= 20000 {
                st.log.push("X budget: more than 20000 steps".into());
                st.aborted = true;
                sc.cv.notify_all();
                break;
            }
            let pick = if steps < explicit.len() && enabled.contains(&explicit[steps]) {
                explicit[steps]
            } else if random {
                enabled[(rng.next() % enabled.len() as u64) as usize]
            } else {
                enabled[0]
            };
            taken.push(pick);
            enabled_log.push(enabled.iter().map(|t| t.to_string()).collect::<Vec<_>>().join("."));
            steps += 1;
            st.granted = Some(pick);
            sc.cv.notify_all();
        }
        for h in handles {
            let _ = h.join();
        }
        verif_sync::set_hook(None);
        let log = std::mem::take(&mut sc.st.lock().unwrap().log);
        let mut trace: Vec<String> = Vec::new();
        let mut aborted = false;
        for l in &log {
            out::line(l);
            if l.starts_with("S ") {
                trace.push(l[2..].replace(' ', "~"));
            }
            if l.starts_with("X ") {
                aborted = true;
            }
        }
        out::line(&format!("K {}", taken.iter().map(|t| t.to_string()).collect::<Vec<_>>().join(",")));
        out::line(&format!("N {}", enabled_log.join(",")));
        if aborted {
            out::line("Q aborted");
            out::flush();
            std::process::exit(4);
        }
        out::line(&format!("Q len={} empty={} vec={}", q.len(), if q.is_empty() { 1 } else { 0 }, list_str(&q.to_vec(), |o| str_of_order(o))));
        let tl = progs.iter().map(|p| p.join(";").replace(' ', "~")).collect::<Vec<_>>().join("#");
        model.call(&format!("QCTHREADS {tl}"));
        let v = model.call(&format!("QCTRACE {}", trace.join(" ")));
        out::line(&format!("V {v}"));
        // drain: pop until empty; every listed order must come out exactly once
        let mut popped = Vec::new();
        out::arm(&format!("{id} drain"), 5000);
        while let Some(o) = q.pop() {
            popped.push(str_of_order(&o));
            if popped.len() > 100000 {
                break;
            }
        }
        out::disarm();
        out::line(&format!("D popped=[{}] len={}", popped.join(","), q.len()));
        out::line(&format!("E {id} done"));
        out::flush();
    }
}

// ---------------------------------------------------------------------------------------------
// Real-thread stress (no scheduler, no hook): a SEARCH for failures that sequentially consistent
// baton scheduling cannot produce (weak memory orderings, non-linearisable container behaviour).
// Same program lines as `conc`; the last field is the number of trials.  Judged here: aggregates
// = sums over the listing at quiescence, and after a draining match nothing displayed is left.
pub fn stress() {
    let _ = calib();
    let stdin = std::io::stdin();
    use std::io::BufRead;
    for line in stdin.lock().lines() {
        let line = line.unwrap();
        if line.is_empty() {
            continue;
        }
        let f: Vec<&str> = line.split('|').collect();
        let (id, price, setup, threads) = (f[0], f[1], f[2], f[3]);
        let trials: usize = f.get(4).and_then(|x| x.parse().ok()).unwrap_or(100);
        let price: u64 = price.parse().unwrap();
        let progs: Vec<Vec<String>> = threads
            .split('#')
            .map(|t| t.split(';').filter(|s| !s.is_empty()).map(|s| s.to_string()).collect())
            .collect();
        let mut bad: Option<String> = None;
        for trial in 0..trials {
            let lvl = Arc::new(PriceLevel::new(price));
            let generator = Arc::new(UuidGenerator::new(Uuid::parse_str(crate::level::NS_MAIN).unwrap()));
            for op in setup.split(';').filter(|s| !s.is_empty()) {
                do_call(&lvl, &generator, op);
            }
            let barrier = Arc::new(std::sync::Barrier::new(progs.len()));
            let mut hs = Vec::new();
            for prog in progs.iter() {
                let (lvl, generator, prog, barrier) = (lvl.clone(), generator.clone(), prog.clone(), barrier.clone());
                hs.push(std::thread::spawn(move || {
                    barrier.wait();
                    for op in prog.iter() {
                        let _ = catch_unwind(AssertUnwindSafe(|| do_call(&lvl, &generator, op)));
                    }
                }));
            }
            for h in hs {
                let _ = h.join();
            }
            let check = |when: &str| -> Option<String> {
                let v = lvl.iter_orders();
                let sv: u64 = v.iter().map(|o| o.visible_quantity()).sum();
                let sh: u64 = v.iter().map(|o| o.hidden_quantity()).sum();
                if (lvl.visible_quantity(), lvl.hidden_quantity(), lvl.order_count()) != (sv, sh, v.len()) {
                    Some(format!(
                        "trial {trial} {when}: aggregates ({},{},{}) != sums ({sv},{sh},{})",
                        lvl.visible_quantity(), lvl.hidden_quantity(), lvl.order_count(), v.len()
                    ))
                } else {
                    None
                }
            };
            if let Some(b) = check("at quiescence") {
                bad = Some(b);
                break;
            }
            out::arm(&format!("{id} stress-drain"), 5000);
            let _ = lvl.match_order(u64::MAX, oid_of_str("u777777").unwrap(), &generator);
            out::disarm();
            if let Some(b) = check("after the draining match") {
                bad = Some(b);
                break;
            }
            if lvl.iter_orders().iter().any(|o| o.visible_quantity() > 0) {
                bad = Some(format!("trial {trial}: an order still displays quantity after the draining match"));
                break;
            }
        }
        out::line(&format!("Z {id} {}", bad.unwrap_or_else(|| "ok".into())));
    }
    out::flush();
}
