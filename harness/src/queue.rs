//! The exported OrderQueue on its own (C19), in lock-step with the model.
//! Case line: id|op|op|...   ops: QPUSH <order> | QPOP | QFIND <id> | QREMOVE <id> | QLEN | QEMPTY | QVEC
//!                                | QFROMVEC [orders] | QFROMSTR [orders] | QFROMJSON [orders] | QINTOVEC

use crate::enc::*;
use crate::level::Model;
use crate::out;
use pricelevel::{OrderQueue, OrderType};
use std::io::BufRead;
use std::panic::{catch_unwind, AssertUnwindSafe};
use std::str::FromStr;
use std::sync::Arc;

fn parse_list(s: &str) -> Vec<OrderType<()>> {
    let b = &s[1..s.len() - 1];
    if b.is_empty() {
        return vec![];
    }
    b.split(',').map(|x| order_of_str(x).unwrap()).collect()
}

fn oo(o: Option<Arc<OrderType<()>>>) -> String {
    str_of_oorder(&o.map(|a| *a))
}

pub fn run(modelrun: &str) {
    out::start_watchdog();
    let mut model = Model::spawn(modelrun);
    let stdin = std::io::stdin();
    for line in stdin.lock().lines() {
        let line = line.unwrap();
        if line.is_empty() {
            continue;
        }
        let parts: Vec<&str> = line.split('|').collect();
        let case = parts[0];
        let mut q = OrderQueue::new();
        model.call("QNEW");
        for (i, op) in parts[1..].iter().enumerate() {
            out::line(&format!("C {case} {i} {op}"));
            let t: Vec<&str> = op.split(' ').collect();
            let mut listing = String::from("[]");
            out::arm(&format!("{case} {i}"), 5000);
            let r = catch_unwind(AssertUnwindSafe(|| match t[0] {
                "QPUSH" => {
                    q.push(Arc::new(order_of_str(t[1]).unwrap()));
                    "unit".to_string()
                }
                "QPOP" => oo(q.pop()),
                "QFIND" => oo(q.find(oid_of_str(t[1]).unwrap())),
                "QREMOVE" => oo(q.remove(oid_of_str(t[1]).unwrap())),
                "QLEN" => q.len().to_string(),
                "QEMPTY" => (if q.is_empty() { "1" } else { "0" }).to_string(),
                "QVEC" => list_str(&q.to_vec(), |o| str_of_order(o)),
                "QFROMVEC" => {
                    let v: Vec<Arc<OrderType<()>>> = parse_list(t[1]).into_iter().map(Arc::new).collect();
                    q = if case.len() % 2 == 0 { OrderQueue::from_vec(v) } else { OrderQueue::from(v) };
                    "built".to_string()
                }
                "QFROMSTR" => {
                    // text of a queue holding these orders, printed by the library itself
                    let v: Vec<Arc<OrderType<()>>> = parse_list(t[1]).into_iter().map(Arc::new).collect();
                    let q1 = OrderQueue::from_vec(v);
                    listing = list_str(&q1.to_vec(), |o| str_of_order(o));
                    let text = q1.to_string();
                    if text.len() > 8 {
                        // a damaged copy of the same text first (the LAST order is broken, the earlier ones are fine): its
                        // rejection must leave nothing behind that the next, successful, parse could pick up
                        let mut bad = text[..text.len() - 2].to_string();
                        bad.push_str("\u{e9}x]");
                        let _ = catch_unwind(AssertUnwindSafe(|| OrderQueue::from_str(&bad).map(|q| q.len())));
                    }
                    match OrderQueue::from_str(&text) {
                        Ok(n) => {
                            q = n;
                            "built".to_string()
                        }
                        Err(e) => format!("err:{}", e.to_string().replace(' ', "_")),
                    }
                }
                "QFROMJSON" => {
                    let v: Vec<Arc<OrderType<()>>> = parse_list(t[1]).into_iter().map(Arc::new).collect();
                    let text = serde_json::to_string(&OrderQueue::from_vec(v)).unwrap();
                    if text.len() > 8 {
                        let bad = format!("{}x]", &text[..text.len() - 3]);
                        let _ = catch_unwind(AssertUnwindSafe(|| serde_json::from_str::<OrderQueue>(&bad).map(|q| q.len())));
                    }
                    let listed: Vec<OrderType<()>> = serde_json::from_str(&text).unwrap_or_default();
                    listing = list_str(&listed, |o| str_of_order(o));
                    match serde_json::from_str::<OrderQueue>(&text) {
                        Ok(n) => {
                            q = n;
                            "built".to_string()
                        }
                        Err(e) => format!("err:{}", e.to_string().replace(' ', "_")),
                    }
                }
                _ => format!("error bad op {op}"),
            }));
            out::disarm();
            out::line(&format!("I {}", r.unwrap_or_else(|_| "panic".into())));
            let cmd = match t[0] {
                "QFROMVEC" => format!("QFROM {}", t[1]),
                // the order in which the text lists the orders is DashMap iteration order (sorted by
                // timestamp for the text form): an oracle value handed to the model
                "QFROMSTR" | "QFROMJSON" => format!("QFROM {}", listing),
                _ => op.to_string(),
            };
            let m = model.call(&cmd);
            out::line(&format!("M {m}"));
        }
        out::line(&format!("E {case} done"));
        out::flush();
    }
}
