//! `harness json` — the library's serde/JSON encodings and checksummed snapshot
//! packages, one command per stdin line, one canonical answer line per command
//! (C17 / C09).  The compact value encoding is the one of enc.rs, extended:
//!
//!   uuid      decimal u128
//!   tx        txid/taker/maker/price/qty/side/ts
//!   txlist    [tx,tx,...]
//!   result    taker;[tx,...];remaining;complete(0|1);[oid,...]
//!   data      price;vis;hid;cnt;[order,...]          (PriceLevelData, PriceLevelSnapshot)
//!   package   version;x<hex of checksum text>;price;vis;hid;cnt;[order,...]
//!   stats     added/removed/executed/qty/value/last_exec/first_arrival/sum_wait
//!   level     TOJSON input: price;[order,...] (built by new + add_order);
//!             output of OFJSON / RESTORE: price;vis;hid;cnt;[orders sorted by (timestamp, id)]
//!   queue     [order,...]
//!
//! Commands:
//!   TOJSON <type> <value>        -> ok <hex json text> | err | panic
//!   OFJSON <type> <hex text>     -> ok <value> | err | panic
//!   PKGNEW <price> <[orders]>    -> ok <package> <hex to_json text> <hex snapshot_to_json text> <hex serde_json(snapshot)>
//!   PKGEDIT <package>            -> validate=<ok|err> into=<ok data|err> restore=<ok level|err> json=<hex>
//!   RESTORE <hex text>           -> ok <level> seq=<[orders as parsed]> pkg=<version;xchecksum;price;vis;hid;cnt as parsed> | err | panic
//!   BASE <hex text>              -> ok <level> seq=.. | err   (sets the base text of M / SCAN)
//!   M <edit>[+<edit>...]         -> r | p | a <level> seq=..
//!        edit = s<pos>:<byte> | d<pos> | i<pos>:<byte> | t<len>    (applied left to right)
//!   SCAN <hex replacement bytes> <hex insertion bytes> <hex xor masks>
//!        every single-byte substitution (each replacement byte, and the original byte xor each
//!        mask) / deletion / insertion / truncation of the base text;
//!        prints `a <edit> <level> seq=..` for each accepted mutant, `p <edit>` for each panic,
//!        then `done <mutants> <rejected> <accepted> <panics>`
//! types: side tif peg oid order update uuid tx txlist result data level snapshot package stats queue

use crate::enc::*;
use crate::out;
use pricelevel::{
    MatchResult, OrderId, OrderQueue, PriceLevel, PriceLevelData, PriceLevelSnapshot, Side, TimeInForce,
    Transaction,
};
use serde::de::DeserializeOwned;
use std::io::BufRead;
use std::panic::{catch_unwind, AssertUnwindSafe};
use std::sync::atomic::Ordering;
use std::sync::Arc;
use uuid::Uuid;

type R<T> = Result<T, String>;

// ---------------------------------------------------------------- helpers

pub fn hex(b: &[u8]) -> String {
    let mut s = String::with_capacity(b.len() * 2);
    for x in b {
        s.push_str(&format!("{x:02x}"));
    }
    s
}

pub fn unhex(s: &str) -> R<Vec<u8>> {
    if s.len() % 2 != 0 {
        return Err(format!("bad hex {s}"));
    }
    let b = s.as_bytes();
    let v = |c: u8| -> R<u8> {
        match c {
            b'0'..=b'9' => Ok(c - b'0'),
            b'a'..=b'f' => Ok(c - b'a' + 10),
            b'A'..=b'F' => Ok(c - b'A' + 10),
            _ => Err(format!("bad hex {s}")),
        }
    };
    let mut o = Vec::with_capacity(b.len() / 2);
    for i in (0..b.len()).step_by(2) {
        o.push(v(b[i])? * 16 + v(b[i + 1])?);
    }
    Ok(o)
}

fn pu(s: &str) -> R<u64> {
    s.parse::<u64>().map_err(|_| format!("bad u64 {s}"))
}

fn parse_list<T>(s: &str, f: impl Fn(&str) -> R<T>) -> R<Vec<T>> {
    let n = s.len();
    if n < 2 || !s.starts_with('[') || !s.ends_with(']') {
        return Err(format!("bad list {s}"));
    }
    let body = &s[1..n - 1];
    if body.is_empty() {
        return Ok(vec![]);
    }
    body.split(',').map(f).collect()
}

/// Deserialize "a value of the same type as `_like`": lets us reach types the
/// crate does not re-export (package, statistics, transaction list).
fn de_like<T: DeserializeOwned>(_like: &T, text: &str) -> Result<T, serde_json::Error> {
    de::<T>(text)
}

/// Which serde_json entry point `de` uses: 0 = from_str, 1 = from_slice, 2 = from_reader, 3 = from_value (via a parsed Value).
static VIA: std::sync::atomic::AtomicU8 = std::sync::atomic::AtomicU8::new(0);

fn de<T: DeserializeOwned>(text: &str) -> Result<T, serde_json::Error> {
    match VIA.load(std::sync::atomic::Ordering::Relaxed) {
        1 => serde_json::from_slice::<T>(text.as_bytes()),
        2 => serde_json::from_reader::<_, T>(std::io::Cursor::new(text.as_bytes().to_vec())),
        3 => serde_json::from_str::<serde_json::Value>(text).and_then(serde_json::from_value::<T>),
        _ => serde_json::from_str::<T>(text),
    }
}

fn str_of_update(u: &pricelevel::OrderUpdate) -> String {
    use pricelevel::OrderUpdate::*;
    match u {
        UpdatePrice { order_id, new_price } => format!("UP:{}:{new_price}", str_of_oid(order_id)),
        UpdateQuantity { order_id, new_quantity } => format!("UQ:{}:{new_quantity}", str_of_oid(order_id)),
        UpdatePriceAndQuantity { order_id, new_price, new_quantity } => {
            format!("UPQ:{}:{new_price}:{new_quantity}", str_of_oid(order_id))
        }
        Cancel { order_id } => format!("C:{}", str_of_oid(order_id)),
        Replace { order_id, price, quantity, side } => {
            format!("RP:{}:{price}:{quantity}:{}", str_of_oid(order_id), str_of_side(*side))
        }
    }
}

fn tx_of_str(s: &str) -> R<Transaction> {
    let p: Vec<&str> = s.split('/').collect();
    if p.len() != 7 {
        return Err(format!("bad tx {s}"));
    }
    Ok(Transaction {
        transaction_id: Uuid::from_u128(p[0].parse::<u128>().map_err(|_| format!("bad uuid {s}"))?),
        taker_order_id: oid_of_str(p[1])?,
        maker_order_id: oid_of_str(p[2])?,
        price: pu(p[3])?,
        quantity: pu(p[4])?,
        taker_side: side_of_str(p[5])?,
        timestamp: pu(p[6])?,
    })
}

fn str_of_tx(t: &Transaction) -> String {
    format!(
        "{}/{}/{}/{}/{}/{}/{}",
        t.transaction_id.as_u128(),
        str_of_oid(&t.taker_order_id),
        str_of_oid(&t.maker_order_id),
        t.price,
        t.quantity,
        str_of_side(t.taker_side),
        t.timestamp
    )
}

fn result_of_str(s: &str) -> R<MatchResult> {
    let p: Vec<&str> = s.split(';').collect();
    if p.len() != 5 {
        return Err(format!("bad result {s}"));
    }
    let mut r = MatchResult::new(oid_of_str(p[0])?, 0);
    r.transactions.transactions = parse_list(p[1], tx_of_str)?;
    r.remaining_quantity = pu(p[2])?;
    r.is_complete = p[3] == "1";
    r.filled_order_ids = parse_list(p[4], oid_of_str)?;
    Ok(r)
}

fn str_of_result(r: &MatchResult) -> String {
    format!(
        "{};{};{};{};{}",
        str_of_oid(&r.order_id),
        list_str(r.transactions.as_vec(), str_of_tx),
        r.remaining_quantity,
        if r.is_complete { 1 } else { 0 },
        list_str(&r.filled_order_ids, str_of_oid)
    )
}

struct Data {
    price: u64,
    vis: u64,
    hid: u64,
    cnt: usize,
    orders: Vec<Order>,
}

fn data_of_parts(p: &[&str]) -> R<Data> {
    if p.len() != 5 {
        return Err("bad data".into());
    }
    Ok(Data {
        price: pu(p[0])?,
        vis: pu(p[1])?,
        hid: pu(p[2])?,
        cnt: pu(p[3])? as usize,
        orders: parse_list(p[4], order_of_str)?,
    })
}

fn str_of_data(price: u64, vis: u64, hid: u64, cnt: usize, orders: &[Order]) -> String {
    format!("{price};{vis};{hid};{cnt};{}", list_str(orders, str_of_order))
}

fn snapshot_of_data(d: &Data) -> PriceLevelSnapshot {
    PriceLevelSnapshot {
        price: d.price,
        visible_quantity: d.vis,
        hidden_quantity: d.hid,
        order_count: d.cnt,
        orders: d.orders.iter().map(|o| Arc::new(*o)).collect(),
    }
}

fn str_of_snapshot(s: &PriceLevelSnapshot) -> String {
    let os: Vec<Order> = s.orders.iter().map(|a| **a).collect();
    str_of_data(s.price, s.visible_quantity, s.hidden_quantity, s.order_count, &os)
}

/// canonical content of a level: price, aggregates, listing sorted by (timestamp, id)
fn str_of_level(l: &PriceLevel) -> String {
    let mut os: Vec<Order> = l.iter_orders().iter().map(|a| **a).collect();
    os.sort_by_key(|o| (o.timestamp(), str_of_oid(&o.id())));
    str_of_data(l.price(), l.visible_quantity(), l.hidden_quantity(), l.order_count(), &os)
}

fn level_of_str(s: &str) -> R<PriceLevel> {
    let p: Vec<&str> = s.split(';').collect();
    if p.len() != 2 {
        return Err(format!("bad level {s}"));
    }
    let l = PriceLevel::new(pu(p[0])?);
    for o in parse_list(p[1], order_of_str)? {
        l.add_order(o);
    }
    Ok(l)
}

fn stats_vals(s: &str) -> R<Vec<u64>> {
    let p: Vec<&str> = s.split('/').collect();
    if p.len() != 8 {
        return Err(format!("bad stats {s}"));
    }
    p.iter().map(|x| pu(x)).collect()
}

macro_rules! fresh_package {
    () => {
        PriceLevel::new(0).snapshot_package().map_err(|e| e.to_string())?
    };
}

macro_rules! str_of_package {
    ($p:expr) => {
        format!("{};x{};{}", $p.version, hex($p.checksum.as_bytes()), str_of_snapshot(&$p.snapshot))
    };
}

macro_rules! package_of_str {
    ($s:expr) => {{
        let p: Vec<&str> = $s.split(';').collect();
        if p.len() != 7 || !p[1].starts_with('x') {
            return Err(format!("bad package {}", $s));
        }
        let mut pkg = fresh_package!();
        pkg.version = p[0].parse::<u32>().map_err(|_| format!("bad u32 {}", p[0]))?;
        pkg.checksum = String::from_utf8(unhex(&p[1][1..])?).map_err(|_| "bad utf8".to_string())?;
        pkg.snapshot = snapshot_of_data(&data_of_parts(&p[2..])?);
        pkg
    }};
}

fn js<T: serde::Serialize>(v: &T) -> R<String> {
    serde_json::to_string(v).map(|s| format!("ok {}", hex(s.as_bytes()))).map_err(|_| "err".to_string())
}

// ---------------------------------------------------------------- TOJSON / OFJSON

fn to_json(ty: &str, v: &str) -> R<String> {
    match ty {
        "side" => js(&side_of_str(v)?),
        "tif" => js(&tif_of_str(v)?),
        "peg" => js(&peg_of_str(v)?),
        "oid" => js(&oid_of_str(v)?),
        "order" => js(&order_of_str(v)?),
        "update" => js(&update_of_str(v)?),
        "uuid" => js(&Uuid::from_u128(v.parse::<u128>().map_err(|_| "bad uuid".to_string())?)),
        "tx" => js(&tx_of_str(v)?),
        "txlist" => {
            let mut r = MatchResult::new(OrderId::nil(), 0);
            r.transactions.transactions = parse_list(v, tx_of_str)?;
            js(&r.transactions)
        }
        "result" => js(&result_of_str(v)?),
        "data" => {
            let p: Vec<&str> = v.split(';').collect();
            let d = data_of_parts(&p)?;
            js(&PriceLevelData {
                price: d.price,
                visible_quantity: d.vis,
                hidden_quantity: d.hid,
                order_count: d.cnt,
                orders: d.orders,
            })
        }
        "level" => js(&level_of_str(v)?),
        "snapshot" => {
            let p: Vec<&str> = v.split(';').collect();
            js(&snapshot_of_data(&data_of_parts(&p)?))
        }
        "package" => {
            let pkg = package_of_str!(v);
            js(&pkg)
        }
        "stats" => {
            let vals = stats_vals(v)?;
            let l = PriceLevel::new(0);
            let st = l.stats();
            st.orders_added.store(vals[0] as usize, Ordering::Relaxed);
            st.orders_removed.store(vals[1] as usize, Ordering::Relaxed);
            st.orders_executed.store(vals[2] as usize, Ordering::Relaxed);
            st.quantity_executed.store(vals[3], Ordering::Relaxed);
            st.value_executed.store(vals[4], Ordering::Relaxed);
            st.last_execution_time.store(vals[5], Ordering::Relaxed);
            st.first_arrival_time.store(vals[6], Ordering::Relaxed);
            st.sum_waiting_time.store(vals[7], Ordering::Relaxed);
            js(&*st)
        }
        "queue" => {
            let os = parse_list(v, order_of_str)?;
            let q = OrderQueue::from(os.into_iter().map(Arc::new).collect::<Vec<_>>());
            js(&q)
        }
        _ => Err(format!("unknown type {ty}")),
    }
}

fn ok<T, E>(r: Result<T, E>, f: impl Fn(&T) -> String) -> R<String> {
    match r {
        Ok(v) => Ok(format!("ok {}", f(&v))),
        Err(_) => Ok("err".to_string()),
    }
}

fn of_json(ty: &str, text: &str) -> R<String> {
    match ty {
        "side" => ok(de::<Side>(text), |v| str_of_side(*v).to_string()),
        "tif" => ok(de::<TimeInForce>(text), |v| str_of_tif(*v)),
        "peg" => ok(de::<pricelevel::PegReferenceType>(text), |v| str_of_peg(*v).to_string()),
        "oid" => ok(de::<OrderId>(text), str_of_oid),
        "order" => ok(de::<Order>(text), str_of_order),
        "update" => ok(de::<pricelevel::OrderUpdate>(text), str_of_update),
        "uuid" => ok(de::<Uuid>(text), |u| u.as_u128().to_string()),
        "tx" => ok(de::<Transaction>(text), str_of_tx),
        "txlist" => {
            let r = MatchResult::new(OrderId::nil(), 0);
            ok(de_like(&r.transactions, text), |l| list_str(l.as_vec(), str_of_tx))
        }
        "result" => ok(de::<MatchResult>(text), str_of_result),
        "data" => ok(de::<PriceLevelData>(text), |d| {
            str_of_data(d.price, d.visible_quantity, d.hidden_quantity, d.order_count, &d.orders)
        }),
        "level" => ok(de::<PriceLevel>(text), str_of_level),
        "snapshot" => ok(de::<PriceLevelSnapshot>(text), str_of_snapshot),
        "package" => {
            let like = fresh_package!();
            ok(de_like(&like, text), |p| str_of_package!(p))
        }
        "stats" => {
            let l = PriceLevel::new(0);
            let st = l.stats();
            ok(de_like(&*st, text), |s| {
                format!(
                    "{}/{}/{}/{}/{}/{}/{}/{}",
                    s.orders_added(),
                    s.orders_removed(),
                    s.orders_executed(),
                    s.quantity_executed(),
                    s.value_executed(),
                    s.last_execution_time.load(Ordering::Relaxed),
                    s.first_arrival_time.load(Ordering::Relaxed),
                    s.sum_waiting_time.load(Ordering::Relaxed)
                )
            })
        }
        "queue" => ok(de::<OrderQueue>(text), |q| {
            let mut os: Vec<Order> = q.to_vec().iter().map(|a| **a).collect();
            os.sort_by_key(|o| (o.timestamp(), str_of_oid(&o.id())));
            list_str(&os, str_of_order)
        }),
        _ => Err(format!("unknown type {ty}")),
    }
}

// ---------------------------------------------------------------- packages

fn pkg_new(price: &str, listing: &str) -> R<String> {
    let l = level_of_str(&format!("{price};{listing}"))?;
    let pkg = l.snapshot_package().map_err(|e| e.to_string())?;
    let t1 = pkg.to_json().map_err(|e| e.to_string())?;
    // a second call may list equal-timestamp orders in the same (map) order; the
    // python side compares it with t1 only when timestamps are distinct
    let t2 = l.snapshot_to_json().map_err(|e| e.to_string())?;
    let payload = serde_json::to_vec(&pkg.snapshot).map_err(|e| e.to_string())?;
    Ok(format!(
        "ok {} {} {} {}",
        str_of_package!(pkg),
        hex(t1.as_bytes()),
        hex(t2.as_bytes()),
        hex(&payload)
    ))
}

fn pkg_edit(v: &str) -> R<String> {
    let pkg = package_of_str!(v);
    let json = pkg.to_json().map_err(|e| e.to_string())?;
    let val = if pkg.validate().is_ok() { "ok" } else { "err" };
    let into = match pkg.clone().into_snapshot() {
        Ok(s) => format!("ok {}", str_of_snapshot(&s)),
        Err(_) => "err".to_string(),
    };
    let restore = match PriceLevel::from_snapshot_package(pkg) {
        Ok(l) => format!("ok {}", str_of_level(&l)),
        Err(_) => "err".to_string(),
    };
    Ok(format!("validate={val} into={into} restore={restore} json={}", hex(json.as_bytes())))
}

/// from_snapshot_json on raw bytes; the text handed to the library must be a
/// &str, so invalid UTF-8 is "rejected" before the library sees it (the API
/// cannot be called with it at all).
fn restore_bytes(b: &[u8]) -> String {
    let text = match std::str::from_utf8(b) {
        Ok(t) => t,
        Err(_) => return "err".to_string(),
    };
    let r = catch_unwind(AssertUnwindSafe(|| -> String {
        match PriceLevel::from_snapshot_json(text) {
            Ok(l) => {
                // what the accepted package carries: order sequence, version, checksum text, stored aggregates
                let like = PriceLevel::new(0).snapshot_package();
                let seq = match like {
                    Ok(like) => match de_like(&like, text) {
                        Ok(p) => {
                            let os: Vec<Order> = p.snapshot.orders.iter().map(|a| **a).collect();
                            format!(
                                "{} pkg={};x{};{};{};{};{}",
                                list_str(&os, str_of_order),
                                p.version,
                                hex(p.checksum.as_bytes()),
                                p.snapshot.price,
                                p.snapshot.visible_quantity,
                                p.snapshot.hidden_quantity,
                                p.snapshot.order_count
                            )
                        }
                        Err(_) => "?".to_string(),
                    },
                    Err(_) => "?".to_string(),
                };
                format!("ok {} seq={}", str_of_level(&l), seq)
            }
            Err(_) => "err".to_string(),
        }
    }));
    r.unwrap_or_else(|_| "panic".to_string())
}

fn apply_edit(b: &mut Vec<u8>, e: &str) -> R<()> {
    let bad = || format!("bad edit {e}");
    let kind = e.as_bytes().first().copied().ok_or_else(bad)?;
    let rest = &e[1..];
    match kind {
        b's' | b'i' => {
            let (p, v) = rest.split_once(':').ok_or_else(bad)?;
            let p: usize = p.parse().map_err(|_| bad())?;
            let v: u8 = v.parse().map_err(|_| bad())?;
            if kind == b's' {
                if p >= b.len() {
                    return Err(bad());
                }
                b[p] = v;
            } else {
                if p > b.len() {
                    return Err(bad());
                }
                b.insert(p, v);
            }
        }
        b'd' => {
            let p: usize = rest.parse().map_err(|_| bad())?;
            if p >= b.len() {
                return Err(bad());
            }
            b.remove(p);
        }
        b't' => {
            let p: usize = rest.parse().map_err(|_| bad())?;
            if p > b.len() {
                return Err(bad());
            }
            b.truncate(p);
        }
        _ => return Err(bad()),
    }
    Ok(())
}

fn short(ans: &str) -> String {
    if ans == "err" {
        "r".into()
    } else if ans == "panic" {
        "p".into()
    } else {
        format!("a {}", &ans[3..])
    }
}

fn scan(base: &[u8], subs: &[u8], ins: &[u8], xors: &[u8]) {
    scan_in(base, subs, ins, xors, &[(0, usize::MAX)])
}

/// the same faults, restricted to the offsets inside one of the given half-open windows
fn scan_in(base: &[u8], subs: &[u8], ins: &[u8], xors: &[u8], windows: &[(usize, usize)]) {
    let inside = |p: usize| windows.iter().any(|&(a, b)| a <= p && p < b);
    let (mut n, mut rej, mut acc, mut pan) = (0u64, 0u64, 0u64, 0u64);
    let mut run = |edit: String, m: &[u8]| {
        n += 1;
        let a = restore_bytes(m);
        if a == "err" {
            rej += 1;
        } else if a == "panic" {
            pan += 1;
            out::line(&format!("p {edit}"));
        } else {
            acc += 1;
            out::line(&format!("a {edit} {}", &a[3..]));
        }
    };
    let len = base.len();
    for p in 0..len {
        if !inside(p) {
            continue;
        }
        for &v in subs {
            if v != base[p] {
                let mut m = base.to_vec();
                m[p] = v;
                run(format!("s{p}:{v}"), &m);
            }
        }
        for &x in xors {
            let v = base[p] ^ x;
            if x != 0 && !subs.contains(&v) {
                let mut m = base.to_vec();
                m[p] = v;
                run(format!("s{p}:{v}"), &m);
            }
        }
        let mut m = base.to_vec();
        m.remove(p);
        run(format!("d{p}"), &m);
        run(format!("t{p}"), &base[..p]);
    }
    for p in 0..=len {
        if !inside(p) {
            continue;
        }
        for &v in ins {
            let mut m = base.to_vec();
            m.insert(p, v);
            run(format!("i{p}:{v}"), &m);
        }
    }
    out::line(&format!("done {n} {rej} {acc} {pan}"));
}

// ---------------------------------------------------------------- main loop

pub fn run() {
    let stdin = std::io::stdin();
    let mut base: Vec<u8> = Vec::new();
    for line in stdin.lock().lines() {
        let line = match line {
            Ok(l) => l,
            Err(_) => break,
        };
        let p: Vec<&str> = line.split(' ').collect();
        let ans: R<String> = match (p[0], p.len()) {
            ("TOJSON", 3) => catch_unwind(AssertUnwindSafe(|| to_json(p[1], p[2]))).unwrap_or_else(|_| Ok("panic".into())),
            ("OFJSON", 3) => match unhex(p[2]).and_then(|b| String::from_utf8(b).map_err(|_| "bad utf8".to_string())) {
                Ok(t) => catch_unwind(AssertUnwindSafe(|| of_json(p[1], &t))).unwrap_or_else(|_| Ok("panic".into())),
                Err(e) => Err(e),
            },
            ("OFJSONVIA", 4) => match unhex(p[3]).and_then(|b| String::from_utf8(b).map_err(|_| "bad utf8".to_string())) {
                Ok(t) => {
                    let via = match p[1] { "slice" => 1, "reader" => 2, "value" => 3, _ => 0 };
                    VIA.store(via, std::sync::atomic::Ordering::Relaxed);
                    let r = catch_unwind(AssertUnwindSafe(|| of_json(p[2], &t))).unwrap_or_else(|_| Ok("panic".into()));
                    VIA.store(0, std::sync::atomic::Ordering::Relaxed);
                    r
                }
                Err(e) => Err(e),
            },
            ("PKGNEW", 3) => catch_unwind(AssertUnwindSafe(|| pkg_new(p[1], p[2]))).unwrap_or_else(|_| Ok("panic".into())),
            ("PKGEDIT", 2) => catch_unwind(AssertUnwindSafe(|| pkg_edit(p[1]))).unwrap_or_else(|_| Ok("panic".into())),
            ("RESTORE", 2) => unhex(p[1]).map(|b| restore_bytes(&b)),
            ("BASE", 2) => unhex(p[1]).map(|b| {
                base = b;
                restore_bytes(&base)
            }),
            ("M", 2) => {
                let mut m = base.clone();
                let mut r = Ok(());
                for e in p[1].split('+') {
                    r = r.and_then(|_| apply_edit(&mut m, e));
                }
                r.map(|_| short(&restore_bytes(&m)))
            }
            ("SCAN", 4) => match (unhex(p[1]), unhex(p[2]), unhex(p[3])) {
                (Ok(s), Ok(i), Ok(x)) => {
                    scan(&base, &s, &i, &x);
                    out::flush();
                    continue;
                }
                _ => Err("bad hex".into()),
            },
            ("SCANW", 5) => match (unhex(p[1]), unhex(p[2]), unhex(p[3])) {
                (Ok(s), Ok(i), Ok(x)) => {
                    let w: Vec<(usize, usize)> = p[4]
                        .split(',')
                        .filter_map(|r| r.split_once('-').and_then(|(a, b)| Some((a.parse().ok()?, b.parse().ok()?))))
                        .collect();
                    scan_in(&base, &s, &i, &x, &w);
                    out::flush();
                    continue;
                }
                _ => Err("bad hex".into()),
            },
            ("PING", 1) => Ok("pong".into()),
            _ => Err(format!("unknown command {line}")),
        };
        match ans {
            Ok(a) => out::line(&a),
            Err(e) => out::line(&format!("error {e}")),
        }
        // answers are consumed interactively by the python driver
        out::flush();
    }
}
