//! Sequential PriceLevel histories in lock-step with the model co-process.

use crate::enc::*;
use crate::out;
use pricelevel::{MatchResult, PriceLevel, UuidGenerator};
use std::io::{BufRead, BufReader, Write};
use std::panic::{catch_unwind, AssertUnwindSafe};
use std::process::{Child, ChildStdin, ChildStdout, Command, Stdio};
use std::str::FromStr;
use uuid::Uuid;

pub const NS_MAIN: &str = "6ba7b810-9dad-11d1-80b4-00c04fd430c8";
pub const NS_FORK: &str = "6ba7b811-9dad-11d1-80b4-00c04fd430c8";

pub struct Model {
    _child: Child,
    stdin: ChildStdin,
    stdout: BufReader<ChildStdout>,
}

impl Model {
    pub fn spawn(path: &str) -> Model {
        let mut child = Command::new(path)
            .stdin(Stdio::piped())
            .stdout(Stdio::piped())
            .spawn()
            .expect("cannot start modelrun");
        let stdin = child.stdin.take().unwrap();
        let stdout = BufReader::new(child.stdout.take().unwrap());
        Model { _child: child, stdin, stdout }
    }

    /// Send one command; answer the model's questions about the per-order
    /// function with the implementation's public `match_against`.
    pub fn call(&mut self, cmd: &str) -> String {
        self.stdin.write_all(cmd.as_bytes()).unwrap();
        self.stdin.write_all(b"\n").unwrap();
        self.stdin.flush().unwrap();
        loop {
            let mut l = String::new();
            if self.stdout.read_line(&mut l).unwrap() == 0 {
                return "error model died".into();
            }
            let l = l.trim_end_matches('\n');
            if let Some(q) = l.strip_prefix("? ") {
                let p: Vec<&str> = q.split(' ').collect();
                let ans = match (order_of_str(p[0]), p[1].parse::<u64>()) {
                    (Ok(o), Ok(inc)) => match catch_unwind(|| o.match_against(inc)) {
                        Ok(r) => str_of_mres(&r),
                        Err(_) => "0/-/0/0".to_string(),
                    },
                    _ => "0/-/0/0".to_string(),
                };
                self.stdin.write_all(format!("! {ans}\n").as_bytes()).unwrap();
                self.stdin.flush().unwrap();
            } else if let Some(a) = l.strip_prefix("= ") {
                return a.to_string();
            } else {
                return format!("error unexpected model line {l}");
            }
        }
    }
}

thread_local! {
    /// blind mode: do not observe the level through read-only calls after each operation
    /// (used by the purity check of C07, where the reads themselves are under test)
    pub static BLIND: std::cell::Cell<bool> = const { std::cell::Cell::new(false) };
}

pub fn state_str(l: &PriceLevel) -> String {
    if BLIND.with(|b| b.get()) {
        return "blind=1".to_string();
    }
    let st = l.stats();
    let vec = l.iter_orders();
    format!(
        "cv={} ch={} cc={} st={}/{}/{}/{}/{} vec={}",
        l.visible_quantity(),
        l.hidden_quantity(),
        l.order_count(),
        st.orders_added(),
        st.orders_removed(),
        st.orders_executed(),
        st.quantity_executed(),
        st.value_executed(),
        list_str(&vec, |o| str_of_order(o))
    )
}

pub fn result_str(r: &MatchResult) -> String {
    let txs = r.transactions.as_vec();
    format!(
        "txs={} rem={} complete={} filled={} exec={}",
        list_str(txs, |t| format!(
            "{}/{}/{}/{}/{}/{}",
            t.transaction_id,
            str_of_oid(&t.taker_order_id),
            str_of_oid(&t.maker_order_id),
            t.price,
            t.quantity,
            str_of_side(t.taker_side)
        )),
        r.remaining_quantity,
        if r.is_complete { 1 } else { 0 },
        list_str(&r.filled_order_ids, |k| str_of_oid(k)),
        r.executed_quantity()
    )
}

fn rebuild(via: &str, l: &PriceLevel) -> Result<PriceLevel, String> {
    match via {
        "snap" => PriceLevel::from_snapshot(l.snapshot()).map_err(|e| e.to_string()),
        "pkg" => {
            let p = l.snapshot_package().map_err(|e| e.to_string())?;
            PriceLevel::from_snapshot_package(p).map_err(|e| e.to_string())
        }
        "pjson" => {
            let j = l.snapshot_to_json().map_err(|e| e.to_string())?;
            PriceLevel::from_snapshot_json(&j).map_err(|e| e.to_string())
        }
        "ref" => Ok(PriceLevel::from(&l.snapshot())),
        "data" => {
            let j = serde_json::to_string(l).map_err(|e| e.to_string())?;
            serde_json::from_str::<PriceLevel>(&j).map_err(|e| e.to_string())
        }
        "text" => PriceLevel::from_str(&l.to_string()).map_err(|e| e.to_string()),
        _ => Err(format!("bad via {via}")),
    }
}

/// model-side name of the constructor family
fn via_family(via: &str) -> &'static str {
    match via {
        "snap" | "pkg" | "pjson" | "ref" => "snap",
        _ => "data",
    }
}

fn guarded<T>(what: &str, budget_ms: u64, f: impl FnOnce() -> T) -> Result<T, ()> {
    out::arm(what, budget_ms);
    let r = catch_unwind(AssertUnwindSafe(f));
    out::disarm();
    r.map_err(|_| ())
}

pub fn run(modelrun: &str) {
    out::start_watchdog();
    let mut model = Model::spawn(modelrun);
    let stdin = std::io::stdin();
    for line in stdin.lock().lines() {
        let line = line.unwrap();
        if line.is_empty() {
            continue;
        }
        let parts: Vec<&str> = line.split('|').collect();
        let case = parts[0];
        let price: u64 = parts[1].parse().unwrap();
        let blind = parts[2].contains('B');
        // `K`: the caller KEEPS what the library hands out (the Arc returned by add_order, the listing of a snapshot) until
        // the end of the case, as a long-lived client would; code that assumes it is the only owner of an order's Arc
        // behaves differently then
        let keep_handles = parts[2].contains('K');
        let kept: std::cell::RefCell<Vec<std::sync::Arc<pricelevel::OrderType<()>>>> = std::cell::RefCell::new(Vec::new());
        BLIND.with(|b| b.set(blind));
        let mode = if parts[2].starts_with('C') { "C" } else { "O" };
        let mut lvl = PriceLevel::new(price);
        let mut fork: Option<PriceLevel> = None;
        let mut generator = UuidGenerator::new(Uuid::parse_str(NS_MAIN).unwrap());
        let fork_gen = UuidGenerator::new(Uuid::parse_str(NS_FORK).unwrap());
        model.call(&format!("NEW {price} {mode}"));
        let mut dead = false;
        for (i, op) in parts[3..].iter().enumerate() {
            out::line(&format!("C {case} {i} {op}"));
            if dead {
                out::line("I skipped");
                out::line("M skipped");
                continue;
            }
            let t: Vec<&str> = op.split(' ').collect();
            let wh = format!("{case} {i}");
            let (impl_res, model_cmd): (String, Option<String>) = match t[0] {
                "ADD" => {
                    let o = order_of_str(t[1]).unwrap();
                    let r = guarded(&wh, 5000, || {
                        let ret = lvl.add_order(o);
                        if keep_handles {
                            kept.borrow_mut().push(ret.clone());
                            if kept.borrow().len() % 5 == 0 {
                                kept.borrow_mut().extend(lvl.snapshot().orders);
                            }
                        }
                        if let Some(f) = &fork {
                            f.add_order(o);
                        }
                        let mut s = format!("ret={} {}", str_of_order(&ret), state_str(&lvl));
                        if let Some(f) = &fork {
                            s.push_str(&format!(" || ret={} {}", str_of_order(&o), state_str(f)));
                        }
                        s
                    });
                    (r.unwrap_or_else(|_| "panic".into()), Some(format!("ADD {}", t[1])))
                }
                "MATCH" => {
                    let qty: u64 = t[1].parse().unwrap();
                    let taker = oid_of_str(t[2]).unwrap();
                    let r = guarded(&wh, 3000, || {
                        let res = lvl.match_order(qty, taker, &generator);
                        let mut s = format!("{} {}", result_str(&res), state_str(&lvl));
                        if let Some(f) = &fork {
                            let r2 = f.match_order(qty, taker, &fork_gen);
                            s.push_str(&format!(" || {} {}", result_str(&r2), state_str(f)));
                        }
                        s
                    });
                    (r.unwrap_or_else(|_| "panic".into()), Some(format!("MATCH {} {}", t[1], t[2])))
                }
                "UPD" => {
                    let u = update_of_str(t[1]).unwrap();
                    let r = guarded(&wh, 5000, || {
                        let one = |l: &PriceLevel| match l.update_order(u) {
                            Ok(o) => format!("out=ok:{} {}", str_of_oorder(&o.map(|a| *a)), state_str(l)),
                            Err(_) => format!("out=err {}", state_str(l)),
                        };
                        let mut s = one(&lvl);
                        if let Some(f) = &fork {
                            s.push_str(" || ");
                            s.push_str(&one(f));
                        }
                        s
                    });
                    (r.unwrap_or_else(|_| "panic".into()), Some(format!("UPD {}", t[1])))
                }
                "SNAP" => {
                    let r = guarded(&wh, 5000, || {
                        let s = lvl.snapshot();
                        format!(
                            "price={} cv={} ch={} cc={} vec={} total={}",
                            s.price,
                            s.visible_quantity,
                            s.hidden_quantity,
                            s.order_count,
                            list_str(&s.orders, |o| str_of_order(o)),
                            lvl.total_quantity()
                        )
                    });
                    (r.unwrap_or_else(|_| "panic".into()), Some("SNAP".into()))
                }
                "READ" => {
                    // read-only calls; nothing to compare but they must not change later results
                    let r = guarded(&wh, 5000, || {
                        let n = match t[1] {
                            "list" => lvl.iter_orders().len(),
                            "snap" => lvl.snapshot().orders.len(),
                            "display" => lvl.to_string().len(),
                            "json" => serde_json::to_string(&lvl).map(|s| s.len()).unwrap_or(0),
                            "pkg" => lvl.snapshot_to_json().map(|s| s.len()).unwrap_or(0),
                            "stats" => lvl.stats().to_string().len(),
                            _ => 0,
                        };
                        format!("read={} n={}", t[1], if n > 0 { 1 } else { 0 })
                    });
                    (r.unwrap_or_else(|_| "panic".into()), None)
                }
                "REBUILD" | "FORK" => {
                    let via = t[1];
                    let listing = list_str(&lvl.iter_orders(), |o| str_of_order(o));
                    let r = guarded(&wh, 5000, || match rebuild(via, &lvl) {
                        Ok(n) => {
                            let s = format!("built=ok {}", state_str(&n));
                            (s, Some(n))
                        }
                        Err(e) => (format!("built=err:{}", e.replace(' ', "_")), None),
                    });
                    let cmd = format!("{} {} {}", t[0], via_family(via), listing);
                    match r {
                        Ok((s, Some(n))) => {
                            if t[0] == "REBUILD" {
                                lvl = n;
                            } else {
                                fork = Some(n);
                            }
                            (s, Some(cmd))
                        }
                        Ok((s, None)) => (s, Some(cmd)),
                        Err(_) => ("panic".into(), Some(cmd)),
                    }
                }
                "RESYNC" => ("resync".to_string(), Some("RESYNC".to_string())),
                "GEN" => {
                    // a generator that has already issued n ids (built through its Deserialize impl)
                    let n: u64 = t[1].parse().unwrap();
                    match serde_json::from_str::<UuidGenerator>(&format!("{{\"namespace\":\"{NS_MAIN}\",\"counter\":{n}}}")) {
                        Ok(g) => { generator = g; ("gen".to_string(), Some(format!("GEN {n}"))) }
                        Err(_) => ("panic".to_string(), Some(format!("GEN {n}"))),
                    }
                }
                "ADDTX" => {
                    // MatchResult built incrementally: new(taker, initial) then add_transaction for each quantity
                    let init: u64 = t[1].parse().unwrap();
                    let qs: Vec<u64> = t[2][1..t[2].len() - 1].split(',').filter(|x| !x.is_empty()).map(|x| x.parse().unwrap()).collect();
                    let r = guarded(&wh, 5000, || {
                        let taker = oid_of_str("u424242").unwrap();
                        let mut res = MatchResult::new(taker, init);
                        let mut out = Vec::new();
                        for q in &qs {
                            res.add_transaction(pricelevel::Transaction::new(
                                Uuid::nil(), taker, oid_of_str("u1").unwrap(), 1, *q, pricelevel::Side::Buy));
                            out.push(format!("{}/{}", res.remaining_quantity, if res.is_complete { 1 } else { 0 }));
                        }
                        format!("steps=[{}] rem={} complete={} exec={} n={}", out.join(","), res.remaining_quantity,
                                if res.is_complete { 1 } else { 0 }, res.executed_quantity(), res.transactions.as_vec().len())
                    });
                    (r.unwrap_or_else(|_| "panic".into()), Some(format!("ADDTX {} {}", t[1], t[2])))
                }
                "EXT" => {
                    // a level built from EXTERNAL data whose aggregate fields may lie
                    let (via, cv, ch, cc) = (t[1], t[2], t[3], t[4]);
                    let orders: Vec<crate::enc::Order> = {
                        let b = &t[5][1..t[5].len() - 1];
                        if b.is_empty() { vec![] } else { b.split(',').map(|x| order_of_str(x).unwrap()).collect() }
                    };
                    let price = lvl.price();
                    let listed = std::cell::RefCell::new(t[5].to_string());
                    let r = guarded(&wh, 5000, || -> Result<PriceLevel, String> {
                        let snap = || pricelevel::PriceLevelSnapshot {
                            price,
                            visible_quantity: cv.parse().unwrap(),
                            hidden_quantity: ch.parse().unwrap(),
                            order_count: cc.parse().unwrap(),
                            orders: orders.iter().map(|o| std::sync::Arc::new(*o)).collect(),
                        };
                        match via {
                            "snap" => PriceLevel::from_snapshot(snap()).map_err(|e| e.to_string()),
                            "ref" => Ok(PriceLevel::from(&snap())),
                            "data" => {
                                let d = pricelevel::PriceLevelData {
                                    price,
                                    visible_quantity: cv.parse().unwrap(),
                                    hidden_quantity: ch.parse().unwrap(),
                                    order_count: cc.parse().unwrap(),
                                    orders: orders.clone(),
                                };
                                let j = serde_json::to_string(&d).map_err(|e| e.to_string())?;
                                serde_json::from_str::<PriceLevel>(&j).map_err(|e| e.to_string())
                            }
                            "pkg" | "pjson" => {
                                // a checksummed package whose aggregate fields lie, with a matching checksum
                                use sha2::{Digest, Sha256};
                                let tmp = PriceLevel::new(price);
                                for o in &orders {
                                    tmp.add_order(*o);
                                }
                                let mut pkg = tmp.snapshot_package().map_err(|e| e.to_string())?;
                                pkg.snapshot.visible_quantity = cv.parse().unwrap();
                                pkg.snapshot.hidden_quantity = ch.parse().unwrap();
                                pkg.snapshot.order_count = cc.parse().unwrap();
                                // the package lists the orders by timestamp: that order is what gets restored
                                *listed.borrow_mut() = list_str(&pkg.snapshot.orders, |o| str_of_order(o));
                                let payload = serde_json::to_vec(&pkg.snapshot).map_err(|e| e.to_string())?;
                                pkg.checksum = format!("{:x}", Sha256::digest(&payload));
                                if via == "pkg" {
                                    PriceLevel::from_snapshot_package(pkg).map_err(|e| e.to_string())
                                } else {
                                    let j = pkg.to_json().map_err(|e| e.to_string())?;
                                    PriceLevel::from_snapshot_json(&j).map_err(|e| e.to_string())
                                }
                            }
                            "text" => {
                                let os: Vec<String> = orders.iter().map(|o| o.to_string()).collect();
                                let text = format!(
                                    "PriceLevel:price={price};visible_quantity={cv};hidden_quantity={ch};order_count={cc};orders=[{}]",
                                    os.join(",")
                                );
                                PriceLevel::from_str(&text).map_err(|e| e.to_string())
                            }
                            _ => Err(format!("bad via {via}")),
                        }
                    });
                    let cmd = format!("EXT {} {cv} {ch} {cc} {}", via_family(via), listed.borrow());
                    match r {
                        Ok(Ok(n)) => {
                            let s = format!("built=ok {}", state_str(&n));
                            lvl = n;
                            (s, Some(cmd))
                        }
                        Ok(Err(e)) => (format!("built=err:{}", e.replace(' ', "_")), Some(cmd)),
                        Err(_) => ("panic".into(), Some(cmd)),
                    }
                }
                _ => (format!("error bad op {op}"), None),
            };
            if impl_res == "panic" {
                dead = true;
            }
            out::line(&format!("I {impl_res}"));
            match model_cmd {
                Some(c) => {
                    let m = model.call(&c);
                    out::line(&format!("M {m}"));
                }
                None => out::line("M -"),
            }
        }
        let e = model.call("IFACE");
        out::line(&format!("E {case} {e}"));
        out::flush();
    }
}
