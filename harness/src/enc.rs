//! Compact token encoding shared with the model driver (modelrun/driver.ml).
//! Independent of the library's own Display/FromStr, which are under test.

use pricelevel::{OrderId, OrderType, OrderUpdate, PegReferenceType, Side, TimeInForce};
use ulid::Ulid;
use uuid::Uuid;

pub type Order = OrderType<()>;

pub fn oid_of_str(s: &str) -> Result<OrderId, String> {
    if s.len() < 2 {
        return Err(format!("bad oid {s}"));
    }
    let n: u128 = s[1..].parse().map_err(|_| format!("bad oid {s}"))?;
    match &s[..1] {
        "u" => Ok(OrderId::Uuid(Uuid::from_u128(n))),
        "l" => Ok(OrderId::Ulid(Ulid(n))),
        _ => Err(format!("bad oid {s}")),
    }
}

pub fn str_of_oid(id: &OrderId) -> String {
    match id {
        OrderId::Uuid(u) => format!("u{}", u.as_u128()),
        OrderId::Ulid(l) => format!("l{}", l.0),
    }
}

pub fn side_of_str(s: &str) -> Result<Side, String> {
    match s {
        "B" => Ok(Side::Buy),
        "S" => Ok(Side::Sell),
        _ => Err(format!("bad side {s}")),
    }
}
pub fn str_of_side(s: Side) -> &'static str {
    match s {
        Side::Buy => "B",
        Side::Sell => "S",
    }
}

pub fn tif_of_str(s: &str) -> Result<TimeInForce, String> {
    match s {
        "GTC" => Ok(TimeInForce::Gtc),
        "IOC" => Ok(TimeInForce::Ioc),
        "FOK" => Ok(TimeInForce::Fok),
        "DAY" => Ok(TimeInForce::Day),
        _ if s.starts_with("GTD") => s[3..]
            .parse::<u64>()
            .map(TimeInForce::Gtd)
            .map_err(|_| format!("bad tif {s}")),
        _ => Err(format!("bad tif {s}")),
    }
}
pub fn str_of_tif(t: TimeInForce) -> String {
    match t {
        TimeInForce::Gtc => "GTC".into(),
        TimeInForce::Ioc => "IOC".into(),
        TimeInForce::Fok => "FOK".into(),
        TimeInForce::Day => "DAY".into(),
        TimeInForce::Gtd(n) => format!("GTD{n}"),
    }
}

pub fn peg_of_str(s: &str) -> Result<PegReferenceType, String> {
    match s {
        "BB" => Ok(PegReferenceType::BestBid),
        "BA" => Ok(PegReferenceType::BestAsk),
        "MP" => Ok(PegReferenceType::MidPrice),
        "LT" => Ok(PegReferenceType::LastTrade),
        _ => Err(format!("bad peg {s}")),
    }
}
pub fn str_of_peg(p: PegReferenceType) -> &'static str {
    match p {
        PegReferenceType::BestBid => "BB",
        PegReferenceType::BestAsk => "BA",
        PegReferenceType::MidPrice => "MP",
        PegReferenceType::LastTrade => "LT",
    }
}

fn pu(s: &str) -> Result<u64, String> {
    s.parse::<u64>().map_err(|_| format!("bad u64 {s}"))
}

pub fn order_of_str(s: &str) -> Result<Order, String> {
    let p: Vec<&str> = s.split(':').collect();
    if p.len() < 7 {
        return Err(format!("bad order {s}"));
    }
    let id = oid_of_str(p[1])?;
    let price = pu(p[2])?;
    let side = side_of_str(p[3])?;
    let timestamp = pu(p[4])?;
    let time_in_force = tif_of_str(p[5])?;
    let rest = &p[6..];
    match (p[0], rest.len()) {
        ("S", 1) => Ok(OrderType::Standard {
            id,
            price,
            quantity: pu(rest[0])?,
            side,
            timestamp,
            time_in_force,
            extra_fields: (),
        }),
        ("I", 2) => Ok(OrderType::IcebergOrder {
            id,
            price,
            visible_quantity: pu(rest[0])?,
            hidden_quantity: pu(rest[1])?,
            side,
            timestamp,
            time_in_force,
            extra_fields: (),
        }),
        ("P", 1) => Ok(OrderType::PostOnly {
            id,
            price,
            quantity: pu(rest[0])?,
            side,
            timestamp,
            time_in_force,
            extra_fields: (),
        }),
        ("T", 3) => Ok(OrderType::TrailingStop {
            id,
            price,
            quantity: pu(rest[0])?,
            side,
            timestamp,
            time_in_force,
            trail_amount: pu(rest[1])?,
            last_reference_price: pu(rest[2])?,
            extra_fields: (),
        }),
        ("G", 3) => Ok(OrderType::PeggedOrder {
            id,
            price,
            quantity: pu(rest[0])?,
            side,
            timestamp,
            time_in_force,
            reference_price_offset: rest[1].parse::<i64>().map_err(|_| format!("bad i64 {}", rest[1]))?,
            reference_price_type: peg_of_str(rest[2])?,
            extra_fields: (),
        }),
        ("M", 1) => Ok(OrderType::MarketToLimit {
            id,
            price,
            quantity: pu(rest[0])?,
            side,
            timestamp,
            time_in_force,
            extra_fields: (),
        }),
        ("R", 5) => Ok(OrderType::ReserveOrder {
            id,
            price,
            visible_quantity: pu(rest[0])?,
            hidden_quantity: pu(rest[1])?,
            side,
            timestamp,
            time_in_force,
            replenish_threshold: pu(rest[2])?,
            replenish_amount: if rest[3] == "-" { None } else { Some(pu(rest[3])?) },
            auto_replenish: rest[4] == "1",
            extra_fields: (),
        }),
        _ => Err(format!("bad order {s}")),
    }
}

pub fn str_of_order(o: &Order) -> String {
    let hd = |k: &str, id: &OrderId, price: u64, side: Side, ts: u64, tif: TimeInForce| {
        format!(
            "{k}:{}:{price}:{}:{ts}:{}",
            str_of_oid(id),
            str_of_side(side),
            str_of_tif(tif)
        )
    };
    match o {
        OrderType::Standard { id, price, quantity, side, timestamp, time_in_force, .. } => {
            format!("{}:{quantity}", hd("S", id, *price, *side, *timestamp, *time_in_force))
        }
        OrderType::IcebergOrder {
            id, price, visible_quantity, hidden_quantity, side, timestamp, time_in_force, ..
        } => format!(
            "{}:{visible_quantity}:{hidden_quantity}",
            hd("I", id, *price, *side, *timestamp, *time_in_force)
        ),
        OrderType::PostOnly { id, price, quantity, side, timestamp, time_in_force, .. } => {
            format!("{}:{quantity}", hd("P", id, *price, *side, *timestamp, *time_in_force))
        }
        OrderType::TrailingStop {
            id, price, quantity, side, timestamp, time_in_force, trail_amount, last_reference_price, ..
        } => format!(
            "{}:{quantity}:{trail_amount}:{last_reference_price}",
            hd("T", id, *price, *side, *timestamp, *time_in_force)
        ),
        OrderType::PeggedOrder {
            id, price, quantity, side, timestamp, time_in_force, reference_price_offset,
            reference_price_type, ..
        } => format!(
            "{}:{quantity}:{reference_price_offset}:{}",
            hd("G", id, *price, *side, *timestamp, *time_in_force),
            str_of_peg(*reference_price_type)
        ),
        OrderType::MarketToLimit { id, price, quantity, side, timestamp, time_in_force, .. } => {
            format!("{}:{quantity}", hd("M", id, *price, *side, *timestamp, *time_in_force))
        }
        OrderType::ReserveOrder {
            id, price, visible_quantity, hidden_quantity, side, timestamp, time_in_force,
            replenish_threshold, replenish_amount, auto_replenish, ..
        } => format!(
            "{}:{visible_quantity}:{hidden_quantity}:{replenish_threshold}:{}:{}",
            hd("R", id, *price, *side, *timestamp, *time_in_force),
            replenish_amount.map_or("-".to_string(), |a| a.to_string()),
            if *auto_replenish { 1 } else { 0 }
        ),
    }
}

pub fn str_of_oorder(o: &Option<Order>) -> String {
    match o {
        Some(o) => str_of_order(o),
        None => "-".into(),
    }
}

pub fn str_of_mres(r: &(u64, Option<Order>, u64, u64)) -> String {
    format!("{}/{}/{}/{}", r.0, str_of_oorder(&r.1), r.2, r.3)
}

pub fn update_of_str(s: &str) -> Result<OrderUpdate, String> {
    let p: Vec<&str> = s.split(':').collect();
    match (p[0], p.len()) {
        ("UP", 3) => Ok(OrderUpdate::UpdatePrice { order_id: oid_of_str(p[1])?, new_price: pu(p[2])? }),
        ("UQ", 3) => Ok(OrderUpdate::UpdateQuantity { order_id: oid_of_str(p[1])?, new_quantity: pu(p[2])? }),
        ("UPQ", 4) => Ok(OrderUpdate::UpdatePriceAndQuantity {
            order_id: oid_of_str(p[1])?,
            new_price: pu(p[2])?,
            new_quantity: pu(p[3])?,
        }),
        ("C", 2) => Ok(OrderUpdate::Cancel { order_id: oid_of_str(p[1])? }),
        ("RP", 5) => Ok(OrderUpdate::Replace {
            order_id: oid_of_str(p[1])?,
            price: pu(p[2])?,
            quantity: pu(p[3])?,
            side: side_of_str(p[4])?,
        }),
        _ => Err(format!("bad update {s}")),
    }
}

pub fn list_str<T>(v: &[T], f: impl Fn(&T) -> String) -> String {
    let parts: Vec<String> = v.iter().map(f).collect();
    format!("[{}]", parts.join(","))
}
