//! Mode `helpers`: the crate's small pure helper API, one call per input line
//! `H <fn> <args…>` (or `HR …`, same call: the letter only tells the model which build profile
//! to predict), answered on one line in the compact form that modelrun/driver.ml prints for the
//! same line (Model/Helpers.v).  A call that panics is answered `panic` (for `stats`:
//! `panic@<index of the panicking call> <counters left behind>`).

use crate::enc::*;
use crate::out;
use pricelevel::{MatchResult, OrderId, PriceLevel, Side, TimeInForce, Transaction};
use std::io::BufRead;
use std::panic::{catch_unwind, AssertUnwindSafe};
use uuid::Uuid;

fn pu(s: &str) -> Result<u64, String> {
    s.parse::<u64>().map_err(|_| format!("bad u64 {s}"))
}

fn b01(b: bool) -> &'static str {
    if b {
        "1"
    } else {
        "0"
    }
}

fn parse_list<T>(s: &str, f: impl Fn(&str) -> Result<T, String>) -> Result<Vec<T>, String> {
    if s.len() < 2 || !s.starts_with('[') || !s.ends_with(']') {
        return Err(format!("bad list {s}"));
    }
    let body = &s[1..s.len() - 1];
    if body.is_empty() {
        return Ok(vec![]);
    }
    body.split(',').map(f).collect()
}

/// `<idx>/<taker>/<maker>/<price>/<qty>/<side>`; the index becomes the transaction id, timestamp 0
fn tx_of_str(s: &str) -> Result<Transaction, String> {
    let p: Vec<&str> = s.split('/').collect();
    if p.len() != 6 {
        return Err(format!("bad tx {s}"));
    }
    let idx: u128 = p[0].parse().map_err(|_| format!("bad tx index {s}"))?;
    Ok(Transaction {
        transaction_id: Uuid::from_u128(idx),
        taker_order_id: oid_of_str(p[1])?,
        maker_order_id: oid_of_str(p[2])?,
        price: pu(p[3])?,
        quantity: pu(p[4])?,
        taker_side: side_of_str(p[5])?,
        timestamp: 0,
    })
}

fn str_of_tx(t: &Transaction) -> String {
    format!(
        "{}/{}/{}/{}/{}/{}",
        t.transaction_id.as_u128(),
        str_of_oid(&t.taker_order_id),
        str_of_oid(&t.maker_order_id),
        t.price,
        t.quantity,
        str_of_side(t.taker_side)
    )
}

fn str_of_ordering(o: std::cmp::Ordering) -> &'static str {
    match o {
        std::cmp::Ordering::Less => "L",
        std::cmp::Ordering::Equal => "E",
        std::cmp::Ordering::Greater => "G",
    }
}

/// a MatchResult holding exactly these transactions (through `From<Vec<Transaction>>`)
fn result_with(txs: Vec<Transaction>) -> MatchResult {
    let mut r = MatchResult::new(OrderId::nil(), 0);
    r.transactions = txs.into();
    r
}

fn level_of(p: &str, os: &str) -> Result<PriceLevel, String> {
    let l = PriceLevel::new(pu(p)?);
    for o in parse_list(os, order_of_str)? {
        l.add_order(o);
    }
    Ok(l)
}

fn u64_or_panic(f: impl FnOnce() -> u64) -> String {
    match catch_unwind(AssertUnwindSafe(f)) {
        Ok(v) => v.to_string(),
        Err(_) => "panic".to_string(),
    }
}

fn call(f: &str, a: &[&str]) -> Result<String, String> {
    Ok(match (f, a.len()) {
        ("opp", 1) => str_of_side(side_of_str(a[0])?.opposite()).to_string(),
        ("oid_u64", 1) => str_of_oid(&OrderId::from_u64(pu(a[0])?)),
        ("oid_nil", 0) => str_of_oid(&OrderId::nil()),
        ("oid_default", 0) => match OrderId::default() {
            OrderId::Ulid(_) => "ulid".to_string(),
            OrderId::Uuid(_) => "uuid".to_string(),
        },
        ("tif_imm", 1) => b01(tif_of_str(a[0])?.is_immediate()).to_string(),
        ("tif_hasexp", 1) => b01(tif_of_str(a[0])?.has_expiry()).to_string(),
        ("tif_expired", 3) => {
            let t: TimeInForce = tif_of_str(a[0])?;
            let close = if a[2] == "-" { None } else { Some(pu(a[2])?) };
            b01(t.is_expired(pu(a[1])?, close)).to_string()
        }
        ("acc", 1) => {
            let o = order_of_str(a[0])?;
            format!(
                "id={} price={} side={} ts={} tif={} vis={} hid={} imm={} fok={} po={}",
                str_of_oid(&o.id()),
                o.price(),
                str_of_side(o.side()),
                o.timestamp(),
                str_of_tif(o.time_in_force()),
                o.visible_quantity(),
                o.hidden_quantity(),
                b01(o.is_immediate()),
                b01(o.is_fill_or_kill()),
                b01(o.is_post_only())
            )
        }
        ("wrq", 2) => str_of_order(&order_of_str(a[0])?.with_reduced_quantity(pu(a[1])?)),
        ("refresh", 2) => {
            let (o, used) = order_of_str(a[0])?.refresh_iceberg(pu(a[1])?);
            format!("{}/{}", str_of_order(&o), used)
        }
        ("tx_maker", 1) => {
            let s: Side = tx_of_str(a[0])?.maker_side();
            str_of_side(s).to_string()
        }
        ("tx_value", 1) => {
            let t = tx_of_str(a[0])?;
            u64_or_panic(|| t.total_value())
        }
        ("mr_execq", 1) => {
            let r = result_with(parse_list(a[0], tx_of_str)?);
            u64_or_panic(|| r.executed_quantity())
        }
        ("mr_execv", 1) => {
            let r = result_with(parse_list(a[0], tx_of_str)?);
            u64_or_panic(|| r.executed_value())
        }
        ("mr_filled", 1) => {
            let mut r = result_with(vec![]);
            for k in parse_list(a[0], oid_of_str)? {
                r.add_filled_order_id(k);
            }
            list_str(&r.filled_order_ids, |k| str_of_oid(k))
        }
        ("txl", 1) => {
            // From<Vec<Transaction>>, len, is_empty, into_vec (the list type itself is not exported:
            // it is reached through the public field MatchResult::transactions)
            let r = result_with(parse_list(a[0], tx_of_str)?);
            let len = r.transactions.len();
            let empty = r.transactions.is_empty();
            let back: Vec<Transaction> = r.transactions.into_vec();
            format!("len={} empty={} vec={}", len, b01(empty), list_str(&back, str_of_tx))
        }
        ("lvl_cmp", 4) => {
            let x = level_of(a[0], a[1])?;
            let y = level_of(a[2], a[3])?;
            format!(
                "eq={} ne={} cmp={} pcmp={} lt={} le={} gt={} ge={}",
                b01(x == y),
                b01(x != y),
                str_of_ordering(x.cmp(&y)),
                x.partial_cmp(&y).map_or("-", str_of_ordering),
                b01(x < y),
                b01(x <= y),
                b01(x > y),
                b01(x >= y)
            )
        }
        ("lvl_total", 2) => {
            let l = level_of(a[0], a[1])?;
            format!(
                "price={} vis={} hid={} cnt={} total={}",
                l.price(),
                l.visible_quantity(),
                l.hidden_quantity(),
                l.order_count(),
                u64_or_panic(|| l.total_quantity())
            )
        }
        ("stats", 1) => {
            // a fresh level's statistics object (the type is not exported either)
            let l = PriceLevel::new(1);
            let st = l.stats();
            let mut panicked: Option<usize> = None;
            for (i, op) in parse_list(a[0], |s| Ok(s.to_string()))?.iter().enumerate() {
                let p: Vec<&str> = op.split(':').collect();
                let r = match (p[0], p.len()) {
                    ("a", 1) => catch_unwind(AssertUnwindSafe(|| st.record_order_added())),
                    ("r", 1) => catch_unwind(AssertUnwindSafe(|| st.record_order_removed())),
                    ("z", 1) => catch_unwind(AssertUnwindSafe(|| st.reset())),
                    ("e", 3) => {
                        let (q, pr) = (pu(p[1])?, pu(p[2])?);
                        // order timestamp 0: the waiting-time branch is not entered
                        catch_unwind(AssertUnwindSafe(|| st.record_execution(q, pr, 0)))
                    }
                    _ => return Err(format!("bad stats op {op}")),
                };
                if r.is_err() {
                    panicked = Some(i);
                    break;
                }
            }
            let five = format!(
                "{}/{}/{}/{}/{}",
                st.orders_added(),
                st.orders_removed(),
                st.orders_executed(),
                st.quantity_executed(),
                st.value_executed()
            );
            match panicked {
                Some(i) => format!("panic@{i} {five}"),
                None => five,
            }
        }
        _ => return Err(format!("unknown helper call: {f} {}", a.join(" "))),
    })
}

pub fn run() {
    let stdin = std::io::stdin();
    for line in stdin.lock().lines() {
        let line = line.unwrap();
        let p: Vec<&str> = line.split(' ').collect();
        if p.len() < 2 || (p[0] != "H" && p[0] != "HR") {
            out::line(&format!("error bad line {line}"));
            continue;
        }
        let f = p[1].to_string();
        let args: Vec<String> = p[2..].iter().map(|s| s.to_string()).collect();
        let r = catch_unwind(AssertUnwindSafe(|| {
            let a: Vec<&str> = args.iter().map(|s| s.as_str()).collect();
            call(&f, &a)
        }));
        match r {
            Ok(Ok(s)) => out::line(&s),
            Ok(Err(e)) => out::line(&format!("error {e}")),
            Err(_) => out::line("panic"),
        }
    }
}
