//! Buffered stdout shared with the watchdog thread.
use std::io::{BufWriter, Stdout, Write};
use std::sync::atomic::{AtomicU64, Ordering};
use std::sync::{Mutex, OnceLock};
use std::time::{SystemTime, UNIX_EPOCH};

static OUT: OnceLock<Mutex<BufWriter<Stdout>>> = OnceLock::new();

fn out() -> &'static Mutex<BufWriter<Stdout>> {
    OUT.get_or_init(|| Mutex::new(BufWriter::with_capacity(1 << 16, std::io::stdout())))
}

pub fn line(s: &str) {
    let mut w = out().lock().unwrap();
    let _ = w.write_all(s.as_bytes());
    let _ = w.write_all(b"\n");
}

pub fn flush() {
    let _ = out().lock().unwrap().flush();
}

fn now_ms() -> u64 {
    SystemTime::now().duration_since(UNIX_EPOCH).unwrap().as_millis() as u64
}

/// deadline (ms since epoch) of the implementation call in flight; 0 = none
static DEADLINE: AtomicU64 = AtomicU64::new(0);
static WHERE: Mutex<String> = Mutex::new(String::new());

pub fn arm(what: &str, budget_ms: u64) {
    *WHERE.lock().unwrap() = what.to_string();
    DEADLINE.store(now_ms() + budget_ms, Ordering::SeqCst);
}
pub fn disarm() {
    DEADLINE.store(0, Ordering::SeqCst);
}

/// A call into the implementation that does not return within its budget ends the
/// process with exit code 3 after reporting where it hung.
pub fn start_watchdog() {
    std::thread::spawn(|| loop {
        std::thread::sleep(std::time::Duration::from_millis(50));
        let d = DEADLINE.load(Ordering::SeqCst);
        if d != 0 && now_ms() > d {
            let w = WHERE.lock().unwrap().clone();
            line(&format!("I timeout"));
            line(&format!("T {w}"));
            flush();
            std::process::exit(3);
        }
    });
}
