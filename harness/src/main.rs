//! Correspondence harness: runs the implementation built from /repo's working
//! tree and the extracted Coq model (modelrun co-process) on the same cases and
//! prints what each of them did.  The python driver (`/verif/check`) generates
//! the cases and compares / judges the output.
//!
//! Output lines:  `C <case> <opidx> <op>` / `I <impl result>` / `M <model result>`
//!                `E <case> <end-of-case info>` / `T <case> <opidx>` (watchdog fired)

mod conc;
mod enc;
mod helpers;
mod json;
mod level;
mod out;
mod queue;
mod text;

use enc::*;
use std::io::BufRead;

fn cmd_ma() {
    // lines: "<order> <inc>"  ->  "<mres>" | "panic"
    let stdin = std::io::stdin();
    for line in stdin.lock().lines() {
        let line = line.unwrap();
        let p: Vec<&str> = line.split(' ').collect();
        if p.len() != 2 {
            out::line(&format!("error bad line {line}"));
            continue;
        }
        let o = match order_of_str(p[0]) {
            Ok(o) => o,
            Err(e) => {
                out::line(&format!("error {e}"));
                continue;
            }
        };
        let inc: u64 = p[1].parse().unwrap();
        let r = std::panic::catch_unwind(|| o.match_against(inc));
        match r {
            Ok(r) => out::line(&str_of_mres(&r)),
            Err(_) => out::line("panic"),
        }
    }
}

fn main() {
    std::panic::set_hook(Box::new(|_| {}));
    let args: Vec<String> = std::env::args().collect();
    if args.len() < 2 {
        eprintln!("usage: harness ma | level <modelrun>");
        std::process::exit(2);
    }
    match args[1].as_str() {
        "ma" => cmd_ma(),
        "level" => level::run(&args[2]),
        "conc" => conc::run(&args[2]),
        "queue" => queue::run(&args[2]),
        "qconc" => conc::run_queue(&args[2]),
        "stress" => {
            out::start_watchdog();
            conc::stress()
        }
        "json" => json::run(),
        "text" => text::run(),
        "helpers" => helpers::run(),
        other => {
            eprintln!("unknown subcommand {other}");
            std::process::exit(2);
        }
    }
    out::flush();
}
