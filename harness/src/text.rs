//! `harness text` — the implementation side of the C16 / C18 correspondence:
//! reads the commands of modelrun/driver_text.ml (documented there), runs the
//! real `to_string()` / `from_str` of the library and prints the same canonical
//! answer lines (`t <hex>` / `ok <value>` / `err` / `panic`).
//!
//! Types the crate does not re-export are reached without naming them:
//! `TransactionList` is the type of `MatchResult::transactions`,
//! `PriceLevelStatistics` the target of `PriceLevel::stats()`; generic helper
//! functions take a reference of the type to fix the type parameter.
//!
//! Additional, implementation-only commands (C18, JSON entry points):
//!   JSONPRINT <type> <value> -> t <hex of serde_json::to_string>
//!   JSON <type> <hex>        -> ok | err | panic      (serde_json::from_str::<T>)
//!
//! A call that does not return within its budget ends the process (exit code 3)
//! after the lines `I timeout` and `T <command>`.

use crate::enc::*;
use crate::out;
use pricelevel::{
    MatchResult, OrderId, OrderQueue, OrderUpdate, PegReferenceType, PriceLevel,
    PriceLevelData, PriceLevelSnapshot, Side, TimeInForce, Transaction,
};
use serde::de::DeserializeOwned;
use std::fmt::Display;
use std::io::BufRead;
use std::panic::{catch_unwind, AssertUnwindSafe};
use std::str::FromStr;
use std::sync::atomic::Ordering;
use std::sync::Arc;
use uuid::Uuid;

const BUDGET_MS: u64 = 5_000;

// ---------------------------------------------------------------- bytes

fn hex_encode(b: &[u8]) -> String {
    let mut s = String::with_capacity(2 * b.len());
    for x in b {
        s.push_str(&format!("{x:02x}"));
    }
    s
}

fn hex_decode(h: &str) -> Result<Vec<u8>, String> {
    if h.len() % 2 != 0 || !h.is_ascii() {
        return Err("odd hex".into());
    }
    (0..h.len() / 2)
        .map(|i| u8::from_str_radix(&h[2 * i..2 * i + 2], 16).map_err(|_| "bad hex".to_string()))
        .collect()
}

// ---------------------------------------------------------------- compact values (extends enc.rs)

fn pu(s: &str) -> Result<u64, String> {
    s.parse::<u64>().map_err(|_| format!("bad u64 {s}"))
}

fn str_of_update(u: &OrderUpdate) -> String {
    match u {
        OrderUpdate::UpdatePrice { order_id, new_price } => format!("UP:{}:{new_price}", str_of_oid(order_id)),
        OrderUpdate::UpdateQuantity { order_id, new_quantity } => {
            format!("UQ:{}:{new_quantity}", str_of_oid(order_id))
        }
        OrderUpdate::UpdatePriceAndQuantity { order_id, new_price, new_quantity } => {
            format!("UPQ:{}:{new_price}:{new_quantity}", str_of_oid(order_id))
        }
        OrderUpdate::Cancel { order_id } => format!("C:{}", str_of_oid(order_id)),
        OrderUpdate::Replace { order_id, price, quantity, side } => {
            format!("RP:{}:{price}:{quantity}:{}", str_of_oid(order_id), str_of_side(*side))
        }
    }
}

fn parse_list<T>(s: &str, f: impl Fn(&str) -> Result<T, String>) -> Result<Vec<T>, String> {
    if s.len() < 2 || !s.starts_with('[') || !s.ends_with(']') {
        return Err(format!("bad list {s}"));
    }
    let body = &s[1..s.len() - 1];
    if body.is_empty() {
        return Ok(Vec::new());
    }
    body.split(',').map(f).collect()
}

fn txn_of_str(s: &str) -> Result<Transaction, String> {
    let p: Vec<&str> = s.split('/').collect();
    if p.len() != 7 {
        return Err(format!("bad txn {s}"));
    }
    Ok(Transaction {
        transaction_id: Uuid::from_u128(p[0].parse::<u128>().map_err(|_| format!("bad tid {s}"))?),
        taker_order_id: oid_of_str(p[1])?,
        maker_order_id: oid_of_str(p[2])?,
        price: pu(p[3])?,
        quantity: pu(p[4])?,
        taker_side: side_of_str(p[5])?,
        timestamp: pu(p[6])?,
    })
}

fn str_of_txn(t: &Transaction) -> String {
    format!(
        "{}/{}/{}/{}/{}/{}/{}",
        t.transaction_id.as_u128(),
        str_of_oid(&t.taker_order_id),
        str_of_oid(&t.maker_order_id),
        t.price,
        t.quantity,
        str_of_side(t.taker_side),
        t.timestamp
    )
}

fn mr_of_str(s: &str) -> Result<MatchResult, String> {
    let p: Vec<&str> = s.split('|').collect();
    if p.len() != 5 {
        return Err(format!("bad mr {s}"));
    }
    let mut mr = MatchResult::new(oid_of_str(p[0])?, 0);
    mr.remaining_quantity = pu(p[1])?;
    mr.is_complete = p[2] == "1";
    for t in parse_list(p[3], txn_of_str)? {
        mr.transactions.add(t);
    }
    mr.filled_order_ids = parse_list(p[4], oid_of_str)?;
    Ok(mr)
}

fn str_of_mr(r: &MatchResult) -> String {
    format!(
        "{}|{}|{}|{}|{}",
        str_of_oid(&r.order_id),
        r.remaining_quantity,
        if r.is_complete { 1 } else { 0 },
        list_str(r.transactions.as_vec(), str_of_txn),
        list_str(&r.filled_order_ids, str_of_oid)
    )
}

fn nums(s: &str, n: usize) -> Result<Vec<u64>, String> {
    let v: Result<Vec<u64>, String> = s.split('/').map(pu).collect();
    let v = v?;
    if v.len() != n {
        return Err(format!("expected {n} numbers in {s}"));
    }
    Ok(v)
}

fn snap_of_str(s: &str) -> Result<PriceLevelSnapshot, String> {
    let v = nums(s, 4)?;
    let mut sn = PriceLevelSnapshot::new(v[0]);
    sn.visible_quantity = v[1];
    sn.hidden_quantity = v[2];
    sn.order_count = v[3] as usize;
    Ok(sn)
}

fn str_of_snap(sn: &PriceLevelSnapshot) -> String {
    format!("{}/{}/{}/{}", sn.price, sn.visible_quantity, sn.hidden_quantity, sn.order_count)
}

fn orders_of_str(s: &str) -> Result<Vec<Order>, String> {
    parse_list(s, order_of_str)
}

fn str_of_listing(v: &[Arc<Order>]) -> String {
    list_str(v, |o| str_of_order(o))
}

fn level_of_str(s: &str) -> Result<PriceLevel, String> {
    let p: Vec<&str> = s.split('|').collect();
    if p.len() != 2 {
        return Err(format!("bad level {s}"));
    }
    let lvl = PriceLevel::new(pu(p[0])?);
    for o in orders_of_str(p[1])? {
        lvl.add_order(o);
    }
    Ok(lvl)
}

fn str_of_level(l: &PriceLevel) -> String {
    format!(
        "{}|{}|{}|{}|{}",
        l.price(),
        l.visible_quantity(),
        l.hidden_quantity(),
        l.order_count(),
        str_of_listing(&l.iter_orders())
    )
}

fn queue_of_str(s: &str) -> Result<OrderQueue, String> {
    let q = OrderQueue::new();
    for o in orders_of_str(s)? {
        q.push(Arc::new(o));
    }
    Ok(q)
}

// ---------------------------------------------------------------- generic helpers

/// `from_str` of the type of `_like`, without naming it.
fn parse_like<T: FromStr>(_like: &T, s: &str) -> Result<T, T::Err> {
    s.parse::<T>()
}

fn json_like<T: DeserializeOwned>(_like: &T, s: &str) -> Result<T, serde_json::Error> {
    serde_json::from_str::<T>(s)
}

fn json_of<T: DeserializeOwned>(s: &str) -> bool {
    serde_json::from_str::<T>(s).is_ok()
}

/// Runs `f` under the watchdog, catching panics.
fn guarded<R>(what: &str, f: impl FnOnce() -> R) -> Option<R> {
    out::arm(what, BUDGET_MS);
    let r = catch_unwind(AssertUnwindSafe(f));
    out::disarm();
    r.ok()
}

fn print_answer(what: &str, f: impl FnOnce() -> String) -> String {
    match guarded(what, f) {
        Some(t) => format!("t {}", hex_encode(t.as_bytes())),
        None => "panic".into(),
    }
}

fn parse_answer<T, E>(what: &str, f: impl FnOnce() -> Result<T, E>, enc: impl FnOnce(&T) -> String) -> String {
    match guarded(what, f) {
        Some(Ok(v)) => format!("ok {}", enc(&v)),
        Some(Err(_)) => "err".into(),
        None => "panic".into(),
    }
}

fn to_text<T: Display>(v: &T) -> String {
    v.to_string()
}

// ---------------------------------------------------------------- statistics (unnameable type)

fn stats_print(what: &str, s: &str) -> Result<String, String> {
    let v = nums(s, 8)?;
    let lvl = PriceLevel::new(0);
    let st = lvl.stats();
    st.orders_added.store(v[0] as usize, Ordering::Relaxed);
    st.orders_removed.store(v[1] as usize, Ordering::Relaxed);
    st.orders_executed.store(v[2] as usize, Ordering::Relaxed);
    st.quantity_executed.store(v[3], Ordering::Relaxed);
    st.value_executed.store(v[4], Ordering::Relaxed);
    st.last_execution_time.store(v[5], Ordering::Relaxed);
    st.first_arrival_time.store(v[6], Ordering::Relaxed);
    st.sum_waiting_time.store(v[7], Ordering::Relaxed);
    Ok(print_answer(what, || to_text(&*st)))
}

fn stats_parse(what: &str, s: &str) -> String {
    let lvl = PriceLevel::new(0);
    let st = lvl.stats();
    parse_answer(
        what,
        || parse_like(&*st, s),
        |x| {
            format!(
                "{}/{}/{}/{}/{}/{}/{}/{}",
                x.orders_added.load(Ordering::Relaxed),
                x.orders_removed.load(Ordering::Relaxed),
                x.orders_executed.load(Ordering::Relaxed),
                x.quantity_executed.load(Ordering::Relaxed),
                x.value_executed.load(Ordering::Relaxed),
                x.last_execution_time.load(Ordering::Relaxed),
                x.first_arrival_time.load(Ordering::Relaxed),
                x.sum_waiting_time.load(Ordering::Relaxed)
            )
        },
    )
}

// ---------------------------------------------------------------- commands

fn do_print(what: &str, ty: &str, v: &str) -> Result<String, String> {
    Ok(match ty {
        "side" => {
            let x = side_of_str(v)?;
            print_answer(what, || to_text(&x))
        }
        "tif" => {
            let x = tif_of_str(v)?;
            print_answer(what, || to_text(&x))
        }
        "peg" => {
            let x = peg_of_str(v)?;
            print_answer(what, || to_text(&x))
        }
        "oid" => {
            let x = oid_of_str(v)?;
            print_answer(what, || to_text(&x))
        }
        "uuid" => {
            let x = Uuid::from_u128(v.parse::<u128>().map_err(|_| format!("bad uuid {v}"))?);
            print_answer(what, || to_text(&x))
        }
        "order" => {
            let x = order_of_str(v)?;
            print_answer(what, || to_text(&x))
        }
        "update" => {
            let x = update_of_str(v)?;
            print_answer(what, || to_text(&x))
        }
        "txn" => {
            let x = txn_of_str(v)?;
            print_answer(what, || to_text(&x))
        }
        "txlist" => {
            let mut mr = MatchResult::new(OrderId::nil(), 0);
            for t in parse_list(v, txn_of_str)? {
                mr.transactions.add(t);
            }
            print_answer(what, || to_text(&mr.transactions))
        }
        "mr" => {
            let x = mr_of_str(v)?;
            print_answer(what, || to_text(&x))
        }
        "stats" => stats_print(what, v)?,
        "snap" => {
            let x = snap_of_str(v)?;
            print_answer(what, || to_text(&x))
        }
        "queue" => {
            let x = queue_of_str(v)?;
            print_answer(what, || to_text(&x))
        }
        "level" => {
            let x = level_of_str(v)?;
            print_answer(what, || to_text(&x))
        }
        _ => return Err(format!("unknown type {ty}")),
    })
}

fn do_parse(what: &str, ty: &str, s: &str) -> Result<String, String> {
    Ok(match ty {
        "side" => parse_answer(what, || Side::from_str(s), |x| str_of_side(*x).to_string()),
        "tif" => parse_answer(what, || TimeInForce::from_str(s), |x| str_of_tif(*x)),
        "peg" => parse_answer(what, || PegReferenceType::from_str(s), |x| str_of_peg(*x).to_string()),
        "oid" => parse_answer(what, || OrderId::from_str(s), str_of_oid),
        "uuid" => parse_answer(what, || Uuid::from_str(s), |x| x.as_u128().to_string()),
        "order" => parse_answer(what, || Order::from_str(s), str_of_order),
        "update" => parse_answer(what, || OrderUpdate::from_str(s), str_of_update),
        "txn" => parse_answer(what, || Transaction::from_str(s), str_of_txn),
        "txlist" => {
            let mr = MatchResult::new(OrderId::nil(), 0);
            parse_answer(what, || parse_like(&mr.transactions, s), |x| list_str(x.as_vec(), str_of_txn))
        }
        "mr" => parse_answer(what, || MatchResult::from_str(s), str_of_mr),
        "stats" => stats_parse(what, s),
        "snap" => parse_answer(what, || PriceLevelSnapshot::from_str(s), str_of_snap),
        "queue" => parse_answer(what, || OrderQueue::from_str(s), |q| str_of_listing(&q.to_vec())),
        "level" => parse_answer(what, || PriceLevel::from_str(s), str_of_level),
        _ => return Err(format!("unknown type {ty}")),
    })
}

fn do_sweep(ty: &str, pre: &str, suf: &str) -> Result<String, String> {
    let mut parts: Vec<String> = Vec::new();
    for cp in 0u32..=0x10FFFF {
        let Some(c) = char::from_u32(cp) else { continue };
        let s = format!("{pre}{c}{suf}");
        let r = match ty {
            "side" => catch_unwind(|| Side::from_str(&s).ok().map(|x| str_of_side(x).to_string())),
            "tif" => catch_unwind(|| TimeInForce::from_str(&s).ok().map(str_of_tif)),
            _ => return Err(format!("cannot sweep {ty}")),
        };
        match r {
            Ok(Some(v)) => parts.push(format!("{cp}:{v}")),
            Ok(None) => {}
            Err(_) => parts.push(format!("{cp}:panic")),
        }
    }
    Ok(format!("sweep {}", parts.join(",")))
}

fn do_jsonprint(what: &str, ty: &str, v: &str) -> Result<String, String> {
    fn js<T: serde::Serialize>(what: &str, x: &T) -> String {
        print_answer(what, || serde_json::to_string(x).unwrap_or_else(|e| format!("<<serialize error {e}>>")))
    }
    Ok(match ty {
        "side" => js(what, &side_of_str(v)?),
        "tif" => js(what, &tif_of_str(v)?),
        "peg" => js(what, &peg_of_str(v)?),
        "oid" => js(what, &oid_of_str(v)?),
        "order" => js(what, &order_of_str(v)?),
        "update" => js(what, &update_of_str(v)?),
        "txn" => js(what, &txn_of_str(v)?),
        "txlist" => {
            let mut mr = MatchResult::new(OrderId::nil(), 0);
            for t in parse_list(v, txn_of_str)? {
                mr.transactions.add(t);
            }
            js(what, &mr.transactions)
        }
        "mr" => js(what, &mr_of_str(v)?),
        "stats" => {
            let n = nums(v, 8)?;
            let lvl = PriceLevel::new(0);
            let st = lvl.stats();
            st.orders_added.store(n[0] as usize, Ordering::Relaxed);
            st.orders_removed.store(n[1] as usize, Ordering::Relaxed);
            st.orders_executed.store(n[2] as usize, Ordering::Relaxed);
            st.quantity_executed.store(n[3], Ordering::Relaxed);
            st.value_executed.store(n[4], Ordering::Relaxed);
            st.last_execution_time.store(n[5], Ordering::Relaxed);
            st.first_arrival_time.store(n[6], Ordering::Relaxed);
            st.sum_waiting_time.store(n[7], Ordering::Relaxed);
            js(what, &*st)
        }
        "queue" => js(what, &queue_of_str(v)?),
        "level" => js(what, &level_of_str(v)?),
        "snap" => {
            let l = level_of_str(v)?;
            js(what, &l.snapshot())
        }
        "snappkg" => {
            let l = level_of_str(v)?;
            print_answer(what, || l.snapshot_to_json().unwrap_or_else(|e| format!("<<error {e}>>")))
        }
        _ => return Err(format!("unknown type {ty}")),
    })
}

fn do_json(what: &str, ty: &str, s: &str) -> Result<String, String> {
    let verdict = |f: &dyn Fn() -> bool| -> String {
        match guarded(what, f) {
            Some(true) => "ok".into(),
            Some(false) => "err".into(),
            None => "panic".into(),
        }
    };
    Ok(match ty {
        "side" => verdict(&|| json_of::<Side>(s)),
        "tif" => verdict(&|| json_of::<TimeInForce>(s)),
        "peg" => verdict(&|| json_of::<PegReferenceType>(s)),
        "oid" => verdict(&|| json_of::<OrderId>(s)),
        "order" => verdict(&|| json_of::<Order>(s)),
        "update" => verdict(&|| json_of::<OrderUpdate>(s)),
        "txn" => verdict(&|| json_of::<Transaction>(s)),
        "txlist" => {
            let mr = MatchResult::new(OrderId::nil(), 0);
            verdict(&|| json_like(&mr.transactions, s).is_ok())
        }
        "mr" => verdict(&|| json_of::<MatchResult>(s)),
        "stats" => {
            let lvl = PriceLevel::new(0);
            let st = lvl.stats();
            verdict(&|| json_like(&*st, s).is_ok())
        }
        "queue" => verdict(&|| json_of::<OrderQueue>(s)),
        "level" => verdict(&|| json_of::<PriceLevel>(s)),
        "data" => verdict(&|| json_of::<PriceLevelData>(s)),
        "snap" => verdict(&|| json_of::<PriceLevelSnapshot>(s)),
        "snappkg" => verdict(&|| PriceLevel::from_snapshot_json(s).is_ok()),
        _ => return Err(format!("unknown type {ty}")),
    })
}

fn handle(line: &str) -> Result<String, String> {
    let p: Vec<&str> = line.split(' ').collect();
    let text = |h: &str| -> Result<String, String> {
        String::from_utf8(hex_decode(h)?).map_err(|_| "not utf-8".to_string())
    };
    match (p[0], p.len()) {
        ("PRINT", 3) => do_print(line, p[1], p[2]),
        ("PARSE", 3) => do_parse(line, p[1], &text(p[2])?),
        ("PARSE", 2) => do_parse(line, p[1], ""),
        ("SWEEP", 4) => do_sweep(p[1], &text(p[2])?, &text(p[3])?),
        ("JSONPRINT", 3) => do_jsonprint(line, p[1], p[2]),
        ("JSON", 3) => do_json(line, p[1], &text(p[2])?),
        ("JSON", 2) => do_json(line, p[1], ""),
        ("PING", 1) => Ok("pong".into()),
        _ => Err(format!("unknown command: {line}")),
    }
}

pub fn run() {
    out::start_watchdog();
    let stdin = std::io::stdin();
    for line in stdin.lock().lines() {
        let line = line.unwrap();
        match handle(&line) {
            Ok(a) => out::line(&a),
            Err(e) => out::line(&format!("error {e}")),
        }
    }
}
