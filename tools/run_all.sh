#!/bin/bash
# runs every claimed quick check on the current tree (refreshes evidence/); prints one line per check
cd /verif
for p in $(python3 -c "import json;print(' '.join(c['property_id'] for c in json.load(open('MANIFEST.json'))['checks']))"); do
  ./check $p --tier ${1:-quick} 2>&1 | grep -E "^VIOLATION|quick:|thorough:"
done
