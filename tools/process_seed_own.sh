#!/bin/bash
# tools/process_seed_own.sh <worktree> <seed-id> <prop> : confirm a sub-agent's seed, store it, run ONLY the seed's own
# property check against it (scratch copy) -> seeded/<seed-id>/own.txt ; the full matrix is produced later by
# tools/try_scratch.py <patch> --no-tests > seeded/<seed-id>/checks.txt
WT=$1; ID=$2; P=$3
/verif/tools/confirm_seed.sh $WT $ID > /tmp/ps_$ID.log 2>&1 || { echo "$ID NOT CONFIRMED"; tail -3 /tmp/ps_$ID.log; exit 1; }
python3 /verif/tools/try_scratch.py /verif/seeded/$ID/patch.diff $P --no-tests > /verif/seeded/$ID/own.txt 2>&1
echo "$ID: $(cat /verif/seeded/$ID/own.txt | cut -c1-200)"
