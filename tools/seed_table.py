#!/usr/bin/env python3
"""Regenerates the table part of seeded/RESULTS.md from seeded/*/checks.txt and meta.json."""
import glob, json, os, re
V = os.path.dirname(os.path.dirname(os.path.abspath(__file__)))
ids = ["C%02d" % i for i in range(1, 20)]
rows = []
for d in sorted(glob.glob(os.path.join(V, "seeded", "C??*-*"))):
    name = os.path.basename(d)
    try:
        meta = json.load(open(os.path.join(d, "meta.json")))
    except Exception:
        continue
    res = {}
    p = os.path.join(d, "checks.txt")
    if os.path.exists(p):
        for l in open(p):
            m = re.match(r"\s+(C\d\d)\s+(quiet|VIOLATION|NO-INPUT)", l)
            if m:
                res[m.group(1)] = {"quiet": "–", "VIOLATION": "**V**", "NO-INPUT": "n"}[m.group(2)]
    rows.append((name, meta.get("property", "?"), str(meta.get("needs", ""))[:150].replace("|", "/").replace("\n", " "), res))
out = ["| seed | breaks | needs | " + " | ".join(i[1:] for i in ids) + " |", "|---|---|---|" + "---|" * len(ids)]
own_hit = 0
for name, prop, needs, res in rows:
    out.append("| %s | %s | %s | %s |" % (name, prop, needs, " | ".join(res.get(i, "") for i in ids)))
    if res.get(prop) == "**V**":
        own_hit += 1
print("\n".join(out))
print("\n%d of %d seeds are reported by the check of the property they were written against with a concrete replay." % (own_hit, len(rows)))
