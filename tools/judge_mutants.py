#!/usr/bin/env python3
"""tools/judge_mutants.py [n] — do the python restatements and the extracted Coq judges (Spec/Judges.v: exhaust_b,
update_ok_b /\\ update_counts_b, stats_b) agree, and do they have teeth?  Statements are collected from the
implementation's own traces on generated histories (all accepted), then every statement is mutated in its observed
part (outcome, listing after, aggregates, executed / remaining, statistics, a transaction) and both judges are asked
again.  Prints per kind: statements, mutants, mutants rejected by the Coq judge, python/Coq disagreements (must be 0)."""
import os, random, sys
sys.path.insert(0, os.path.dirname(os.path.dirname(os.path.abspath(__file__))))
from vlib import c06, c07, c15, gen, lvl
from vlib.lvlprop import LevelRun, coq_judge, build_modelrun, build_harness

n = int(sys.argv[1]) if len(sys.argv) > 1 else 300
rng = random.Random(2025)


def py_verdict(q):
    f = q.split(" ")
    if f[0] == "exhaust":
        return c06.exhaust_stmt_ok(int(f[1]), f[2], f[3], int(f[4]), int(f[5]))
    if f[0] == "upd":
        cb, ca = f[3].split("/"), f[7].split("/")
        prev = dict(vec=f[2], cv=cb[0], ch=cb[1], cc=cb[2])
        d = dict(out=f[5], vec=f[6], cv=ca[0], ch=ca[1], cc=ca[2])
        return c07.upd_stmt_ok(int(f[1]), prev, f[4], d)
    return c15.stats_stmt_ok(int(f[1]), int(f[2]), int(f[3]), int(f[4]), int(f[5]), [e for e in f[6:] if e])


def mut_vec(v):
    """drop a row / change a displayed quantity / duplicate a row / reorder"""
    rows = gen.parse_list(v)
    x = rng.random()
    if rows and x < 0.3:
        rows.pop(rng.randrange(len(rows)))
    elif rows and x < 0.7:
        i = rng.randrange(len(rows))
        f = rows[i].split(":")
        f[6] = str(int(f[6]) + rng.choice([1, 2, 7]) if rng.random() < 0.7 or f[6] == "0" else 0)
        rows[i] = ":".join(f)
    elif rows and x < 0.8:
        rows.insert(rng.randrange(len(rows) + 1), rng.choice(rows))
    elif x < 0.9:
        rng.shuffle(rows)                  # NOT a change of meaning: both judges must still accept
    else:
        rows.append("S:u987654:100:S:1:GTC:3")
    return "[" + ",".join(rows) + "]"


def bump(s):
    return str(max(0, int(s) + rng.choice([-1, 1, 3])))


def mutate(q):
    f = q.split(" ")
    if f[0] == "exhaust":
        i = rng.choice([2, 3, 4, 5])
        f[i] = mut_vec(f[i]) if i in (2, 3) else bump(f[i])
    elif f[0] == "upd":
        i = rng.choice([2, 3, 5, 6, 6, 7])
        if i in (2, 6):
            f[i] = mut_vec(f[i])
        elif i in (3, 7):
            c = f[i].split("/")
            j = rng.randrange(3)
            c[j] = bump(c[j])
            f[i] = "/".join(c)
        else:
            rows = gen.parse_list(f[2])
            f[5] = rng.choice(["err", "ok:-"] + ["ok:" + r for r in rows[:3]])
    else:
        i = rng.choice([1, 2, 3, 4, 5, 6])
        if i <= 5:
            f[i] = bump(f[i])
        elif len(f) > 6:
            j = rng.randrange(6, len(f))
            e = f[j].split("|")
            if e[0] == "A":
                f.pop(j)
            elif e[0] == "U":
                e[2] = rng.choice(["err", "ok:-", "ok:S:u1:100:S:1:GTC:3"])
                f[j] = "|".join(e)
            else:
                txs = gen.parse_list(e[3])
                if txs:
                    t = txs[0].split("/")
                    k = rng.choice([3, 4])
                    t[k] = bump(t[k])
                    txs[0] = "/".join(t)
                    e[3] = "[" + ",".join(txs) + "]"
                    f[j] = "|".join(e)
    return " ".join(f)


build_modelrun()
build_harness("debug")
total_bad = 0
for mod, kw in ((c06, {}), (c07, {}), (c15, {})):
    raw = mod.make_cases(random.Random(7), "quick")[:n]
    cases = [("c%d" % i, p, ops) for i, (p, ops) in enumerate(raw)]
    run = LevelRun(cases, "O", "debug")
    stmts = []
    for rec in run.recs:
        cid, price, ops = run.cases[rec["case"]]
        stmts += [s[1] for s in mod.statements(rec, price, ops)]
    muts = [mutate(q) for q in stmts for _ in range(4 if mod is not c15 else 12)]
    muts = [m for m in muts if m not in stmts]
    allq = stmts + muts
    coq = coq_judge(allq)
    py = [bool(py_verdict(q)) for q in allq]
    diff = [(q, a, b) for q, a, b in zip(allq, py, coq) if a != b]
    total_bad += len(diff)
    print("%s: %d statements (%d accepted by Coq), %d mutants, %d rejected by the Coq judge, python/Coq disagreements: %d" % (
        mod.__name__.split(".")[-1], len(stmts), sum(coq[:len(stmts)]), len(muts), sum(1 for v in coq[len(stmts):] if not v), len(diff)))
    for q, a, b in diff[:3]:
        print("   python=%s coq=%s  JUDGE %s" % (a, b, q[:600]))
sys.exit(1 if total_bad else 0)
