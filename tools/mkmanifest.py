#!/usr/bin/env python3
"""Regenerates /verif/MANIFEST.json from the table below (claimed properties = those with a vlib module
AND a Properties/<id>.v)."""
import json, os
V = os.path.dirname(os.path.dirname(os.path.abspath(__file__)))
T = {
 "C01": ("Coq: the invariant Agg /\\ WfQueue /\\ Fits is preserved by every operation (add, match incl. set-aside, five update kinds, both constructor families for any carried aggregates) and holds in every state reachable by any history of the quantified domain, for every per-order function meeting interface I_cons (proved of match_against); counters never wrap; total = visible + hidden. Tie: lock-step differential of implementation and extracted model after every operation of generated histories + external data with lying aggregates; judge Agg on the implementation's own states.",
         "Coq invariant by induction over histories + lock-step differential + state judge"),
 "C02": ("Coq: per-call accounting of match_order (executed + remaining = requested, completion flag, every transaction's fields, consecutive generator indices, filled list), add_transaction law, per-call and lifetime no-over-fill bound, for every history and every per-order function meeting I_cons. Tie: match results compared field by field with the model (transaction ids against an independent uuid5); judge on the implementation's own results and ledger.",
         "Coq loop-invariant proofs over match_loop + differential + ledger judge"),
 "C03": ("Coq: the sum invariant J (counter = sum over the map + quantities in the hands of threads, per program point) is preserved by every single shared-memory step of the interleaving semantics Model/Conc.v, for any number of threads, calls and steps and every schedule; at quiescence the aggregates equal the sums. Tie: every scheduled run of the implementation under the verif_sync baton scheduler is replayed step by step through the model (accept); judges: aggregates and per-order ledger at quiescence.",
         "Coq inductive invariant over an interleaving semantics + trace acceptance under a deterministic scheduler"),
 "C04": ("Coq: the concrete level refines an ideal time-priority level (Spec/Priority.v) as long as the alignment invariant holds: pop order = first outstanding ticket per live id; amend keeps place; cancel, fresh add and boundary-ending matches preserve alignment; one match from an aligned state yields exactly the ideal transactions. The unrestricted property is REFUTED of the faithful model (K1, K2 witnesses) - known findings. Tie: implementation vs model vs extracted ideal level on generated histories, half of them free of K-events.",
         "Coq refinement to an ideal priority queue + refutation witnesses + differential against the extracted ideal"),
 "C05": ("Coq: match_against = match_spec (the documented rules written declaratively) for all orders and quantities; consumed = min, conservation, identity, 64-bit bounds. Tie: exhaustive small grid x 7 variants, 64-bit boundary grid, random orders through the public OrderType::match_against (debug and release).",
         "Coq proof (function = declarative spec) + exhaustive-grid differential"),
 "C06": ("Coq: match_order terminates for every level state (well-founded lexicographic measure; existence of sufficient fuel, fuel monotonicity), exhausts displayed liquidity when quantity remains, executes at least min(requested, displayed). Tie: differential incl. zero-display states; a watchdog turns a hang of the implementation into a violation.",
         "Coq termination proof by well-founded measure + differential with watchdog"),
 "C07": ("Coq: Hoare-style specification of the five update kinds with frame clauses, queue position (abs) preserved by amend, cancelled ids never trade, reads are identity. Tie: update results and full state compared after every operation; metamorphic run with read-only calls inserted.",
         "Coq functional specifications with frame + differential + metamorphic read-insertion"),
 "C08": ("Coq: coverage invariant over the interleaving semantics (every order in the map has a ticket, or a thread is between insert and ticket append, or between ticket take and remove), handed-out-once as a trace property, drain theorem. Tie: trace acceptance under the scheduler; judges: hand-out discipline from the event log and a draining match after quiescence.",
         "Coq inductive invariant over interleavings + trace acceptance + drain judge"),
 "C09": ("Coq: restore succeeds only with version 1 and matching checksum; the checksum input is an injective serialisation of the snapshot; acceptance of altered content under an unchanged checksum exhibits a hash collision; proper prefixes of a package are rejected by the parser model. Tie: payload bytes and verdicts on structurally mutated packages model vs implementation; exhaustive single-byte fault sweep on the implementation as search.",
         "Coq proofs over a JSON/snapshot model with the hash as a Section variable + fault enumeration as search"),
 "C10": ("Coq: to_vec is a timestamp-sorted permutation of the map; rebuilding through either constructor family preserves price, orders (field for field) and aggregates for ANY carried aggregate fields; constructors derive aggregates from the orders. Tie: differential on reachable states through all six rebuild paths and on external data with lying aggregates.",
         "Coq proofs about constructors and listing + differential incl. lying inputs"),
 "C11": ("Coq: a bisimulation (Sim) between levels with equal tickets and equal maps gives equal outputs for every continuation; a clean level (no stale tickets, strictly increasing timestamps along the queue) restores to a Sim-equivalent level. The unrestricted property is REFUTED (K3, K2 witnesses) - known findings. Tie: fork-and-continue differential (original and restored copy run the same continuation), half of the histories clean.",
         "Coq bisimulation + refutation witnesses + fork differential"),
 "C12": ("Coq: from invariant J and the supplied-quantity bound, in every reachable configuration (after every single step) each counter is between 0 and the total ever supplied, in particular never wrapped. Tie: the scheduler reads the three aggregates after every scheduled step; trace acceptance.",
         "Coq inductive invariant over interleavings + per-step observation under the scheduler"),
 "C13": ("Coq: not-found answers are linearisable to an absent map entry; an id absent from the map although logically resting is held by another operation's remove..insert window (class K4, refuted with witness - known finding); a successful cancel takes the order out for good. Tie: trace acceptance; judge reconstructs holders from the event log.",
         "Coq invariants over interleavings + K4 witness + event-log judge"),
 "C14": ("Coq: generator steps are single atomic fetch-adds; the values handed out along any schedule are c0, c0+1, ... in trace order, pairwise distinct below 2^64. Tie: trace acceptance; ids compared with an independent uuid5(namespace, decimal counter).",
         "Coq trace property over interleavings + independent uuid5 oracle"),
 "C15": ("Coq: sequentially the four statistics equal counts/sums over the history (mod 2^64 unconditionally, exactly under no-wrap bounds); value = quantity x level price when orders are priced at the level price. Tie: statistics compared after every operation (sequential) and at quiescence of scheduled concurrent runs.",
         "Coq fold-equality proofs + differential, sequential and under the scheduler"),
 "C16": ("Coq: parse (print v) = Ok v for the text codecs over a byte-level model of the parsers. Tie: print/parse differential on boundary-heavy values.",
         "Coq round-trip proofs over a byte-level parser model + differential"),
 "C17": ("Coq: of_json (to_json v) = Some v on a JSON AST for the serde types; package still validates. Tie: serde_json output vs print_json(to_json v), verdicts on AST mutants.",
         "Coq round-trip proofs over a JSON AST model + differential"),
 "C18": ("Coq: every text parser model is total on valid UTF-8 with Rust's slice-panic semantics modelled explicitly (Panic never produced). Tie: ok/err/panic classification differential on mutated strings incl. multi-byte characters.",
         "Coq totality proof with explicit panic semantics + mutation differential"),
 "C19": ("Coq: OrderQueue refines an abstract FIFO with lookup/removal whenever every push is fresh (no outstanding ticket of that id); pop always returns the head of abs; find/remove/len/is_empty/to_vec unconditional; builders. The literal FIFO claim is REFUTED for re-push after removal by id (K2) - known finding. Tie: OrderQueue API differential vs model and vs the extracted abstract FIFO.",
         "Coq refinement to an abstract FIFO + refutation witness + API differential"),
}
NOTE = ("Trusted: Coq 8.16.1 kernel; extraction (ExtrOcamlBasic; plus ExtrOcamlString for the codec models of C09/C16/C17/C18) + modelrun/driver*.ml; Rust harness, verif_sync hooks and python drivers; the theorems are about the hand-written model (Model/*.v), tied to the code by the differential run of this check on generated inputs (strength bounded by the generators; distribution in the evidence). "
        "Modelled not verified: DashMap/SegQueue as linearisable objects, sequentially consistent memory, usize = 64 bit. No axioms (Print Assumptions closed, checked every run).")
props = [json.loads(l) for l in open(os.path.join(V, "properties.jsonl"))]
claimed = [p["id"] for p in props if os.path.exists(os.path.join(V, "vlib", p["id"].lower() + ".py"))
           and os.path.exists(os.path.join(V, "coq", "Properties", p["id"] + ".v"))]
checks = []
for pid in claimed:
    text, tech = T[pid]
    checks.append({
        "property_id": pid, "quick_cmd": "./check %s --tier quick" % pid, "thorough_cmd": "./check %s --tier thorough" % pid,
        "evidence_file": "/verif/evidence/%s.json" % pid, "replay_cmd_template": "./check %s --replay {path}" % pid,
        "engine": "coq-model+differential",
        "level_claimed": {"category": "proof", "text": text, "design_ref": "DESIGN.md section 6 " + pid},
        "level_note": NOTE, "technique": tech})
na = [{"property_id": p["id"], "reason": "check under construction in this build round (model/proofs/tie not yet merged); see DESIGN.md section 9"}
      for p in props if p["id"] not in claimed]
hooks_commits = []
import subprocess
for l in subprocess.run(["git", "-C", "/repo", "log", "--format=%h %s"], capture_output=True, text=True).stdout.splitlines():
    if l.split(" ", 1)[1].startswith("verif hooks:"):
        hooks_commits.append(l.split(" ")[0])
m = {"version": 1, "setup_cmd": "./setup.sh",
     "hooks": {"guard": "pricelevel_verif",
               "enable": "RUSTFLAGS=\"--cfg pricelevel_verif\" cargo build --offline in /verif/harness (links /repo by path); done by ./setup.sh and by every ./check",
               "baseline_off_cmd": "cd /repo && cargo test --workspace --no-fail-fast --offline",
               "source_commits": hooks_commits, "add_only": True},
     "engines": [{"name": "coq-model+differential", "path": "/verif/coq, /verif/modelrun, /verif/harness, /verif/vlib",
                  "serves_properties": claimed,
                  "kind_free_text": "Coq 8.16 development (model, specs, proofs); model extracted to OCaml and run in lock-step with the Rust implementation; deterministic scheduler over verif_sync hooks for the concurrency properties"}],
     "checks": checks, "not_applicable": na,
     "notes": "See DESIGN.md. Known findings (K1-K4) and fixed defects: /verif/known_findings.json. Seeded breaking changes: /verif/seeded/."}
json.dump(m, open(os.path.join(V, "MANIFEST.json"), "w"), indent=1)
print("claimed:", claimed)
