#!/bin/bash
# tools/confirm_seed.sh <worktree> <seed-id>: confirm a sub-agent's breaking change independently, then store it.
# 1. tests pass with the change  2. demo fails with it  3. demo passes without it
set -u
WT=$1; ID=$2; OUT=/verif/seeded/$ID
export CARGO_NET_OFFLINE=true
cd $WT || exit 2
[ -f Cargo.lock ] || cp /repo/Cargo.lock Cargo.lock
DEMO=$(python3 -c "import json;print(json.load(open('$WT/meta.json'))['demo_cmd'])")
echo "demo_cmd: $DEMO"
git diff -- src > /tmp/seed_$ID.diff
[ -s /tmp/seed_$ID.diff ] || { echo "no source change in worktree"; exit 2; }
T=$(cargo test --workspace --no-fail-fast --offline --target-dir $WT/target 2>&1 | grep -E "^test result" | tr '\n' ' ')
echo "tests with change: $T"
echo "$T" | grep -q "361 passed; 0 failed" || { echo "TESTS DO NOT PASS"; exit 1; }
( eval "$DEMO" ) > /tmp/seed_${ID}_with.log 2>&1; RW=$?
# (git stash is shared between the worktrees of one repository: use apply -R / apply instead)
git apply -R /tmp/seed_$ID.diff
( eval "$DEMO" ) > /tmp/seed_${ID}_without.log 2>&1; RO=$?
git apply /tmp/seed_$ID.diff
echo "demo exit with change: $RW   without: $RO"
if [ $RW -ne 0 ] && [ $RO -eq 0 ]; then
  mkdir -p $OUT
  cp /tmp/seed_$ID.diff $OUT/patch.diff
  rm -rf $OUT/demo; mkdir -p $OUT/demo
  (cd $WT/demo 2>/dev/null && tar cf - --exclude target --exclude Cargo.lock . ) | (cd $OUT/demo && tar xf -)
  python3 - <<PY
import json
m=json.load(open('$WT/meta.json'))
m['confirmed']={'tests_with_change':'$T'.strip(),'demo_exit_with_change':$RW,'demo_exit_without_change':$RO,
                'what_i_ran':['cargo test --workspace --no-fail-fast --offline (worktree with the change): 361 passed','demo_cmd with the change: fails','git stash; demo_cmd: passes; git stash pop']}
json.dump(m,open('$OUT/meta.json','w'),indent=1)
PY
  echo "CONFIRMED -> $OUT"
else
  echo "NOT CONFIRMED"; tail -5 /tmp/seed_${ID}_with.log; tail -5 /tmp/seed_${ID}_without.log; exit 1
fi
