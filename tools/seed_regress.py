#!/usr/bin/env python3
"""tools/seed_regress.py [-j N] — re-runs, for every stored seed, the quick check of the property the seed was written
against (on a scratch worktree, /repo untouched) and prints one line per seed.  Generator changes shift the random
streams, so a seed caught last week can be missed today: run this before trusting seeded/RESULTS.md."""
import glob, json, os, re, subprocess, sys
from concurrent.futures import ThreadPoolExecutor
V = os.path.dirname(os.path.dirname(os.path.abspath(__file__)))
jobs = int(sys.argv[sys.argv.index("-j") + 1]) if "-j" in sys.argv else 4
only = [a for a in sys.argv[1:] if a.startswith("C")]


def one(d):
    name = os.path.basename(d)
    prop = json.load(open(os.path.join(d, "meta.json"))).get("property", name[:3])
    p = subprocess.run([sys.executable, os.path.join(V, "tools", "try_scratch.py"), os.path.join(d, "patch.diff"), prop, "--no-tests"],
                       capture_output=True, text=True)
    m = re.search(r"^\s+%s\s+(quiet|VIOLATION|NO-INPUT)\s+([\d.]+)s\s*(.*)$" % prop, p.stdout, re.M)
    res = (m.group(1), m.group(3)[:110]) if m else ("ERROR", (p.stdout + p.stderr)[-200:].replace("\n", " "))
    # keep the own-property line of checks.txt current (default seed only)
    cp = os.path.join(d, "checks.txt")
    if m and os.path.exists(cp) and not os.environ.get("VERIF_SEED"):
        lines = open(cp).read().splitlines()
        lines = [(m.group(0) if re.match(r"\s+%s\s" % prop, l) else l) for l in lines]
        open(cp, "w").write("\n".join(lines) + "\n")
    print("%-55s %s %-9s %s" % (name, prop, res[0], res[1]), flush=True)
    return name, prop, res[0]


dirs = sorted(d for d in glob.glob(os.path.join(V, "seeded", "C??*-*")) if os.path.exists(os.path.join(d, "meta.json")))
if only:
    dirs = [d for d in dirs if any(os.path.basename(d).startswith(o) for o in only)]
with ThreadPoolExecutor(max_workers=jobs) as ex:
    out = list(ex.map(one, dirs))
print("\n%d seeds: %d VIOLATION (concrete), %d NO-INPUT, %d quiet, %d error" % (
    len(out), sum(r[2] == "VIOLATION" for r in out), sum(r[2] == "NO-INPUT" for r in out),
    sum(r[2] == "quiet" for r in out), sum(r[2] == "ERROR" for r in out)))
