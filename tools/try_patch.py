#!/usr/bin/env python3
"""tools/try_patch.py <patch.diff> [ids...] — applies a seeded change to /repo, runs the quick checks,
prints which properties raise VIOLATION, and ALWAYS restores /repo (git checkout -- .)."""
import json, os, subprocess, sys, time
V = os.path.dirname(os.path.dirname(os.path.abspath(__file__)))
patch = os.path.abspath(sys.argv[1])
ids = sys.argv[2:] or [c["property_id"] for c in json.load(open(os.path.join(V, "MANIFEST.json")))["checks"]]
st = subprocess.run(["git", "-C", "/repo", "status", "--porcelain", "--untracked-files=no"], capture_output=True, text=True).stdout
if st.strip():
    sys.exit("/repo has uncommitted changes; refusing")
r = subprocess.run(["git", "-C", "/repo", "apply", patch], capture_output=True, text=True)
if r.returncode != 0:
    sys.exit("patch does not apply: " + r.stderr)
res = {}
try:
    for pid in ids:
        t = time.time()
        p = subprocess.run([os.path.join(V, "check"), pid, "--tier", "quick"], cwd=V, capture_output=True, text=True)
        lines = [l for l in p.stdout.splitlines() if l.startswith("VIOLATION")]
        res[pid] = (p.returncode, lines, round(time.time() - t, 1))
        tag = "quiet" if p.returncode == 0 else ("NO-INPUT" if any("no-failing-input-found" in l for l in lines) else "VIOLATION")
        print("%s %-9s %5.1fs %s" % (pid, tag, res[pid][2], (lines[0] if lines else "")), flush=True)
        if p.returncode != 0 and lines:
            rp = lines[0].split("replay=")[1].split(" ")[0]
            try:
                d = json.load(open(rp))
                print("     why:", str(d.get("why") or d.get("broken") or "")[:300])
            except Exception:
                pass
finally:
    subprocess.run(["git", "-C", "/repo", "checkout", "--", "."])
    # evidence written while the patch was applied describes the patched tree: put the committed files back
    subprocess.run(["git", "-C", V, "checkout", "--", "evidence"])
    print("restored /repo:", subprocess.run(["git", "-C", "/repo", "status", "--porcelain", "--untracked-files=no"], capture_output=True, text=True).stdout.strip() or "clean")
