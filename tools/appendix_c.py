#!/usr/bin/env python3
"""Regenerates Appendix C of DESIGN.md (the inventory of property theorems) from coq/Properties/*.v."""
import glob, os, re
V = os.path.dirname(os.path.dirname(os.path.abspath(__file__)))
out = ["## Appendix C — property theorems as built (generated from coq/Properties/*.v by tools/appendix_c.py)", "",
       "Every theorem below is closed by `exact <lemma>` (or a one-line combination), has `Print Assumptions` = *Closed under the",
       "global context*, and is re-checked by `./check <id>` on every run.  `…_refuted` / `K*_witness` theorems state that the",
       "unrestricted property is FALSE of the faithful model (known findings)."]
tot_t = tot_e = 0
for f in sorted(glob.glob(os.path.join(V, "coq", "Properties", "*.v"))):
    src = open(f).read()
    src = re.sub(r"\(\*.*?\*\)", "", src, flags=re.S)
    th = re.findall(r"^\s*(?:Theorem|Lemma|Corollary)\s+(\w+)", src, re.M)
    ex = re.findall(r"^\s*Example\s+(\w+)", src, re.M)
    tot_t += len(th); tot_e += len(ex)
    out.append("* **%s** (%d theorems, %d examples): %s" % (os.path.basename(f)[:-2], len(th), len(ex), ", ".join("`%s`" % t for t in th)))
out.append("")
out.append("Total: %d theorems, %d examples in %d statement files." % (tot_t, tot_e, len(glob.glob(os.path.join(V, "coq", "Properties", "*.v")))))
p = os.path.join(V, "DESIGN.md")
s = open(p).read()
i = s.index("## Appendix C")
open(p, "w").write(s[:i] + "\n".join(out) + "\n")
print("Appendix C: %d theorems, %d examples" % (tot_t, tot_e))
