#!/bin/bash
# tools/process_seed.sh <worktree> <seed-id> : confirm a sub-agent's seed, store it, run every check against it
# (on a scratch copy), write seeded/<seed-id>/checks.txt
WT=$1; ID=$2
/verif/tools/confirm_seed.sh $WT $ID > /tmp/ps_$ID.log 2>&1 || { echo "$ID NOT CONFIRMED"; tail -3 /tmp/ps_$ID.log; exit 1; }
python3 /verif/tools/try_scratch.py /verif/seeded/$ID/patch.diff --no-tests > /verif/seeded/$ID/checks.txt 2>&1
echo "$ID done: $(grep -c VIOLATION /verif/seeded/$ID/checks.txt) concrete, $(grep -c NO-INPUT /verif/seeded/$ID/checks.txt) no-input"
