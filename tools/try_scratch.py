#!/usr/bin/env python3
"""tools/try_scratch.py <patch.diff> [ids...] — like try_patch.py but on a scratch worktree of /repo
(/repo itself is not touched, so several trials can run in parallel).  Also runs the 361 tests with the patch.
Prints one line per check; results and replays land under /tmp/vs_<name>/ (removed at the end unless --keep)."""
import json, os, shutil, subprocess, sys, time, hashlib
V = os.path.dirname(os.path.dirname(os.path.abspath(__file__)))
args = [a for a in sys.argv[1:] if not a.startswith("--")]
keep = "--keep" in sys.argv
notests = "--no-tests" in sys.argv
patch = os.path.abspath(args[0])
ids = args[1:] or [c["property_id"] for c in json.load(open(os.path.join(V, "MANIFEST.json")))["checks"]]
name = hashlib.sha1(patch.encode()).hexdigest()[:8]
out = "/tmp/vs_" + name
wt = out + "/repo"
shutil.rmtree(out, ignore_errors=True)
os.makedirs(out)
subprocess.run(["git", "-C", "/repo", "worktree", "prune"])
r = subprocess.run(["git", "-C", "/repo", "worktree", "add", "-q", "--detach", wt, "HEAD"], capture_output=True, text=True)
if r.returncode != 0:
    sys.exit("worktree: " + r.stderr)
try:
    r = subprocess.run(["git", "-C", wt, "apply", patch], capture_output=True, text=True)
    if r.returncode != 0:
        sys.exit("patch does not apply: " + r.stderr)
    shutil.copy("/repo/Cargo.lock", wt + "/Cargo.lock")
    env = dict(os.environ, VERIF_REPO=wt, VERIF_OUT=out, CARGO_NET_OFFLINE="true")
    if not notests:
        t = subprocess.run("cargo test --workspace --no-fail-fast --offline --target-dir %s/target 2>&1 | grep -E '^test result'" % wt,
                           shell=True, cwd=wt, env=env, capture_output=True, text=True).stdout
        ok = "361 passed; 0 failed" in t
        print("%s: existing tests %s" % (os.path.basename(patch), "PASS (361)" if ok else "FAIL: " + " ".join(t.split())[:200]), flush=True)
    for pid in ids:
        t0 = time.time()
        p = subprocess.run([os.path.join(V, "check"), pid, "--tier", "quick"] + (["--seed", os.environ["VERIF_SEED"]] if os.environ.get("VERIF_SEED") else []),
                           cwd=V, env=env, capture_output=True, text=True)
        lines = [l for l in p.stdout.splitlines() if l.startswith("VIOLATION")]
        concrete = [l for l in lines if "no-failing-input-found" not in l]
        tag = "quiet" if p.returncode == 0 else ("VIOLATION" if concrete else "NO-INPUT")
        why = ""
        if lines:
            rp = (concrete or lines)[0].split("replay=")[1].split(" ")[0]
            try:
                d = json.load(open(rp))
                why = str(d.get("why") or d.get("broken") or "")[:160]
            except Exception:
                pass
        print("  %s %-9s %5.1fs %s" % (pid, tag, time.time() - t0, why), flush=True)
finally:
    subprocess.run(["git", "-C", "/repo", "worktree", "remove", "--force", wt])
    if not keep:
        shutil.rmtree(out, ignore_errors=True)
