(* ExtractJson.v — extraction of the JSON / snapshot-package model (Model/Json.v,
   Model/Snapshot.v) to OCaml for the C17 / C09 correspondence checks.
   Directives used:
   * ExtrOcamlBasic: bool, option, list, prod, unit, sumbool, sumor -> OCaml natives
     (andb / orb inlined to && / ||);
   * ExtrOcamlString: ascii -> char, string -> char list, Ascii.eqb / ascii_dec -> (=)
     (text is [list ascii] in the model, so it becomes [char list]).
   N, positive, Z, nat, Decimal.uint stay the extracted inductive datatypes.
   SHA-256 ([H]) is a Section variable: the extracted functions take it as an argument
   and the driver supplies digests computed outside (python hashlib). *)
From Coq Require Extraction.
From Coq Require Import ExtrOcamlBasic ExtrOcamlString.
From PL Require Import Model.Json Model.Snapshot.

Extraction Language OCaml.

Extraction "../modelrun/model_json.ml"
  print_json parse_json parse_top
  to_json_side of_json_side to_json_tif of_json_tif to_json_peg of_json_peg
  to_json_oid of_json_oid to_json_uuid of_json_uuid
  to_json_order of_json_order to_json_update of_json_update
  to_json_tx of_json_tx to_json_txlist of_json_txlist to_json_result of_json_result
  to_json_data of_json_data to_json_level of_json_level to_json_orders of_json_orders of_json_queue
  to_json_snapshot of_json_snapshot to_json_stats of_json_stats
  to_json_package of_json_package
  text_of_package package_of_text
  hex_lower ser package_new validate into_snapshot restore
  from_snapshot_package package_from_json from_snapshot_json snapshot_package snapshot_to_json
  from_data from_snapshot refresh to_vec oid_of ts_of.
