(* CovQSpec.v — vocabulary of the second half of property C08: concurrent
   push / pop / remove / find on the exported order queue itself, over the
   interleaving model of Model/ConcQ.v.  Definitions only.  The trace vocabulary
   ([track], [ev_ok], [trace_ok], [cell_after], [inserts]) is the one of
   Spec/CovSpec.v: both models emit the same events. *)
From PL Require Export Model.ConcQ Spec.Hist Spec.Priority Spec.CovSpec.
Local Open Scope N_scope.

(* ------------------------------------------------------------------ *)
(* Initial configurations: a queue and one program per thread; every thread
   stands at the first shared operation of its first call. *)
Definition qinit_config (q : queue) (progs : list (list qcall)) : qconfig :=
  mkQconfig (qshared_of_queue q) (map qthread_init progs).

(* the queue a configuration's shared memory describes *)
Definition queue_of_qconfig (c : qconfig) : queue := queue_of_qshared (qc_sh c).

(* ------------------------------------------------------------------ *)
(* Coverage.  A thread is between the two halves of a queue operation:
   [qins_pending p k] — push: the order with id k is in the map, its ticket is
   not yet appended; [qrem_pending p k] — pop: the ticket for k is taken, the
   map remove has not been tried yet. *)
Definition qins_pending (p : qpc) (k : oid) : Prop :=
  match p with QP2 o => oid_of o = k | _ => False end.

Definition qrem_pending (p : qpc) (k : oid) : Prop :=
  match p with QO2 k' => k' = k | _ => False end.

Definition qpending (p : qpc) (k : oid) : Prop := qins_pending p k \/ qrem_pending p k.

(* Every order in the map has a ticket, or a thread is about to append one,
   or a thread has just taken one and is about to try the remove. *)
Definition QCov (c : qconfig) : Prop :=
  forall x, In x (qs_map (qc_sh c)) ->
    In (oid_of x) (qs_tk (qc_sh c)) \/
    (exists i t, nth_error (qc_threads c) i = Some t /\ qins_pending (qt_pc t) (oid_of x)) \/
    (exists i t, nth_error (qc_threads c) i = Some t /\ qrem_pending (qt_pc t) (oid_of x)).

(* what coverage rules out: an order in the map that no ticket and no thread
   will ever lead a popper to *)
Definition qstranded (c : qconfig) (x : order) : Prop :=
  In x (qs_map (qc_sh c)) /\
  ~ In (oid_of x) (qs_tk (qc_sh c)) /\
  forall i t, nth_error (qc_threads c) i = Some t -> ~ qpending (qt_pc t) (oid_of x).

(* the map never holds two orders with one id *)
Definition QMapNoDup (c : qconfig) : Prop := NoDup (ids (qs_map (qc_sh c))).

(* ------------------------------------------------------------------ *)
(* Handed out exactly once: counting along a trace. *)
Definition is_insert_of (k : oid) (e : ev) : bool :=
  match e with EInsert o => oid_eqb k (oid_of o) | _ => false end.

Definition is_handout_of (k : oid) (e : ev) : bool :=
  match e with ERemove k' (Some _) => oid_eqb k k' | _ => false end.

Definition count_ev (f : ev -> bool) (tr : list (nat * ev)) : nat :=
  length (filter (fun ie => f (snd ie)) tr).

Definition b2n (b : bool) : nat := if b then 1%nat else 0%nat.

(* inserts of id k that replace an order still in the map (DashMap::insert on
   an existing key: the old value is dropped, not handed to anybody) *)
Fixpoint overwrites (k : oid) (cur : option order) (tr : list (nat * ev)) : nat :=
  match tr with
  | [] => 0%nat
  | (_, e) :: tr' =>
      (b2n (is_insert_of k e && is_some cur) + overwrites k (track k cur e) tr')%nat
  end.

(* ------------------------------------------------------------------ *)
(* Running an arbitrary per-thread step function under the scheduler of
   Model/ConcQ.v (used for the counter-model in which the two halves of push
   are swapped; instantiated with [qtstep] it is [qcstep] / [qexec]). *)
Definition qcstep_with (step : qpc -> qshared -> option (qpc * qshared * ev))
    (c : qconfig) (i : nat) : option (qconfig * ev) :=
  match nth_error (qc_threads c) i with
  | None => None
  | Some t =>
      match step (qt_pc t) (qc_sh c) with
      | None => None
      | Some (p', s', e) =>
          let t' := qsettle (mkQthread p' (qt_todo t) (qt_rets t)) in
          Some (mkQconfig s' (update_nth i t' (qc_threads c)), e)
      end
  end.

Fixpoint qexec_with (step : qpc -> qshared -> option (qpc * qshared * ev))
    (sched : list nat) (c : qconfig) : qconfig * list (nat * ev) :=
  match sched with
  | [] => (c, [])
  | i :: rest =>
      match qcstep_with step c i with
      | None => qexec_with step rest c
      | Some (c', e) => let '(c'', tr) := qexec_with step rest c' in (c'', (i, e) :: tr)
      end
  end.
