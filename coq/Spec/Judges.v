(* Judges.v — boolean versions of the statements that the checks apply to the
   IMPLEMENTATION's own observations (extracted and run by modelrun `JUDGE …`), each
   proved equivalent to the Prop used in the theorems (Proofs/JudgeProofs.v). *)
From PL Require Export Spec.Hist Spec.StatsSpec.
Local Open Scope N_scope.

(* C01: the three reported aggregates describe the listed orders *)
Definition agg_b (cv ch cc : N) (listing : list order) : bool :=
  (cv =? sumv listing) && (ch =? sumh listing) && (cc =? N.of_nat (length listing)).

(* C10: the listing shows each resting order once, in non-decreasing timestamp order *)
Fixpoint nodup_ids_b (l : list order) : bool :=
  match l with
  | [] => true
  | o :: l' => negb (existsb (fun x => oid_eqb (oid_of o) (oid_of x)) l') && nodup_ids_b l'
  end.

Fixpoint sorted_ts_b (l : list order) : bool :=
  match l with
  | a :: (b :: _) as t => (ts_of a <=? ts_of b) && sorted_ts_b t
  | _ => true
  end.

Definition listing_ok_b (l : list order) : bool := nodup_ids_b l && sorted_ts_b l.

(* C02 (per call): accounting of one match result against the book before the call *)
Definition tx_ok_b (p : N) (taker : oid) (before : list order) (t : tx) : bool :=
  (0 <? tx_qty t) && (tx_price t =? p) && oid_eqb (tx_taker t) taker &&
  match lookup (tx_maker t) before with
  | Some o => side_eqb (tx_side t) (opposite (side_of o))
  | None => false
  end.

Definition sum_qty (txs : list tx) : N := fold_right (fun t a => tx_qty t + a) 0 txs.

Definition accounting_b (p qty : N) (taker : oid) (before : list order) (r : result) : bool :=
  (sum_qty (r_txs r) + r_remaining r =? qty) &&
  Bool.eqb (r_complete r) (r_remaining r =? 0) &&
  forallb (tx_ok_b p taker before) (r_txs r).

(* ------------------------------------------------------------------ *)
(* C06 (per match call): at least min(requested, displayed at the start) is executed, and a
   call that returns with quantity remaining leaves no resting order with displayed quantity.
   [before] / [after] are listings of the book around the call (any order of the rows). *)
Definition Exhausts (qty : N) (before after : list order) (executed remaining : N) : Prop :=
  N.min qty (sumv before) <= executed /\
  (0 < remaining -> forall o, In o after -> vis o = 0).

Definition exhaust_b (qty : N) (before after : list order) (executed remaining : N) : bool :=
  (N.min qty (sumv before) <=? executed) &&
  ((remaining =? 0) || forallb (fun o => vis o =? 0) after).

(* ------------------------------------------------------------------ *)
(* C15 (per history): the four statistics counters are the counts / sums over the events of
   the history (modulo 2^64: they are wrapping counters), every transaction carries the level
   price; the value is summed from the transactions' own price and quantity. *)
Definition sum_txval (txs : list tx) : N := fold_right (fun t a => tx_qty t * tx_price t + a) 0 txs.
Definition ev_val (e : event) : N :=
  match e with (OMatch _ _, OutMatch r) => sum_txval (r_txs r) | _ => 0 end.
Definition val_executed (h : hist) : N := fold_right (fun e a => ev_val e + a) 0 h.

Definition ev_tx_price_b (p : N) (e : event) : bool :=
  match e with (_, OutMatch r) => forallb (fun t => tx_price t =? p) (r_txs r) | _ => true end.

Definition StatsAgree (p : N) (h : hist) (added removed qty value : N) : Prop :=
  added = n_added h mod W /\ removed = n_removed p h mod W /\
  qty = qty_executed h mod W /\ value = val_executed h mod W /\
  Forall (ev_tx_price p) h.

Definition stats_b (p : N) (h : hist) (added removed qty value : N) : bool :=
  (added =? n_added h mod W) && (removed =? n_removed p h mod W) &&
  (qty =? qty_executed h mod W) && (value =? val_executed h mod W) &&
  forallb (ev_tx_price_b p) h.

(* C15 (per history WITH rebuilds: events [(ORebuildSnap listing, OutRebuilt)] /
   [(ORebuildData listing, OutRebuilt)]): the counters are what the last rebuild recorded
   ([rebuild_base]: one order added per order listed to a [ORebuildData], nothing otherwise) plus
   the counts / sums over the events since that rebuild ([since_rebuild]); every transaction of
   the WHOLE history carries the level price.  Without a rebuild this is [StatsAgree]. *)
Definition StatsAgreeR (p : N) (h : hist) (added removed qty value : N) : Prop :=
  added = (rebuild_base h + n_added (since_rebuild h)) mod W /\
  removed = n_removed p (since_rebuild h) mod W /\
  qty = qty_executed (since_rebuild h) mod W /\ value = val_executed (since_rebuild h) mod W /\
  Forall (ev_tx_price p) h.

Definition stats_rebuild_b (p : N) (h : hist) (added removed qty value : N) : bool :=
  let hs := since_rebuild h in
  (added =? (rebuild_base h + n_added hs) mod W) && (removed =? n_removed p hs mod W) &&
  (qty =? qty_executed hs mod W) && (value =? val_executed hs mod W) &&
  forallb (ev_tx_price_b p) h.

(* ------------------------------------------------------------------ *)
(* C07 (per update call): from the listing before, the update, the returned outcome and the
   listing after (listings compared as finite maps id -> order, so the order of the rows is
   irrelevant), plus the three aggregate counters before and after.
   NOT decided here (left to the python judge / the differential run): queue position
   (only visible through later matches), "a cancelled order never trades" (a statement about
   the rest of the history), statistics (C15), purity of read-only calls (metamorphic run). *)
Definition oo_eqb (a b : option order) : bool := option_eqb order_eqb a b.
Definition uout_eqb (x y : uout) : bool :=
  match x, y with
  | UErr, UErr => true
  | UOk a, UOk b => oo_eqb a b
  | _, _ => false
  end.

Definition upd_key (u : update) : oid :=
  match u with
  | UpdatePrice k _ | UpdateQuantity k _ | UpdatePriceAndQuantity k _ _ | Cancel k | Replace k _ _ _ => k
  end.

(* the dispatch of update_order at a level of price [p] *)
Inductive upd_class := UReject | UTakeOut | UAmend (nq : N).
Definition classify (p : N) (u : update) : upd_class :=
  match u with
  | Cancel _ => UTakeOut
  | UpdatePrice _ np => if np =? p then UReject else UTakeOut
  | UpdateQuantity _ nq => UAmend nq
  | UpdatePriceAndQuantity _ np nq => if np =? p then UAmend nq else UTakeOut
  | Replace _ np nq _ => if np =? p then UAmend nq else UTakeOut
  end.

Definition same_book (a b : list order) : Prop := forall k, lookup k a = lookup k b.
Definition same_book_except (k : oid) (a b : list order) : Prop :=
  forall k', k' <> k -> lookup k' a = lookup k' b.

Definition same_book_b (a b : list order) : bool :=
  forallb (fun k => oo_eqb (lookup k a) (lookup k b)) (ids a ++ ids b).
Definition same_book_except_b (k : oid) (a b : list order) : bool :=
  forallb (fun k' => oid_eqb k' k || oo_eqb (lookup k' a) (lookup k' b)) (ids a ++ ids b).

Definition UpdateOk (p : N) (before : list order) (u : update) (r : uout) (after : list order) : Prop :=
  let k := upd_key u in
  match classify p u with
  | UReject => r = UErr /\ same_book after before
  | UTakeOut =>
      match lookup k before with
      | Some o => r = UOk (Some o) /\ lookup k after = None /\ same_book_except k after before
      | None => r = UOk None /\ same_book after before
      end
  | UAmend nq =>
      match lookup k before with
      | Some o => r = UOk (Some (with_reduced_quantity o nq)) /\
                  lookup k after = Some (with_reduced_quantity o nq) /\
                  same_book_except k after before
      | None => r = UOk None /\ same_book after before
      end
  end.

Definition update_ok_b (p : N) (before : list order) (u : update) (r : uout) (after : list order) : bool :=
  let k := upd_key u in
  match classify p u with
  | UReject => uout_eqb r UErr && same_book_b after before
  | UTakeOut =>
      match lookup k before with
      | Some o => uout_eqb r (UOk (Some o)) && oo_eqb (lookup k after) None && same_book_except_b k after before
      | None => uout_eqb r (UOk None) && same_book_b after before
      end
  | UAmend nq =>
      match lookup k before with
      | Some o => uout_eqb r (UOk (Some (with_reduced_quantity o nq))) &&
                  oo_eqb (lookup k after) (Some (with_reduced_quantity o nq)) &&
                  same_book_except_b k after before
      | None => uout_eqb r (UOk None) && same_book_b after before
      end
  end.

(* the aggregates (visible, hidden, count) around the call: wrapping subtraction on a removal,
   [delta] of the displayed quantity on an amendment, untouched otherwise *)
Definition UpdateCounts (p : N) (before : list order) (u : update) (cv ch cc cv' ch' cc' : N) : Prop :=
  match classify p u, lookup (upd_key u) before with
  | UTakeOut, Some o => cv' = wsub cv (vis o) /\ ch' = wsub ch (hid o) /\ cc' = wsub cc 1
  | UAmend nq, Some o =>
      cv' = delta cv (vis o) (vis (with_reduced_quantity o nq)) /\ ch' = ch /\ cc' = cc
  | _, _ => cv' = cv /\ ch' = ch /\ cc' = cc
  end.

Definition update_counts_b (p : N) (before : list order) (u : update) (cv ch cc cv' ch' cc' : N) : bool :=
  match classify p u, lookup (upd_key u) before with
  | UTakeOut, Some o => (cv' =? wsub cv (vis o)) && (ch' =? wsub ch (hid o)) && (cc' =? wsub cc 1)
  | UAmend nq, Some o =>
      (cv' =? delta cv (vis o) (vis (with_reduced_quantity o nq))) && (ch' =? ch) && (cc' =? cc)
  | _, _ => (cv' =? cv) && (ch' =? ch) && (cc' =? cc)
  end.
