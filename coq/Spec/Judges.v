(* Judges.v — boolean versions of the statements that the checks apply to the
   IMPLEMENTATION's own observations (extracted and run by modelrun `JUDGE …`), each
   proved equivalent to the Prop used in the theorems (Proofs/JudgeProofs.v). *)
From PL Require Export Spec.Hist.
Local Open Scope N_scope.

(* C01: the three reported aggregates describe the listed orders *)
Definition agg_b (cv ch cc : N) (listing : list order) : bool :=
  (cv =? sumv listing) && (ch =? sumh listing) && (cc =? N.of_nat (length listing)).

(* C10: the listing shows each resting order once, in non-decreasing timestamp order *)
Fixpoint nodup_ids_b (l : list order) : bool :=
  match l with
  | [] => true
  | o :: l' => negb (existsb (fun x => oid_eqb (oid_of o) (oid_of x)) l') && nodup_ids_b l'
  end.

Fixpoint sorted_ts_b (l : list order) : bool :=
  match l with
  | a :: (b :: _) as t => (ts_of a <=? ts_of b) && sorted_ts_b t
  | _ => true
  end.

Definition listing_ok_b (l : list order) : bool := nodup_ids_b l && sorted_ts_b l.

(* C02 (per call): accounting of one match result against the book before the call *)
Definition tx_ok_b (p : N) (taker : oid) (before : list order) (t : tx) : bool :=
  (0 <? tx_qty t) && (tx_price t =? p) && oid_eqb (tx_taker t) taker &&
  match lookup (tx_maker t) before with
  | Some o => side_eqb (tx_side t) (opposite (side_of o))
  | None => false
  end.

Definition sum_qty (txs : list tx) : N := fold_right (fun t a => tx_qty t + a) 0 txs.

Definition accounting_b (p qty : N) (taker : oid) (before : list order) (r : result) : bool :=
  (sum_qty (r_txs r) + r_remaining r =? qty) &&
  Bool.eqb (r_complete r) (r_remaining r =? 0) &&
  forallb (tx_ok_b p taker before) (r_txs r).
