(* LedgerSpec.v — vocabulary of the C02 / C06 statements: the level invariant,
   sums over transaction lists, the per-order "total", the description of the
   filled list, and the lifetime ledger of an order id over a history. *)
From PL Require Export Spec.Hist.
Local Open Scope N_scope.

(* The level invariant assumed by per-call theorems (its preservation over
   histories is C01's business). *)
Definition Inv (l : level) : Prop := Agg l /\ WfQueue (lq l) /\ Fits l.

(* ---- sums over transaction lists ---- *)
Definition txsum (ts : list tx) : N := fold_right (fun t a => tx_qty t + a) 0 ts.
Definition traded_in (ts : list tx) (k : oid) : N :=
  fold_right (fun t a => if oid_eqb (tx_maker t) k then tx_qty t + a else a) 0 ts.
(* quantity traded by maker [k] in one match result *)
Definition traded (r : result) (k : oid) : N := traded_in (r_txs r) k.
(* displayed + hidden quantity of the order found under an id *)
Definition total (x : option order) : N :=
  match x with Some o => vis o + hid o | None => 0 end.

Definition hidden (x : option order) : N :=
  match x with Some o => hid o | None => 0 end.

(* ---- what a well-formed transaction of a call looks like ---- *)
Definition tx_ok (p0 : N) (taker : oid) (m0 : list order) (t : tx) : Prop :=
  0 < tx_qty t /\ tx_price t = p0 /\ tx_taker t = taker /\
  exists o0, lookup (tx_maker t) m0 = Some o0 /\ tx_side t = opposite (side_of o0).

(* the generator value after [i] increments (wrapping) *)
Definition gen_at (g : N) (i : nat) : N := Nat.iter i (fun x => wadd x 1) g.

(* ---- makers in the order of their LAST transaction ---- *)
Fixpoint dedup_last (l : list oid) : list oid :=
  match l with
  | [] => []
  | k :: t => if existsb (oid_eqb k) t then dedup_last t else k :: dedup_last t
  end.
Definition notin (m : list order) (k : oid) : bool := negb (is_some (lookup k m)).

(* An order handed back by the per-order function after a trade never leaves the
   book silently (no trade, no update) later: needed only for the exact
   description of the filled list; Proofs/MatchProofs.v proves it of match_against. *)
Definition NS (mf : order -> N -> mres) (o : order) : Prop :=
  forall inc, 0 < inc -> m_updated (mf o inc) = None -> 0 < m_consumed (mf o inc).
Definition I_fill (mf : order -> N -> mres) : Prop :=
  forall o inc u, 0 < inc -> m_updated (mf o inc) = Some u ->
                  (0 < m_consumed (mf o inc) \/ NS mf o) -> NS mf u.

(* ---- the lifetime ledger ---- *)
(* An event is an operation of a history together with the level it was applied
   to and its output.  (The level is needed because the output of an amendment
   does not tell the quantity the order had before.) *)
Definition event : Type := (level * op * out)%type.
Definition ev_op (e : event) : op := snd (fst e).
Definition ev_out (e : event) : out := snd e.

Section Trace.
Variable mf : order -> N -> mres.
(* [steps] of Spec/Hist.v, remembering the level before every operation *)
Inductive trace : sys -> list event -> sys -> Prop :=
| trace_nil s : trace s [] s
| trace_cons l g o s1 x evs s' :
    ok_op (l, g) o -> step mf (l, g) o s1 x -> Fits (fst s1) ->
    trace s1 evs s' -> trace (l, g) ((l, o, x) :: evs) s'.
End Trace.

Definition upd_key (u : update) : oid :=
  match u with
  | UpdatePrice k _ | UpdateQuantity k _ | UpdatePriceAndQuantity k _ _ | Cancel k
  | Replace k _ _ _ => k
  end.

(* does the update amend the quantity in place (same price)? otherwise it takes the order out *)
Definition is_amend (l : level) (u : update) : bool :=
  match u with
  | UpdateQuantity _ _ => true
  | UpdatePriceAndQuantity _ np _ => np =? price l
  | Replace _ p _ _ => p =? price l
  | UpdatePrice _ _ | Cancel _ => false
  end.

Local Open Scope Z_scope.
Definition totalZ (x : option order) : Z := Z.of_N (total x).

(* quantity traded by maker k in this event *)
Definition ev_traded (k : oid) (e : event) : Z :=
  match e with
  | (_, _, OutMatch r) => Z.of_N (traded r k)
  | _ => 0
  end.

(* quantity brought to the book under id k: an added order's displayed + hidden,
   or (new total - old total) of a successful same-price amendment *)
Definition ev_supplied (k : oid) (e : event) : Z :=
  match e with
  | (_, OAdd o, _) => if oid_eqb (oid_of o) k then totalZ (Some o) else 0
  | (l, OUpdate u, OutUpdate (UOk (Some new))) =>
      if is_amend l u && oid_eqb (upd_key u) k
      then totalZ (Some new) - totalZ (lookup k (resting l)) else 0
  | _ => 0
  end.

(* quantity handed back under id k by a successful cancel / price move *)
Definition ev_returned (k : oid) (e : event) : Z :=
  match e with
  | (l, OUpdate u, OutUpdate (UOk (Some x))) =>
      if negb (is_amend l u) && oid_eqb (upd_key u) k then totalZ (Some x) else 0
  | _ => 0
  end.

Definition sumZ (f : event -> Z) (evs : list event) : Z := fold_right (fun e a => f e + a) 0 evs.
Definition traded_total (evs : list event) (k : oid) : Z := sumZ (ev_traded k) evs.
Definition supplied_total (evs : list event) (k : oid) : Z := sumZ (ev_supplied k) evs.
Definition returned_total (evs : list event) (k : oid) : Z := sumZ (ev_returned k) evs.

(* all transactions of a history, in order *)
Definition ev_txs (e : event) : list tx :=
  match ev_out e with OutMatch r => r_txs r | _ => [] end.
Definition all_txs (evs : list event) : list tx := flat_map ev_txs evs.
