(* MatchSpec.v — the per-order matching rules of property C05, written once,
   declaratively, independent of the arm-by-arm code in Model/Order.v. *)
From PL Require Export Model.Order.

Inductive family := Plain | IcebergF | ReserveF.

Definition family_of (o : order) : family :=
  match o with
  | Iceberg _ _ _ => IcebergF
  | Reserve _ _ _ _ _ _ => ReserveF
  | _ => Plain
  end.

(* Same order (identity and type parameters) with new quantities. *)
Definition with_quantities (o : order) (v h : N) : order :=
  match o with
  | Standard c _ => Standard c v
  | Iceberg c _ _ => Iceberg c v h
  | PostOnly c _ => PostOnly c v
  | TrailingStop c _ t l => TrailingStop c v t l
  | Pegged c _ off p => Pegged c v off p
  | MarketToLimit c _ => MarketToLimit c v
  | Reserve c _ _ thr a au => Reserve c v h thr a au
  end.

Definition reserve_amount (o : order) : N :=
  match o with
  | Reserve _ _ h _ amt _ =>
      N.min (match amt with Some a => a | None => 80 end) h
  | _ => 0
  end.

Definition reserve_threshold (o : order) : N :=
  match o with
  | Reserve _ _ _ thr _ _ => if thr =? 0 then 1 else thr
  | _ => 0
  end.

Definition reserve_auto (o : order) : bool :=
  match o with Reserve _ _ _ _ _ au => au | _ => false end.

Definition match_spec (o : order) (inc : N) : mres :=
  let consumed := N.min inc (vis o) in
  let remaining := inc - consumed in
  let left := vis o - consumed in              (* display left after the fill *)
  let exhausted := vis o <=? inc in
  let leaves := mkMres consumed None 0 remaining in
  let shrinks := mkMres consumed (Some (with_quantities o left (hid o))) 0 remaining in
  match family_of o with
  | Plain => if exhausted then leaves else shrinks
  | IcebergF =>
      if exhausted then
        if hid o =? 0 then leaves
        else
          let tranche := N.min (hid o) (vis o) in       (* no larger than the exhausted one *)
          mkMres consumed (Some (with_quantities o tranche (hid o - tranche))) tranche remaining
      else shrinks
  | ReserveF =>
      let amt := reserve_amount o in
      let replenish :=
        reserve_auto o && (0 <? hid o) && (exhausted || (left <? reserve_threshold o)) in
      if replenish then
        mkMres consumed (Some (with_quantities o (left + amt) (hid o - amt))) amt remaining
      else if exhausted then leaves else shrinks
  end.
