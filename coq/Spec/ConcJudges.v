(* ConcJudges.v — boolean judges of the CONCURRENT properties, applied to the event log the
   deterministic scheduler records of the IMPLEMENTATION (extracted, run by modelrun
   `JUDGE range|handout|cells …`; C03 re-uses [agg_b] of Spec/Judges.v through `JUDGE agg`).
   Each checker stands next to the Prop it decides; the equivalences and the bridges from the
   property theorems (Properties/C03.v, C08.v, C12.v, used by name) are in
   Proofs/ConcJudgeProofs.v, the statements are pinned in Properties/Tie.v.

   The traces are those of Model/Conc.v: lists of (thread, event). *)
From PL Require Export Spec.Judges.
From PL Require Import Model.Conc Spec.CovSpec.
Local Open Scope N_scope.

(* ------------------------------------------------------------------ *)
(* C12: one row per scheduled step: the quantity [sq] and the number of orders [sn] supplied to
   the level so far, and the three aggregates (visible, hidden, count) read after that step.
   Every aggregate lies in [0, supplied] (0 <= is the type N: the observations are the unsigned
   machine words, a wrapped counter shows as a value near 2^64), and so does visible + hidden:
   the first four conjuncts of the conclusion of C12_counters_bounded / C12_every_prefix. *)
Definition InRange (sq sn cv ch cc : N) : Prop :=
  cv <= sq /\ ch <= sq /\ cv + ch <= sq /\ cc <= sn.

Definition in_range_b (sq sn cv ch cc : N) : bool :=
  (cv <=? sq) && (ch <=? sq) && (cv + ch <=? sq) && (cc <=? sn).

Definition row : Type := (N * N) * (N * N * N).

Definition RowOK (r : row) : Prop :=
  let '((sq, sn), (cv, ch, cc)) := r in InRange sq sn cv ch cc.
Definition row_ok_b (r : row) : bool :=
  let '((sq, sn), (cv, ch, cc)) := r in in_range_b sq sn cv ch cc.

Definition RangeOK (rows : list row) : Prop := Forall RowOK rows.
Definition range_b (rows : list row) : bool := forallb row_ok_b rows.

(* ------------------------------------------------------------------ *)
(* C08, handed out at most once.  [live]: the ids of the orders in the map (initially: of the
   resting orders).  An insert makes its id live, a successful remove must find its id live and
   takes it out.  Unsuccessful removes, gets and all other events do not matter. *)
Definition mem_oid (k : oid) (l : list oid) : bool := existsb (oid_eqb k) l.
Definition drop_oid (k : oid) (l : list oid) : list oid := filter (fun x => negb (oid_eqb k x)) l.

Definition live_step (live : list oid) (e : ev) : list oid :=
  match e with
  | EInsert o => oid_of o :: live
  | ERemove k (Some _) => drop_oid k live
  | _ => live
  end.

Definition handout_ok_b (live : list oid) (e : ev) : bool :=
  match e with
  | ERemove k (Some _) => mem_oid k live
  | _ => true
  end.

Fixpoint handout_b (live : list oid) (tr : list (nat * ev)) : bool :=
  match tr with
  | [] => true
  | (_, e) :: tr' => handout_ok_b live e && handout_b (live_step live e) tr'
  end.

(* The statement: (1) the conclusion of C08_no_double_handout — between two successful removes
   of id k an order with id k was inserted; (2) that of C08_handout_is_initial — an order that
   is handed out was inserted before, or was resting initially. *)
Definition HandoutOnce (init : list oid) (tr : list (nat * ev)) : Prop :=
  (forall k t1 i o1 t2 j o2 t3,
      tr = t1 ++ (i, ERemove k (Some o1)) :: t2 ++ (j, ERemove k (Some o2)) :: t3 ->
      inserts k t2) /\
  (forall k t1 j o t2,
      tr = t1 ++ (j, ERemove k (Some o)) :: t2 ->
      inserts k t1 \/ In k init).

(* ------------------------------------------------------------------ *)
(* C08, the map cell of every id (the conclusion of C08_trace_cell for all ids at once):
   replay the map along the trace from the listing [m] of the resting orders; every remove / get
   of an id observes exactly what the replayed map holds under that id ([cells_b]), and the
   listing at quiescence is the replayed map ([final_cells_b], as finite maps id -> order). *)
Definition map_step (m : list order) (e : ev) : list order :=
  match e with
  | EInsert o => upsert o m
  | ERemove k _ => remove_key k m
  | _ => m
  end.

Definition replay_map (m : list order) (tr : list (nat * ev)) : list order :=
  fold_left map_step (map snd tr) m.

Definition obs_ok_b (m : list order) (e : ev) : bool :=
  match e with
  | ERemove k r | EGet k r => oo_eqb r (lookup k m)
  | _ => true
  end.

Fixpoint cells_b (m : list order) (tr : list (nat * ev)) : bool :=
  match tr with
  | [] => true
  | (_, e) :: tr' => obs_ok_b m e && cells_b (map_step m e) tr'
  end.

Definition CellsOK (m : list order) (tr : list (nat * ev)) : Prop :=
  forall k, trace_ok k (lookup k m) tr.

Definition FinalCells (m : list order) (tr : list (nat * ev)) (fin : list order) : Prop :=
  forall k, lookup k fin = cell_after k (lookup k m) tr.

Definition final_cells_b (m : list order) (tr : list (nat * ev)) (fin : list order) : bool :=
  same_book_b fin (replay_map m tr).

(* ------------------------------------------------------------------ *)
(* C08, the draining match issued after all threads have returned: a match that comes back with
   quantity remaining leaves nothing that displays quantity (the conclusion of
   C08_drain_after_quiescence), and the aggregates it leaves describe exactly what remains
   (Agg, kept by match_order: C01_match from the level that C03_quiescent_aggregates /
   C08_quiescent_wfqueue / C12_counters_bounded describe at quiescence). *)
Definition Drained (remaining : N) (after : list order) (cv ch cc : N) : Prop :=
  (0 < remaining -> forall o, In o after -> vis o = 0) /\
  cv = sumv after /\ ch = sumh after /\ cc = N.of_nat (length after).

Definition drained_b (remaining : N) (after : list order) (cv ch cc : N) : bool :=
  ((remaining =? 0) || forallb (fun o => vis o =? 0) after) && agg_b cv ch cc after.
