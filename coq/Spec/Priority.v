(* Priority.v — the documented time-priority discipline (property C04) as an
   ideal level whose queue is a plain list in priority order (head trades
   first).  Same per-order function [mf], same updates, same outputs; only the
   queue discipline is idealised:
     * add appends at the back (also for an id that was cancelled earlier);
     * cancel / price move deletes the entry;
     * a same-price amend rewrites the entry in place;
     * a partially filled, unreplenished maker keeps its place;
     * an order with nothing displayed is passed over and keeps its place;
     * a maker whose display was replenished from hidden quantity moves to the back.
   The concrete queue (map + ticket list) is compared with this ideal. *)
From PL Require Export Spec.Hist.
Local Open Scope N_scope.

Record ilevel := mkIlevel { iprice : N; iorders : list order }.

Definition inew (p : N) : ilevel := mkIlevel p [].
Definition iadd (l : ilevel) (o : order) : ilevel := mkIlevel (iprice l) (iorders l ++ [o]).

Fixpoint replace_id (k : oid) (n : order) (m : list order) : list order :=
  match m with
  | [] => []
  | o :: m' => if oid_eqb k (oid_of o) then n :: m' else o :: replace_id k n m'
  end.

Section Ideal.
Variable mf : order -> N -> mres.

(* state of the ideal loop: orders already passed over (keep their place, in
   front), orders still ahead, generator, result, remaining *)
Fixpoint imatch_loop (fuel : nat) (p : N) (taker : oid) (passed rest : list order)
         (gen : N) (res : result) (rem : N) : option (list order * N * result * N) :=
  if rem =? 0 then Some (passed ++ rest, gen, res, rem) else
  match fuel with
  | O => None
  | S f =>
      match rest with
      | [] => Some (passed, gen, res, rem)
      | o :: rest' =>
          let r := mf o rem in
          if (m_consumed r =? 0) && (m_hidden_reduced r =? 0) && is_some (m_updated r) then
            imatch_loop f p taker (passed ++ [o]) rest' gen res rem
          else
            let '(gen1, res1) :=
              if 0 <? m_consumed r then
                let t := mkTx gen taker (oid_of o) p (m_consumed r) (opposite (side_of o)) in
                let res' := add_transaction res t in
                (wadd gen 1, if is_some (m_updated r) then res' else add_filled res' (oid_of o))
              else (gen, res) in
            match m_updated r with
            | None => imatch_loop f p taker passed rest' gen1 res1 (m_remaining r)
            | Some u =>
                if 0 <? m_hidden_reduced r
                then imatch_loop f p taker passed (rest' ++ [u]) gen1 res1 (m_remaining r)
                else imatch_loop f p taker passed (u :: rest') gen1 res1 (m_remaining r)
            end
      end
  end.

Definition imatch (fuel : nat) (l : ilevel) (gen qty : N) (taker : oid)
  : option (ilevel * N * result) :=
  match imatch_loop fuel (iprice l) taker [] (iorders l) gen (result_new taker qty) qty with
  | Some (os, gen', res, rem) =>
      Some (mkIlevel (iprice l) os, gen',
            mkResult (r_taker res) (r_txs res) rem (rem =? 0) (r_filled res))
  | None => None
  end.

End Ideal.

Definition itake_out (l : ilevel) (k : oid) : ilevel * uout :=
  match lookup k (iorders l) with
  | Some o => (mkIlevel (iprice l) (remove_key k (iorders l)), UOk (Some o))
  | None => (l, UOk None)
  end.

Definition iamend (l : ilevel) (k : oid) (nq : N) : ilevel * uout :=
  match lookup k (iorders l) with
  | Some old =>
      let new := with_reduced_quantity old nq in
      (mkIlevel (iprice l) (replace_id k new (iorders l)), UOk (Some new))
  | None => (l, UOk None)
  end.

Definition iupdate (l : ilevel) (u : update) : ilevel * uout :=
  match u with
  | UpdatePrice k np => if np =? iprice l then (l, UErr) else itake_out l k
  | UpdateQuantity k nq => iamend l k nq
  | UpdatePriceAndQuantity k np nq => if np =? iprice l then iamend l k nq else itake_out l k
  | Cancel k => itake_out l k
  | Replace k p q _ => if p =? iprice l then iamend l k q else itake_out l k
  end.

(* The pop order of a concrete queue: the first outstanding ticket of each live id. *)
Fixpoint pop_order (m : list order) (t : list oid) : list oid :=
  match t with
  | [] => []
  | k :: t' =>
      match lookup k m with
      | Some _ => k :: pop_order (remove_key k m) t'
      | None => pop_order m t'
      end
  end.

Definition abs (q : queue) : list oid := pop_order (qmap q) (tickets q).

(* Alignment of a concrete level with an ideal one. *)
Definition same_orders (l : level) (il : ilevel) : Prop :=
  price l = iprice il /\ NoDup (ids (iorders il)) /\
  forall k, lookup k (resting l) = lookup k (iorders il).

Definition live_tickets (q : queue) : list oid :=
  filter (fun k => is_some (lookup k (qmap q))) (tickets q).

(* weak: the pop order is the ideal priority order *)
Definition Aligned (l : level) (il : ilevel) : Prop :=
  same_orders l il /\ abs (lq l) = ids (iorders il).

(* strong: moreover no live id has two outstanding tickets (so a re-push after a
   pop really lands at the back) *)
Definition AlignedStrong (l : level) (il : ilevel) : Prop :=
  Aligned l il /\ NoDup (live_tickets (lq l)).

(* Known deviations of the concrete queue from the ideal (findings K1, K2):
   K1 — a maker that survives a visit without being replenished (partial fill),
        or is passed over because it displays nothing, is re-queued at the TAIL;
   K2 — an id pushed while one of its tickets is still outstanding takes that
        ticket's position instead of the back. *)
Definition K2_add (l : level) (o : order) : Prop := In (oid_of o) (tickets (lq l)).
