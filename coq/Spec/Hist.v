(* Hist.v — single-threaded histories over one price level: operations, the
   big-step transition relation, reachability inside the domain the properties
   quantify over, and the shared vocabulary (sums over the resting orders). *)
From PL Require Export Model.Level Spec.Iface.
From Coq Require Export Permutation.
Local Open Scope N_scope.

(* ---- sums over the resting orders ---- *)
Definition sumv (m : list order) : N := fold_right (fun o a => vis o + a) 0 m.
Definition sumh (m : list order) : N := fold_right (fun o a => hid o + a) 0 m.
Definition resting (l : level) : list order := qmap (lq l).
Definition ids (m : list order) : list oid := map oid_of m.

(* C01: the aggregates describe the resting orders. *)
Definition Agg (l : level) : Prop :=
  cvis l = sumv (resting l) /\ chid l = sumh (resting l) /\ ccnt l = N.of_nat (length (resting l)).

(* "sums that fit in 64 bits" *)
Definition Fits (l : level) : Prop :=
  sumv (resting l) + sumh (resting l) < W /\ N.of_nat (length (resting l)) < W.

(* structural invariants of the queue *)
Definition Covered (q : queue) : Prop := forall o, In o (qmap q) -> In (oid_of o) (tickets q).
Definition WfQueue (q : queue) : Prop := NoDup (ids (qmap q)) /\ Covered q.

(* ---- the per-order interface, as a Prop (Iface.v has the boolean checker) ---- *)
Definition I_cons (mf : order -> N -> mres) : Prop :=
  forall o inc,
    m_consumed (mf o inc) = N.min inc (vis o) /\
    m_remaining (mf o inc) = inc - m_consumed (mf o inc) /\
    match m_updated (mf o inc) with
    | Some u =>
        vis u + hid u + m_consumed (mf o inc) = vis o + hid o /\
        hid u + m_hidden_reduced (mf o inc) = hid o /\
        same_identity o u
    | None => m_hidden_reduced (mf o inc) = 0 /\ vis o <= inc   (* leaves only when exhausted *)
    end.

(* weaker interface, enough for the queue-discipline properties *)
Definition I_id (mf : order -> N -> mres) : Prop :=
  forall o inc u, m_updated (mf o inc) = Some u -> same_identity o u.

(* ---- operations ---- *)
Inductive op :=
| OAdd (o : order)
| OMatch (qty : N) (taker : oid)
| OUpdate (u : update)
| ORebuildSnap (listing : list order)  (* from_snapshot, From<&Snapshot>, package, package JSON *)
| ORebuildData (listing : list order)  (* serde via PriceLevelData, Display/FromStr: new + add_order *)
| ORead.                               (* listing, snapshot, display, serialise, statistics *)

Inductive out :=
| OutAdd (o : order)
| OutMatch (r : result)
| OutUpdate (u : uout)
| OutRebuilt
| OutRead (s : snapshot) (st : stats).

(* system state: the level and the transaction-id generator's counter *)
Definition sys : Type := level * N.

(* The listing handed to a rebuild is the level's own listing: some permutation
   of the resting orders, sorted by timestamp (ties in DashMap hash order). *)
Definition ts_sorted (l : list order) : Prop :=
  forall i j oi oj, (i < j)%nat -> nth_error l i = Some oi -> nth_error l j = Some oj -> ts_of oi <= ts_of oj.
Definition listing_of (l : level) (listing : list order) : Prop :=
  Permutation listing (resting l) /\ ts_sorted listing.

Section Steps.
Variable mf : order -> N -> mres.

Inductive step : sys -> op -> sys -> out -> Prop :=
| SAdd l g o :
    step (l, g) (OAdd o) (add_order l o, g) (OutAdd o)
| SMatch l g qty taker fuel l' g' r :
    match_order mf fuel l g qty taker = Some (l', g', r) ->
    step (l, g) (OMatch qty taker) (l', g') (OutMatch r)
| SUpdate l g u l' uo :
    update_order l u = (l', uo) ->
    step (l, g) (OUpdate u) (l', g) (OutUpdate uo)
| SRebuildSnap l g listing :
    listing_of l listing ->
    step (l, g) (ORebuildSnap listing)
         (from_snapshot (mkSnap (price l) (cvis l) (chid l) (ccnt l) listing), g) OutRebuilt
| SRebuildData l g listing :
    listing_of l listing ->
    step (l, g) (ORebuildData listing) (from_data (price l) listing, g) OutRebuilt
| SRead l g :
    step (l, g) ORead (l, g) (OutRead (snapshot_of l) (st l)).

(* side conditions of the quantifier: ids unique among the resting orders,
   64-bit fields, a match request of a 64-bit size *)
Definition ok_op (s : sys) (o : op) : Prop :=
  match o with
  | OAdd x => lookup (oid_of x) (resting (fst s)) = None /\ wf_order x
  | OMatch qty _ => qty < W
  | OUpdate (UpdateQuantity _ nq) | OUpdate (UpdatePriceAndQuantity _ _ nq)
  | OUpdate (Replace _ _ nq _) => nq < W
  | _ => True
  end.

(* histories: [steps s ops s' outs] *)
Inductive steps : sys -> list op -> sys -> list out -> Prop :=
| steps_nil s : steps s [] s []
| steps_cons s o s1 x ops s' outs :
    ok_op s o -> step s o s1 x -> Fits (fst s1) ->
    steps s1 ops s' outs -> steps s (o :: ops) s' (x :: outs).

(* every state a history of the quantified domain can reach from an empty level *)
Definition reachable (s : sys) : Prop :=
  exists p g0 ops outs, p < W /\ steps (new_level p, g0) ops s outs.

End Steps.
