(* QueueSpec.v — the order queue used on its own (property C19): an abstract
   FIFO with lookup and removal by id, the operations a client can call, and
   runs of operation sequences on the concrete queue (Model/Queue.v) and on
   the abstract one. *)
From PL Require Export Spec.Priority.
Local Open Scope N_scope.

(* ---- the abstract FIFO: the queued orders, oldest first ---- *)
Definition fq := list order.

Definition fpush (f : fq) (o : order) : fq := f ++ [o].

Definition fpop (f : fq) : option order * fq :=
  match f with
  | [] => (None, [])
  | o :: f' => (Some o, f')
  end.

Definition has_id (k : oid) (o : order) : bool := oid_eqb k (oid_of o).

Definition ffind (f : fq) (k : oid) : option order := find (has_id k) f.

(* delete the entry with that id and return it *)
Definition fremove (f : fq) (k : oid) : option order * fq :=
  match ffind f k with
  | Some o => (Some o, filter (fun x => negb (has_id k x)) f)
  | None => (None, f)
  end.

Definition flen (f : fq) : N := N.of_nat (length f).
Definition fempty (f : fq) : bool := flen f =? 0.

(* the listing: the queued orders sorted by timestamp.  [sort_ts] is fully
   characterised in Proofs/QueueProofs.v ([sort_ts_perm], [sort_ts_sorted],
   [sort_ts_ties]): a permutation, non-decreasing timestamps, and orders
   with equal timestamps come out in the REVERSE of their order in the input. *)
Definition fvec (f : fq) : list order := sort_ts f.

(* ---- operations and their answers ---- *)
Inductive qop :=
| QPush (o : order)
| QPop
| QFind (k : oid)
| QRemove (k : oid)
| QLen
| QEmpty
| QVec.

Inductive qout :=
| RUnit
| ROrd (r : option order)
| RLen (n : N)
| RBool (b : bool)
| RVec (l : list order).

(* one call on the concrete queue *)
Definition step_q (q : queue) (op : qop) : queue * qout :=
  match op with
  | QPush o => (push q o, RUnit)
  | QPop => let (r, q') := pop q in (q', ROrd r)
  | QFind k => (q, ROrd (qfind q k))
  | QRemove k => let (r, q') := qremove q k in (q', ROrd r)
  | QLen => (q, RLen (qlen q))
  | QEmpty => (q, RBool (qis_empty q))
  | QVec => (q, RVec (to_vec q))
  end.

(* one call on the abstract FIFO *)
Definition step_f (f : fq) (op : qop) : fq * qout :=
  match op with
  | QPush o => (fpush f o, RUnit)
  | QPop => let (r, f') := fpop f in (f', ROrd r)
  | QFind k => (f, ROrd (ffind f k))
  | QRemove k => let (r, f') := fremove f k in (f', ROrd r)
  | QLen => (f, RLen (flen f))
  | QEmpty => (f, RBool (fempty f))
  | QVec => (f, RVec (fvec f))
  end.

(* the answers of a sequence of calls *)
Fixpoint run_q (q : queue) (ops : list qop) : list qout :=
  match ops with
  | [] => []
  | op :: ops' => snd (step_q q op) :: run_q (fst (step_q q op)) ops'
  end.

Fixpoint run_f (f : fq) (ops : list qop) : list qout :=
  match ops with
  | [] => []
  | op :: ops' => snd (step_f f op) :: run_f (fst (step_f f op)) ops'
  end.

(* the state after a sequence of calls *)
Definition exec_q (q : queue) (ops : list qop) : queue :=
  fold_left (fun q op => fst (step_q q op)) ops q.
Definition exec_f (f : fq) (ops : list qop) : fq :=
  fold_left (fun f op => fst (step_f f op)) ops f.

Definition reachable_q (q : queue) : Prop := exists ops, q = exec_q empty_queue ops.

(* ---- the history of a run: calls paired with their answers ---- *)
Definition trace_q (q : queue) (ops : list qop) : list (qop * qout) := combine ops (run_q q ops).

(* What a history says about id [k]: the order last pushed with id [k], unless
   it was handed out by a pop or removed by id since. *)
Definition track (k : oid) (cur : option order) (ev : qop * qout) : option order :=
  match ev with
  | (QPush o, _) => if oid_eqb k (oid_of o) then Some o else cur
  | (QPop, ROrd (Some o)) => if oid_eqb k (oid_of o) then None else cur
  | (QRemove k', _) => if oid_eqb k k' then None else cur
  | _ => cur
  end.
Definition last_pushed (k : oid) (h : list (qop * qout)) : option order :=
  fold_left (track k) h None.

(* ---- freshness of pushes ----
   A push of [o] is fresh in [q] when the id of [o] has no outstanding ticket:
   it was never pushed, or every ticket issued for it has been consumed by pops. *)
Definition fresh (q : queue) (o : order) : Prop := ~ In (oid_of o) (tickets q).

Fixpoint all_fresh (q : queue) (ops : list qop) : Prop :=
  match ops with
  | [] => True
  | op :: ops' =>
      match op with QPush o => fresh q o | _ => True end /\
      all_fresh (fst (step_q q op)) ops'
  end.

(* The same condition read off the abstract run only (sufficient, not
   necessary): an id may be pushed if it is not "busy"; an id becomes busy when
   pushed and stops being busy when a pop hands it out.  Removal by id leaves
   it busy. *)
Definition drop_id (k : oid) (l : list oid) : list oid := filter (fun x => negb (oid_eqb k x)) l.

Definition busy_after (busy : list oid) (op : qop) (r : qout) : list oid :=
  match op, r with
  | QPush o, _ => oid_of o :: busy
  | QPop, ROrd (Some o) => drop_id (oid_of o) busy
  | _, _ => busy
  end.

Fixpoint push_ok (f : fq) (busy : list oid) (ops : list qop) : Prop :=
  match ops with
  | [] => True
  | op :: ops' =>
      match op with QPush o => ~ In (oid_of o) busy | _ => True end /\
      push_ok (fst (step_f f op)) (busy_after busy op (snd (step_f f op))) ops'
  end.

Definition pushed_ids (ops : list qop) : list oid :=
  flat_map (fun op => match op with QPush o => [oid_of o] | _ => [] end) ops.

(* ---- draining a queue by repeated pops ---- *)
Fixpoint pop_all (fuel : nat) (q : queue) : list order :=
  match fuel with
  | O => []
  | S n => match pop q with
           | (Some o, q') => o :: pop_all n q'
           | (None, _) => []
           end
  end.
(* one pop per ticket is always enough *)
Definition drain (q : queue) : list order := pop_all (length (tickets q)) q.

(* timestamps non-decreasing *)
Definition le_ts (a b : order) : Prop := ts_of a <= ts_of b.

(* several keys removed from a map *)
Definition remove_keys (ks : list oid) (m : list order) : list order :=
  fold_left (fun m k => remove_key k m) ks m.

(* The quantifier of C19 read literally: "ids pushed once or re-pushed after
   removal" — every push happens when its id is not queued (never pushed, or
   popped / removed by id since).  This is WEAKER than [push_ok]: an id removed
   by id is not queued but may still have an outstanding ticket (finding K2). *)
Fixpoint push_absent (f : fq) (ops : list qop) : Prop :=
  match ops with
  | [] => True
  | op :: ops' =>
      match op with QPush o => ffind f (oid_of o) = None | _ => True end /\
      push_absent (fst (step_f f op)) ops'
  end.
