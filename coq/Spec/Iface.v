(* Iface.v — boolean checker for the interface [I_cons] that level-level
   theorems assume of the per-order matching function.  The correspondence
   run applies it to every answer of the implementation's match_against. *)
From PL Require Export Model.Order.
Local Open Scope N_scope.

Definition common_eq_b := common_eqb.

Definition same_identity_b (a b : order) : bool :=
  match a, b with
  | Standard c _, Standard c' _ => common_eqb c c'
  | Iceberg c _ _, Iceberg c' _ _ => common_eqb c c'
  | PostOnly c _, PostOnly c' _ => common_eqb c c'
  | TrailingStop c _ t l, TrailingStop c' _ t' l' => common_eqb c c' && (t =? t') && (l =? l')
  | Pegged c _ o p, Pegged c' _ o' p' => common_eqb c c' && Z.eqb o o' && peg_eqb p p'
  | MarketToLimit c _, MarketToLimit c' _ => common_eqb c c'
  | Reserve c _ _ t a au, Reserve c' _ _ t' a' au' =>
      common_eqb c c' && (t =? t') && option_eqb N.eqb a a' && Bool.eqb au au'
  | _, _ => false
  end.

Definition i_cons_b (o : order) (inc : N) (r : mres) : bool :=
  (m_consumed r =? N.min inc (vis o)) &&
  (m_remaining r =? inc - m_consumed r) &&
  match m_updated r with
  | Some u =>
      (vis u + hid u + m_consumed r =? vis o + hid o) &&
      (hid u + m_hidden_reduced r =? hid o) &&
      same_identity_b o u
  | None => (m_hidden_reduced r =? 0) && (vis o <=? inc)
  end.
