(* CovSpec.v — vocabulary of properties C08 (no order stranded or duplicated
   under concurrency) and C13 (cancel / amend acknowledgements stay truthful)
   over the interleaving model of Model/Conc.v.  Definitions only. *)
From PL Require Export Model.Conc Spec.Hist Spec.Priority.
Local Open Scope N_scope.

(* ------------------------------------------------------------------ *)
(* Initial configurations: a level, a generator value, one program per
   thread; every thread stands at the first shared operation of its first call. *)
Definition init_config (l : level) (gen : N) (progs : list (list call)) : config :=
  mkConfig (shared_of_level l gen) (map (thread_init (price l)) progs).

(* the level a configuration's shared memory describes *)
Definition level_of_config (c : config) : level := level_of_shared (cf_sh c).

(* ------------------------------------------------------------------ *)
(* C08, coverage.  A thread is between the two halves of a queue operation:
   [ins_pending p k] — between the map insert of an order with id k and the
   ticket append (push); [rem_pending p k] — between taking a ticket for k and
   trying the map remove (pop). *)
Definition ins_pending (p : pc) (k : oid) : Prop :=
  match p with
  | A6 o => oid_of o = k
  | M13 _ _ u => oid_of u = k
  | F2 _ o _ => oid_of o = k
  | U6 new => oid_of new = k
  | _ => False
  end.

Definition rem_pending (p : pc) (k : oid) : Prop :=
  match p with
  | M2 _ k' => k' = k
  | _ => False
  end.

Definition pending (p : pc) (k : oid) : Prop := ins_pending p k \/ rem_pending p k.

(* Every order in the map has a ticket, or a thread is about to append one,
   or a thread has just taken one and is about to try the remove. *)
Definition Cov (c : config) : Prop :=
  forall x, In x (sh_map (cf_sh c)) ->
    In (oid_of x) (sh_tk (cf_sh c)) \/
    exists i t, nth_error (cf_threads c) i = Some t /\ pending (th_pc t) (oid_of x).

(* ------------------------------------------------------------------ *)
(* C08, handed out exactly once: replay of the map cell of one id along a trace. *)
Definition track (k : oid) (cur : option order) (e : ev) : option order :=
  match e with
  | EInsert o => if oid_eqb k (oid_of o) then Some o else cur
  | ERemove k' _ => if oid_eqb k k' then None else cur
  | _ => cur
  end.

(* what a remove / get of id k must observe when the cell holds [cur] *)
Definition ev_ok (k : oid) (cur : option order) (e : ev) : Prop :=
  match e with
  | ERemove k' r => k' = k -> r = cur
  | EGet k' r => k' = k -> r = cur
  | _ => True
  end.

Fixpoint trace_ok (k : oid) (cur : option order) (tr : list (nat * ev)) : Prop :=
  match tr with
  | [] => True
  | (_, e) :: tr' => ev_ok k cur e /\ trace_ok k (track k cur e) tr'
  end.

Definition cell_after (k : oid) (cur : option order) (tr : list (nat * ev)) : option order :=
  fold_left (track k) (map snd tr) cur.

(* an insert of an order with id k occurs in the trace segment *)
Definition inserts (k : oid) (tr : list (nat * ev)) : Prop :=
  exists i o, In (i, EInsert o) tr /\ oid_of o = k.

(* ------------------------------------------------------------------ *)
(* C13.  [held_ids p]: ids of the orders the thread at [p] holds OUT of the map
   and will put back (a maker with a remainder between M2 and M12, an amended
   order between U2 and U5, set-aside makers until the epilogue re-queues them). *)
Definition aside_ids (ml : mloc) : list oid := ids (ml_aside ml).

Definition held_ids (p : pc) : list oid :=
  match p with
  | M3 ml o r | M4 ml o r | M5 ml o r | M6 ml o r | M7 ml o r =>
      (if is_some (m_updated r) then [oid_of o] else []) ++ aside_ids ml
  | M10 ml o _ _ | M11 ml o _ _ => oid_of o :: aside_ids ml
  | M12 ml _ u => oid_of u :: aside_ids ml
  | M1 ml | M2 ml _ | M13 ml _ _ | M14 ml _ _ | M15 ml _ _ => aside_ids ml
  | F1 _ o rest => oid_of o :: ids rest
  | F2 _ _ rest => ids rest
  | U3 _ new | U4 _ new | U5 new => [oid_of new]
  | _ => []
  end.

Definition holds (p : pc) (k : oid) : Prop := In k (held_ids p).

Definition held_by (c : config) (j : nat) (k : oid) : Prop :=
  exists t, nth_error (cf_threads c) j = Some t /\ holds (th_pc t) k.

(* the order with id k is in the book: resting in the map, or held by a thread
   that will put it back *)
Definition in_book (c : config) (k : oid) : Prop :=
  lookup k (sh_map (cf_sh c)) <> None \/ exists j, held_by c j k.

(* thread i is at the lookup of a cancel / amend of id k and that very step
   answers not-found *)
Definition at_lookup (p : pc) (k : oid) : Prop :=
  p = C1 k \/ (exists nq, p = U1 k nq) \/ (exists nq, p = U2 k nq).

Definition answers_notfound (mf : order -> N -> mres) (c : config) (i : nat) (k : oid) : Prop :=
  exists t s' e, nth_error (cf_threads c) i = Some t /\ at_lookup (th_pc t) k /\
    tstep mf (th_pc t) (cf_sh c) = Some (Done (RetUpd (UOk None)), s', e).

(* ------------------------------------------------------------------ *)
(* C13, ownership.  [owned p]: ids of the orders the thread at [p] has in its
   hands and that are not in the map: everything held, a maker being executed
   even if it will be dropped (M3..M7), and an order being added before its map
   insert (A1..A5). *)
Definition owned (p : pc) : list oid :=
  match p with
  | A1 o | A2 o | A3 o | A4 o | A5 o => [oid_of o]
  | M3 ml o _ | M4 ml o _ | M5 ml o _ | M6 ml o _ | M7 ml o _ => oid_of o :: aside_ids ml
  | M10 ml o _ _ | M11 ml o _ _ => oid_of o :: aside_ids ml
  | M12 ml _ u => oid_of u :: aside_ids ml
  | M1 ml | M2 ml _ | M13 ml _ _ | M14 ml _ _ | M15 ml _ _ => aside_ids ml
  | F1 _ o rest => oid_of o :: ids rest
  | F2 _ _ rest => ids rest
  | U3 _ new | U4 _ new | U5 new => [oid_of new]
  | _ => []
  end.

(* ids of the orders the rest of a thread's program will add *)
Definition add_id (c : call) : list oid :=
  match c with CAdd o => [oid_of o] | _ => [] end.
Definition todo_adds (cs : list call) : list oid := flat_map add_id cs.

Definition thread_ids (t : thread) : list oid := owned (th_pc t) ++ todo_adds (th_todo t).

Definition disjoint (a b : list oid) : Prop := forall k, In k a -> In k b -> False.

(* Ownership uniqueness: ids in the map, ids in the hands of threads and ids
   still to be added are pairwise distinct. *)
Definition Own (c : config) : Prop :=
  NoDup (ids (sh_map (cf_sh c))) /\
  (forall i t, nth_error (cf_threads c) i = Some t ->
     NoDup (thread_ids t) /\ disjoint (thread_ids t) (ids (sh_map (cf_sh c)))) /\
  (forall i j ti tj, i <> j ->
     nth_error (cf_threads c) i = Some ti -> nth_error (cf_threads c) j = Some tj ->
     disjoint (thread_ids ti) (thread_ids tj)).

(* well-formedness of the initial configuration: the resting ids are unique and
   every CAdd of the programs brings an id used nowhere else *)
Definition FreshAdds (l : level) (progs : list (list call)) : Prop :=
  NoDup (ids (resting l) ++ flat_map todo_adds progs).

(* local consistency of a program point: the remainder a matcher will put back
   carries the id of the maker it took out (follows from [I_id mf]) *)
Definition pc_ok (p : pc) : Prop :=
  match p with
  | M3 _ o r | M4 _ o r | M5 _ o r | M6 _ o r | M7 _ o r =>
      forall u, m_updated r = Some u -> oid_of u = oid_of o
  | M10 _ o _ u | M11 _ o _ u => oid_of u = oid_of o
  | _ => True
  end.

Definition PcOk (c : config) : Prop :=
  forall i t, nth_error (cf_threads c) i = Some t -> pc_ok (th_pc t).

(* id k is free: not in the map and in nobody's hands *)
Definition Free (c : config) (k : oid) : Prop :=
  lookup k (sh_map (cf_sh c)) = None /\
  forall j t, nth_error (cf_threads c) j = Some t -> ~ In k (owned (th_pc t)).

(* no remaining call adds id k *)
Definition NoAdd (c : config) (k : oid) : Prop :=
  forall j t, nth_error (cf_threads c) j = Some t -> ~ In k (todo_adds (th_todo t)).

(* the maker an M4 step (transaction creation) names *)
Definition maker_at (p : pc) : option oid :=
  match p with M4 _ o _ => Some (oid_of o) | _ => None end.

(* events that would hand the order with id k to someone *)
Definition touches (k : oid) (e : ev) : Prop :=
  match e with
  | EInsert o => oid_of o = k
  | ERemove k' (Some _) => k' = k
  | EGet k' (Some _) => k' = k
  | _ => False
  end.
