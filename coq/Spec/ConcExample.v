(* ConcExample.v — a concrete two-thread program, used by the non-vacuity
   Examples of Properties/C03, C12, C14, C15conc.  Definitions only. *)
From PL Require Export Spec.ConcSpec.
Local Open Scope N_scope.

Definition ex_com (i p ts : N) : common := mkCommon (Uuid i) p Sell ts Gtc.

(* a level at price 100 holding a Standard, a non-replenishing Reserve and an Iceberg order *)
Definition ex_level : level :=
  from_data 100 [Standard (ex_com 1 100 1) 10;
                 Reserve (ex_com 3 100 2) 4 6 0 None false;
                 Iceberg (ex_com 2 100 3) 5 7].

(* thread 0 adds, cancels, reads, draws an id; thread 1 matches, amends, reads, draws an id *)
Definition ex_progs : list (list call) :=
  [ [CAdd (Standard (ex_com 4 100 4) 8); CUpdate (Cancel (Uuid 2)); CReadVis; CNext];
    [CMatch 16 (Uuid 99); CUpdate (UpdateQuantity (Uuid 4) 3); CReadCnt; CNext] ].

(* one step of thread 0, two of thread 1, repeated *)
Definition ex_sched : list nat := flat_map (fun _ => [0; 1; 1]%nat) (seq 0 40).

Definition ex_c0 : config := init_config ex_level 1000 ex_progs.
