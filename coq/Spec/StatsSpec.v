(* StatsSpec.v — what the statistics of a level should report (C15), as functions
   of the observable history: the list of (operation, outcome) pairs.
   All results are true sums in N (no wrapping). *)
From PL Require Export Spec.Hist.
Local Open Scope N_scope.

Definition event : Type := op * out.
Definition hist : Type := list event.

(* a rebuild creates a fresh level object with fresh statistics *)
Definition is_rebuild (o : op) : bool :=
  match o with ORebuildSnap _ | ORebuildData _ => true | _ => false end.
Definition no_rebuild (ops : list op) : bool := forallb (fun o => negb (is_rebuild o)) ops.

(* ---- orders added ---- *)
Definition ev_added (e : event) : N := match e with (OAdd _, _) => 1 | _ => 0 end.
Definition n_added (h : hist) : N := fold_right (fun e a => ev_added e + a) 0 h.

(* ---- orders removed by a cancel or a price move (not by a same-price amend, not by a fill) ---- *)
Definition is_removal (p : N) (u : update) : bool :=
  match u with
  | Cancel _ => true
  | UpdatePrice _ np => negb (np =? p)
  | UpdatePriceAndQuantity _ np _ => negb (np =? p)
  | Replace _ np _ _ => negb (np =? p)
  | UpdateQuantity _ _ => false
  end.
Definition ev_removed (p : N) (e : event) : N :=
  match e with
  | (OUpdate u, OutUpdate (UOk (Some _))) => if is_removal p u then 1 else 0
  | _ => 0
  end.
Definition n_removed (p : N) (h : hist) : N := fold_right (fun e a => ev_removed p e + a) 0 h.

(* ---- quantity executed: the sum of all transaction quantities ---- *)
Definition sum_txq (txs : list tx) : N := fold_right (fun t a => tx_qty t + a) 0 txs.
Definition ev_qty (e : event) : N :=
  match e with (OMatch _ _, OutMatch r) => sum_txq (r_txs r) | _ => 0 end.
Definition qty_executed (h : hist) : N := fold_right (fun e a => ev_qty e + a) 0 h.

(* number of transactions *)
Definition ev_ntx (e : event) : N :=
  match e with (OMatch _ _, OutMatch r) => N.of_nat (length (r_txs r)) | _ => 0 end.
Definition n_tx (h : hist) : N := fold_right (fun e a => ev_ntx e + a) 0 h.

(* ---- value executed: each transaction quantity times the price carried by
   the maker order.  The price of the order resting under an id is the price of
   the most recently added order with that id. ---- *)
Definition upd_price (pm : oid -> N) (o : order) : oid -> N :=
  fun k => if oid_eqb k (oid_of o) then price_of o else pm k.
Definition sum_txv (pm : oid -> N) (txs : list tx) : N :=
  fold_right (fun t a => tx_qty t * pm (tx_maker t) + a) 0 txs.
Definition ev_value (pm : oid -> N) (e : event) : N :=
  match e with (OMatch _ _, OutMatch r) => sum_txv pm (r_txs r) | _ => 0 end.
Definition ev_pm (pm : oid -> N) (e : event) : oid -> N :=
  match e with (OAdd o, _) => upd_price pm o | _ => pm end.
Fixpoint value_executed (pm : oid -> N) (h : hist) : N :=
  match h with
  | [] => 0
  | e :: h' => ev_value pm e + value_executed (ev_pm pm e) h'
  end.

(* every order handed to add_order carries the level's price *)
Definition all_added_at (p : N) (ops : list op) : Prop :=
  forall o, In (OAdd o) ops -> price_of o = p.

(* every transaction reported carries the level's price *)
Definition ev_tx_price (p : N) (e : event) : Prop :=
  match e with (_, OutMatch r) => Forall (fun t => tx_price t = p) (r_txs r) | _ => True end.

(* ------------------------------------------------------------------ *)
(* Histories WITH rebuilds.  A rebuild (from the level's own snapshot or serialized form)
   creates a new level object with fresh statistics, so at any point the statistics
   describe the events SINCE THE LAST REBUILD, on top of what that rebuild itself recorded:
   nothing for [ORebuildSnap] (from_snapshot starts at zero), one [add_order] per listed
   order for [ORebuildData] (from_data = new + add_order for each listed order).
   The three functions below cut a history at its last rebuild event:
       h = before_rebuild h ++ since_rebuild h,
   [since_rebuild h] contains no rebuild, [before_rebuild h] is empty or ends with the last
   rebuild event (Proofs/StatsRebuildProofs.v: cut_rebuild_app, since_rebuild_clean,
   before_rebuild_last; without a rebuild [since_rebuild h = h] and [rebuild_base h = 0]). *)
Definition ev_rebuild (e : event) : bool := is_rebuild (fst e).
Definition has_rebuild (h : hist) : bool := existsb ev_rebuild h.

(* the events after the last rebuild (the whole history when there is none) *)
Fixpoint since_rebuild (h : hist) : hist :=
  match h with
  | [] => []
  | e :: h' => if has_rebuild h' then since_rebuild h' else if ev_rebuild e then h' else e :: h'
  end.

(* the events up to and including the last rebuild (empty when there is none) *)
Fixpoint before_rebuild (h : hist) : hist :=
  match h with
  | [] => []
  | e :: h' => if has_rebuild h' then e :: before_rebuild h' else if ev_rebuild e then [e] else []
  end.

(* the number of orders a rebuild operation hands to add_order *)
Definition op_readded (o : op) : N :=
  match o with ORebuildData listing => N.of_nat (length listing) | _ => 0 end.

(* what the LAST rebuild of the history recorded as "orders added" (0 when there is none) *)
Fixpoint rebuild_base (h : hist) : N :=
  match h with
  | [] => 0
  | e :: h' => if has_rebuild h' then rebuild_base h' else op_readded (fst e)
  end.

(* the id -> price map after a stretch of history (rebuilds keep the resting orders, hence the map) *)
Definition pm_after (pm : oid -> N) (h : hist) : oid -> N := fold_left ev_pm h pm.
