(* ConcSpec.v — vocabulary of the concurrent properties C03 / C12 / C14 / C15
   over the interleaving model of Model/Conc.v.

   For every program point we say what the thread has "in hand": quantity that
   the three shared counters count although it is not (yet / any more) in the
   map ([pendv], [pendh], [pendc]); which order ids it holds ([held]) or will
   insert as a new order ([fut]); how much quantity it may still put under the
   counters ([budget], an upper bound of the pending quantity that never grows
   along a step); and which facts about a computed [mres] it relies on
   ([pc_ok]).  The invariant J, the id discipline K and the domain bound are
   sums of these over the threads of a configuration. *)
From PL Require Export Model.Conc Spec.Hist.
Local Open Scope N_scope.

(* ---- sums ---- *)
Definition tot (o : order) : N := vis o + hid o.
Definition sumt (m : list order) : N := sumv m + sumh m.
Definition lenN (m : list order) : N := N.of_nat (length m).

Definition tsum {A} (f : A -> N) (l : list A) : N := fold_right (fun t a => f t + a) 0 l.

(* multiplicity of an id in a list of ids / among the keys of a list of orders *)
Definition one (x y : oid) : N := if oid_eqb x y then 1 else 0.
Fixpoint cnt (x : oid) (l : list oid) : N :=
  match l with [] => 0 | y :: l' => one x y + cnt x l' end.
Definition idc (x : oid) (m : list order) : N := cnt x (ids m).

(* ---- what a program point has in hand ---- *)

(* the set-aside orders a matcher carries (not in the map, still counted) *)
Definition asd (p : pc) : list order :=
  match p with
  | M1 ml | M2 ml _ | M3 ml _ _ | M4 ml _ _ | M5 ml _ _ | M6 ml _ _ | M7 ml _ _
  | M10 ml _ _ _ | M11 ml _ _ _ | M12 ml _ _ | M13 ml _ _ | M14 ml _ _ | M15 ml _ _ => ml_aside ml
  | F1 _ o rest => o :: rest
  | F2 _ _ rest => rest
  | _ => []
  end.

(* the order being worked on: displayed quantity counted by [visible] *)
Definition ownv (p : pc) : N :=
  match p with
  | A2 o | A3 o | A4 o | A5 o => vis o
  | M3 _ o _ => vis o
  | M4 _ o r | M5 _ o r | M6 _ o r | M7 _ o r | M10 _ o r _ | M11 _ o r _ => vis o - m_consumed r
  | M12 _ _ u => vis u
  | C2 o => vis o
  | U3 old _ => vis old
  | U4 _ new | U5 new => vis new
  | _ => 0
  end.

(* ... hidden quantity counted by [hidden] *)
Definition ownh (p : pc) : N :=
  match p with
  | A3 o | A4 o | A5 o => hid o
  | M3 _ o _ | M4 _ o _ | M5 _ o _ | M6 _ o _ | M7 _ o _ | M10 _ o _ _ => hid o
  | M11 _ o r _ => hid o - m_hidden_reduced r
  | M12 _ _ u => hid u
  | M14 _ o _ | M15 _ o _ => hid o
  | C2 o | C3 o => hid o
  | U3 old _ | U4 old _ => hid old
  | U5 new => hid new
  | _ => 0
  end.

(* ... counted by [order_count] *)
Definition ownc (p : pc) : N :=
  match p with
  | A4 _ | A5 _ => 1
  | M3 _ _ _ | M4 _ _ _ | M5 _ _ _ | M6 _ _ _ | M7 _ _ _ | M10 _ _ _ _ | M11 _ _ _ _
  | M12 _ _ _ | M14 _ _ _ => 1
  | C2 _ | C3 _ | C4 _ => 1
  | U3 _ _ | U4 _ _ | U5 _ => 1
  | _ => 0
  end.

Definition pendv (p : pc) : N := sumv (asd p) + ownv p.
Definition pendh (p : pc) : N := sumh (asd p) + ownh p.
Definition pendc (p : pc) : N := lenN (asd p) + ownc p.

(* Quantity the call at [p] may still put under the two quantity counters: an
   upper bound of [ownv + ownh] that no step increases. *)
Definition ownb (p : pc) : N :=
  match p with
  | A1 o | A2 o | A3 o | A4 o | A5 o => tot o
  | M3 _ o _ => tot o
  | M4 _ o r | M5 _ o r | M6 _ o r | M7 _ o r | M10 _ o r _ | M11 _ o r _ =>
      (vis o - m_consumed r) + hid o
  | M12 _ _ u => tot u
  | M14 _ o _ | M15 _ o _ => hid o
  | C2 o | C3 o | C4 o | C5 o => tot o
  | U1 _ nq | U2 _ nq => nq
  | U3 old new => vis old + vis new + N.max (hid old) (hid new)
  | U4 old new => vis new + N.max (hid old) (hid new)
  | U5 new => tot new
  | _ => 0
  end.
Definition budget (p : pc) : N := sumt (asd p) + ownb p.

(* ... and orders it may still put under [order_count]; a cancel that has lowered
   the count but not yet recorded the removal (C5) keeps its unit, so that
   [orders removed so far] + this bound never grows either *)
Definition ownbc (p : pc) : N :=
  match p with
  | A1 _ | A2 _ | A3 _ => 1
  | C5 _ => 1
  | _ => ownc p
  end.
Definition bc (p : pc) : N := lenN (asd p) + ownbc p.

(* ids of orders in hand that will be re-inserted *)
Definition ownid (p : pc) : list oid :=
  match p with
  | M3 _ o _ | M4 _ o _ | M5 _ o _ | M6 _ o _ | M7 _ o _ | M10 _ o _ _ | M11 _ o _ _
  | M14 _ o _ => [oid_of o]
  | M12 _ _ u => [oid_of u]
  | U3 _ new | U4 _ new | U5 new => [oid_of new]
  | _ => []
  end.
Definition held (p : pc) : list oid := ids (asd p) ++ ownid p.

(* id of the new order an add call is about to insert *)
Definition fut (p : pc) : list oid :=
  match p with
  | A1 o | A2 o | A3 o | A4 o | A5 o => [oid_of o]
  | _ => []
  end.
Definition pids (p : pc) : list oid := held p ++ fut p.

(* what the later program points rely on about the answer [r] of the per-order
   function for maker [o] (established from [I_cons] when [r] is computed) *)
Definition rfacts (o : order) (r : mres) : Prop :=
  m_consumed r <= vis o /\
  match m_updated r with
  | Some u =>
      vis u + hid u + m_consumed r = vis o + hid o /\
      hid u + m_hidden_reduced r = hid o /\
      oid_of u = oid_of o
  | None => m_hidden_reduced r = 0 /\ m_consumed r = vis o
  end.

Definition pc_ok (p : pc) : Prop :=
  match p with
  | M3 _ o r | M4 _ o r | M5 _ o r | M6 _ o r | M7 _ o r => rfacts o r
  | M10 _ o r u | M11 _ o r u => rfacts o r /\ m_updated r = Some u
  | M14 _ o r | M15 _ o r => rfacts o r /\ m_updated r = None
  | _ => True
  end.

(* ---- calls not yet started ---- *)
Definition call_budget (price : N) (c : call) : N :=
  match c with
  | CAdd o => tot o
  | CUpdate (UpdateQuantity _ nq) => nq
  | CUpdate (UpdatePriceAndQuantity _ np nq) => if np =? price then nq else 0
  | CUpdate (Replace _ p q _) => if p =? price then q else 0
  | _ => 0
  end.
Definition call_bc (c : call) : N := match c with CAdd _ => 1 | _ => 0 end.
Definition call_ids (c : call) : list oid := match c with CAdd o => [oid_of o] | _ => [] end.

Definition todo_budget (price : N) (cs : list call) : N := tsum (call_budget price) cs.
Definition todo_bc (cs : list call) : N := tsum call_bc cs.
Definition todo_ids (cs : list call) : list oid := concat (map call_ids cs).

(* ---- per thread ---- *)
Definition tbudget (price : N) (t : thread) : N := budget (th_pc t) + todo_budget price (th_todo t).
Definition tbc (t : thread) : N := bc (th_pc t) + todo_bc (th_todo t).
Definition tids (t : thread) : list oid := pids (th_pc t) ++ todo_ids (th_todo t).

(* ---- per configuration ---- *)

(* J: each counter = its sum over the map + what the threads have in hand, as
   natural numbers (no wrap). *)
Definition J (c : config) : Prop :=
  let s := cf_sh c in let ts := cf_threads c in
  sh_cvis s = sumv (sh_map s) + tsum (fun t => pendv (th_pc t)) ts /\
  sh_chid s = sumh (sh_map s) + tsum (fun t => pendh (th_pc t)) ts /\
  sh_ccnt s = lenN (sh_map s) + tsum (fun t => pendc (th_pc t)) ts.

(* K: every order id occurs at most once among the map, the orders in the
   threads' hands, and the orders still to be added. *)
Definition K (c : config) : Prop :=
  forall x, idc x (sh_map (cf_sh c)) + tsum (fun t => cnt x (tids t)) (cf_threads c) <= 1.

Definition POK (c : config) : Prop := Forall (fun t => pc_ok (th_pc t)) (cf_threads c).

(* all quantity that is, or may still come, under the quantity counters *)
Definition Supplied (c : config) : N :=
  sumt (sh_map (cf_sh c)) + tsum (tbudget (sh_price (cf_sh c))) (cf_threads c).
(* all orders that are, or may still come, under the order count *)
Definition OrdersB (c : config) : N :=
  lenN (sh_map (cf_sh c)) + tsum tbc (cf_threads c).

Definition Bound (c : config) : Prop := Supplied c < W /\ OrdersB c < W.

Definition Inv (c : config) : Prop := J c /\ K c /\ POK c /\ Bound c.

(* ---- the ledger: where supplied quantity leaves the level ---- *)
Inductive outflow := OExec | ORet | ODisc | OAmend | ONone.

(* by how much [Supplied] drops when a thread at [p] steps in shared state [s] *)
Definition drain (p : pc) (s : shared) : N :=
  match p with
  | M3 _ _ r => m_consumed r                         (* executed against the maker *)
  | M15 _ o _ => hid o                               (* hidden quantity discarded *)
  | C5 o => tot o                                    (* handed back by cancel / price move *)
  | U1 k nq => match lookup k (sh_map s) with None => nq | Some _ => 0 end
  | U2 k nq =>
      match lookup k (sh_map s) with
      | None => nq
      | Some old => nq + tot old - budget (amend_after_remove old nq)
      end
  | U3 old new =>
      ownb (U3 old new) - ownb (if negb (hid old =? hid new) then U4 old new else U5 new)
  | U4 old new => ownb (U4 old new) - ownb (U5 new)
  | _ => 0
  end.
Definition drain_kind (p : pc) : outflow :=
  match p with
  | M3 _ _ _ => OExec | M15 _ _ _ => ODisc | C5 _ => ORet
  | U1 _ _ | U2 _ _ | U3 _ _ | U4 _ _ => OAmend
  | _ => ONone
  end.

(* the four accumulators, folded along a schedule exactly as [exec] runs it *)
Record ledger := mkLedger { lg_exec : N; lg_ret : N; lg_disc : N; lg_amend : N }.
Definition ledger0 := mkLedger 0 0 0 0.
Definition lg_total (g : ledger) : N := lg_exec g + lg_ret g + lg_disc g + lg_amend g.
Definition lg_add (g : ledger) (k : outflow) (n : N) : ledger :=
  match k with
  | OExec => mkLedger (lg_exec g + n) (lg_ret g) (lg_disc g) (lg_amend g)
  | ORet => mkLedger (lg_exec g) (lg_ret g + n) (lg_disc g) (lg_amend g)
  | ODisc => mkLedger (lg_exec g) (lg_ret g) (lg_disc g + n) (lg_amend g)
  | OAmend => mkLedger (lg_exec g) (lg_ret g) (lg_disc g) (lg_amend g + n)
  | ONone => g
  end.

Section WithMf.
Variable mf : order -> N -> mres.

Fixpoint run_ledger (sched : list nat) (c : config) (g : ledger) : ledger :=
  match sched with
  | [] => g
  | i :: rest =>
      match nth_error (cf_threads c) i, cstep mf c i with
      | Some t, Some (c', _) =>
          run_ledger rest c' (lg_add g (drain_kind (th_pc t)) (drain (th_pc t) (cf_sh c)))
      | _, _ => run_ledger rest c g
      end
  end.

(* reachability by a schedule *)
Definition reach (c0 c : config) : Prop := exists sched, fst (exec mf sched c0) = c.

End WithMf.

(* ---- initial configurations ---- *)
Definition init_config (l : level) (gen : N) (progs : list (list call)) : config :=
  mkConfig (shared_of_level l gen) (map (thread_init (price l)) progs).

(* well-formed programs over a level: ids of the resting orders and of all
   orders to be added are pairwise distinct; everything supplied fits. *)
Definition prog_budget (price : N) (progs : list (list call)) : N := tsum (todo_budget price) progs.
Definition prog_bc (progs : list (list call)) : N := tsum todo_bc progs.
Definition prog_ids (progs : list (list call)) : list oid := concat (map todo_ids progs).

Definition wf_progs (l : level) (progs : list (list call)) : Prop :=
  Agg l /\
  NoDup (ids (resting l) ++ prog_ids progs) /\
  sumt (resting l) + prog_budget (price l) progs < W /\
  lenN (resting l) + prog_bc progs < W.

(* ---- C14: the values the id generator hands out, in trace order ---- *)
Definition is_gen_ev (e : ev) : option N :=
  match e with EFetchAdd OGen _ old => Some old | _ => None end.

Fixpoint gen_olds (tr : list (nat * ev)) : list N :=
  match tr with
  | [] => []
  | (_, e) :: tr' =>
      match is_gen_ev e with Some old => old :: gen_olds tr' | None => gen_olds tr' end
  end.

(* [g; g+1; ...; g+n-1] *)
Fixpoint Nseq (g : N) (n : nat) : list N :=
  match n with O => [] | S n' => g :: Nseq (g + 1) n' end.

(* ---- C15: statistics ---- *)

(* add calls whose [orders_added] increment is still to come / has happened *)
Definition adds_go (p : pc) : N :=
  match p with A1 _ | A2 _ | A3 _ | A4 _ => 1 | _ => 0 end.
Definition adds_done_pc (p : pc) : N :=
  match p with A5 _ | A6 _ | Done (RetAdd _) => 1 | _ => 0 end.
Definition is_RetAdd (r : ret) : N := match r with RetAdd _ => 1 | _ => 0 end.
Definition tadds_go (t : thread) : N := adds_go (th_pc t) + todo_bc (th_todo t).
Definition tadds_done (t : thread) : N := tsum is_RetAdd (th_rets t) + adds_done_pc (th_pc t).
Definition AddsGo (c : config) : N := tsum tadds_go (cf_threads c).
Definition AddsDone (c : config) : N := tsum tadds_done (cf_threads c).

(* transaction quantities recorded in results: returned ones and the one under construction *)
Definition txsum (l : list tx) : N := fold_right (fun t a => tx_qty t + a) 0 l.
Definition ret_txq (r : ret) : N := match r with RetMatch res => txsum (r_txs res) | _ => 0 end.
Definition txq_pc (p : pc) : N :=
  match p with
  | Done r => ret_txq r
  | M1 ml | M2 ml _ | M3 ml _ _ | M4 ml _ _ | M5 ml _ _ | M6 ml _ _ | M7 ml _ _
  | M10 ml _ _ _ | M11 ml _ _ _ | M12 ml _ _ | M13 ml _ _ | M14 ml _ _ | M15 ml _ _
  | F1 ml _ _ | F2 ml _ _ => txsum (r_txs (ml_res ml))
  | _ => 0
  end.
Definition ttxq (t : thread) : N := tsum ret_txq (th_rets t) + txq_pc (th_pc t).
Definition TXQ (c : config) : N := tsum ttxq (cf_threads c).

(* quantity recorded in a transaction but not yet added to [quantity_executed] *)
Definition pq (p : pc) : N :=
  match p with M5 _ _ r | M6 _ _ r => m_consumed r | _ => 0 end.
(* quantity taken off the maker but not yet added to [quantity_executed] *)
Definition qgo (p : pc) : N :=
  match p with M4 _ _ r | M5 _ _ r | M6 _ _ r => m_consumed r | _ => 0 end.
Definition PQ (c : config) : N := tsum (fun t => pq (th_pc t)) (cf_threads c).
Definition QGo (c : config) : N := tsum (fun t => qgo (th_pc t)) (cf_threads c).
(* the executed part of [drain] *)
Definition xdrain (p : pc) : N := match p with M3 _ _ r => m_consumed r | _ => 0 end.

(* events that bump a statistics counter *)
Definition is_removed_ev (e : ev) : bool :=
  match e with EFetchAdd OSRemoved _ _ => true | _ => false end.
Definition count_ev (f : ev -> bool) (tr : list (nat * ev)) : N :=
  N.of_nat (length (filter (fun ie => f (snd ie)) tr)).

(* the statistics counters of a configuration, and the bound under which none of them wraps *)
Definition st_added (c : config) : N := s_added (sh_st (cf_sh c)).
Definition st_removed (c : config) : N := s_removed (sh_st (cf_sh c)).
Definition st_qty (c : config) : N := s_qty (sh_st (cf_sh c)).
Definition st_value (c : config) : N := s_value (sh_st (cf_sh c)).

Definition StatsBound (c : config) : Prop :=
  st_added c + AddsGo c < W /\
  st_removed c + OrdersB c < W /\
  st_qty c + QGo c + Supplied c < W.

(* everything a thread has returned so far, including the call it has just finished *)
Definition all_rets (t : thread) : list ret :=
  th_rets t ++ match th_pc t with Done r => [r] | _ => [] end.
(* transaction quantities in all returned match results; add calls returned *)
Definition RetTxq (c : config) : N := tsum (fun t => tsum ret_txq (all_rets t)) (cf_threads c).
Definition RetAdds (c : config) : N := tsum (fun t => tsum is_RetAdd (all_rets t)) (cf_threads c).

(* ---- C15, value executed: all orders are priced at the level's price [P] ---- *)
Definition okP (P : N) (o : order) : Prop := price_of o = P.

Definition pc_price (P : N) (p : pc) : Prop :=
  Forall (okP P) (asd p) /\
  match p with
  | A1 o | A2 o | A3 o | A4 o | A5 o => okP P o
  | M3 _ o r | M4 _ o r | M5 _ o r | M6 _ o r | M7 _ o r =>
      okP P o /\ forall u, m_updated r = Some u -> okP P u
  | M10 _ _ _ u | M11 _ _ _ u | M12 _ _ u => okP P u
  | U3 _ new | U4 _ new | U5 new => okP P new
  | _ => True
  end.
Definition call_price (P : N) (c : call) : Prop :=
  match c with CAdd o => okP P o | _ => True end.
Definition tprice (P : N) (t : thread) : Prop :=
  pc_price P (th_pc t) /\ Forall (call_price P) (th_todo t).
Definition PInv (P : N) (c : config) : Prop :=
  sh_price (cf_sh c) = P /\ Forall (okP P) (sh_map (cf_sh c)) /\ Forall (tprice P) (cf_threads c).

(* value taken off makers but not yet added to [value_executed]; value recorded
   in a transaction but not yet added *)
Definition vgo (P : N) (p : pc) : N :=
  match p with M4 _ _ r | M5 _ _ r | M6 _ _ r | M7 _ _ r => P * m_consumed r | _ => 0 end.
Definition vpq (P : N) (p : pc) : N :=
  match p with M5 _ _ r | M6 _ _ r | M7 _ _ r => P * m_consumed r | _ => 0 end.
Definition VGo (P : N) (c : config) : N := tsum (fun t => vgo P (th_pc t)) (cf_threads c).
Definition VPQ (P : N) (c : config) : N := tsum (fun t => vpq P (th_pc t)) (cf_threads c).

Definition ValueBound (P : N) (c : config) : Prop :=
  st_value c + VGo P c + P * Supplied c < W.

Definition wf_prices (l : level) (progs : list (list call)) : Prop :=
  Forall (okP (price l)) (resting l) /\ Forall (Forall (call_price (price l))) progs.

(* no statistics counter can wrap during a run of [progs] over [l] *)
Definition wf_stats (l : level) (progs : list (list call)) : Prop :=
  let S0 := sumt (resting l) + prog_budget (price l) progs in
  s_added (st l) + prog_bc progs < W /\
  s_removed (st l) + (lenN (resting l) + prog_bc progs) < W /\
  s_qty (st l) + S0 < W /\
  s_value (st l) + price l * S0 < W.

(* ---- C03, per order: the same ledger restricted to one order id [k] ---- *)
Definition on (k x : oid) (n : N) : N := if oid_eqb k x then n else 0.
Definition sumk (k : oid) (m : list order) : N :=
  fold_right (fun o a => on k (oid_of o) (tot o) + a) 0 m.

(* the id of the one order a program point is working on (its [ownb] belongs to that id) *)
Definition ownkey (p : pc) : oid :=
  match p with
  | A1 o | A2 o | A3 o | A4 o | A5 o | A6 o => oid_of o
  | M3 _ o _ | M4 _ o _ | M5 _ o _ | M6 _ o _ | M7 _ o _ | M10 _ o _ _ | M11 _ o _ _
  | M14 _ o _ | M15 _ o _ => oid_of o
  | M12 _ _ u | M13 _ _ u => oid_of u
  | C1 k' => k'
  | C2 o | C3 o | C4 o | C5 o => oid_of o
  | U1 k' _ | U2 k' _ => k'
  | U3 _ new | U4 _ new | U5 new | U6 new => oid_of new
  | _ => Uuid 0
  end.
Definition budk (k : oid) (p : pc) : N := sumk k (asd p) + on k (ownkey p) (ownb p).
Definition draink (k : oid) (p : pc) (s : shared) : N := on k (ownkey p) (drain p s).

Definition call_budk (k : oid) (price : N) (c : call) : N :=
  match c with
  | CAdd o => on k (oid_of o) (tot o)
  | CUpdate (UpdateQuantity k' nq) => on k k' nq
  | CUpdate (UpdatePriceAndQuantity k' np nq) => if np =? price then on k k' nq else 0
  | CUpdate (Replace k' p q _) => if p =? price then on k k' q else 0
  | _ => 0
  end.
Definition tbudk (k : oid) (price : N) (t : thread) : N :=
  budk k (th_pc t) + tsum (call_budk k price) (th_todo t).
(* everything supplied, or still to be supplied, under id [k] *)
Definition SuppliedK (k : oid) (c : config) : N :=
  sumk k (sh_map (cf_sh c)) + tsum (tbudk k (sh_price (cf_sh c))) (cf_threads c).

Section WithMfK.
Variable mf : order -> N -> mres.
Fixpoint run_ledger_k (k : oid) (sched : list nat) (c : config) (g : ledger) : ledger :=
  match sched with
  | [] => g
  | i :: rest =>
      match nth_error (cf_threads c) i, cstep mf c i with
      | Some t, Some (c', _) =>
          run_ledger_k k rest c' (lg_add g (drain_kind (th_pc t)) (draink k (th_pc t) (cf_sh c)))
      | _, _ => run_ledger_k k rest c g
      end
  end.
End WithMfK.

(* what the programs supply under id [k] *)
Definition prog_budk (k : oid) (price : N) (progs : list (list call)) : N :=
  tsum (fun cs => tsum (call_budk k price) cs) progs.
(* the quantity of the order with id [k] resting in [m], if any *)
Definition resting_k (k : oid) (m : list order) : N :=
  match lookup k m with Some o => tot o | None => 0 end.

(* ---- C03 / C12: snapshot() — a call of four steps (three loads, one iteration) ---- *)
(* the program points of a snapshot in progress: they own nothing and hold nothing
   ([asd], [ownv], [ownh], [ownc], [ownb], [ownid], [fut] are all empty / 0 there) *)
Definition snap_pc (p : pc) : Prop :=
  match p with Sn1 | Sn2 _ | Sn3 _ _ | Sn4 _ _ _ => True | _ => False end.

(* what a snapshot returns when its four steps all see the shared state [s] *)
Definition snap_of (s : shared) : ret :=
  RetSnap (sh_cvis s) (sh_chid s) (sh_ccnt s) (sort_ts (sh_map s)).
(* ... and the four events it then emits *)
Definition snap_events (s : shared) : list ev :=
  [ELoad OVis (sh_cvis s); ELoad OHid (sh_chid s); ELoad OCnt (sh_ccnt s); EIter (lenN (sh_map s))].

(* events that only read *)
Definition read_ev (s : shared) (e : ev) : Prop :=
  match e with
  | ELoad x v => v = get_obj s x /\ (x = OVis \/ x = OHid \/ x = OCnt)
  | EIter n => n = lenN (sh_map s)
  | _ => False
  end.

(* the counters a snapshot has loaded so far / has returned are at most [B] (quantities) and [Bc] (count) *)
Definition ret_snap_le (B Bc : N) (r : ret) : Prop :=
  match r with RetSnap v h n _ => v <= B /\ h <= B /\ n <= Bc | _ => True end.
Definition pc_snap_le (B Bc : N) (p : pc) : Prop :=
  match p with
  | Done r => ret_snap_le B Bc r
  | Sn2 v => v <= B
  | Sn3 v h => v <= B /\ h <= B
  | Sn4 v h n => v <= B /\ h <= B /\ n <= Bc
  | _ => True
  end.
Definition SnapLe (B Bc : N) (c : config) : Prop :=
  Forall (fun t => Forall (ret_snap_le B Bc) (th_rets t) /\ pc_snap_le B Bc (th_pc t)) (cf_threads c).
