(* Extract.v — extraction of the executable model to OCaml for the
   correspondence checks.  Directives used: those of ExtrOcamlBasic only
   (bool, option, list, prod, unit, sumbool, sumor -> OCaml natives).
   N, positive, Z, nat stay the extracted inductive datatypes. *)
From Coq Require Extraction.
From Coq Require Import ExtrOcamlBasic.
From PL Require Import Model.Base Model.Order Model.Queue Model.Level Model.Helpers Model.Conc Model.ConcQ Spec.MatchSpec Spec.Iface Spec.Priority Spec.QueueSpec Spec.Judges Spec.ConcJudges.

Extraction Language OCaml.

Extraction "../modelrun/model.ml"
  W wadd wsub oid_eqb order_eqb
  match_against match_spec with_reduced_quantity vis hid oid_of ts_of price_of side_of
  empty_queue push pop qfind qremove qlen qis_empty to_vec from_vec lookup
  new_level add_order match_order update_order total_quantity executed_quantity
  result_new add_transaction add_filled
  snapshot_of refresh from_snapshot from_data
  i_cons_b same_identity_b
  shared_of_level level_of_shared thread_init accept exec cstep quiescent thread_finished ev_eqb
  step_f step_q busy_after abs
  inew iadd imatch iupdate live_tickets
  qshared_of_queue queue_of_qshared qthread_init qaccept qcstep qquiescent
  agg_b listing_ok_b accounting_b
  exhaust_b stats_b stats_rebuild_b update_ok_b update_counts_b
  range_b handout_b cells_b final_cells_b drained_b ids
  (* Model/Helpers.v: the pure helper API (driver command group `H` / `HR`) *)
  opposite tif_of oid_from_u64 oid_nil oid_is_ulid tif_is_immediate tif_has_expiry tif_is_expired
  order_is_immediate order_is_fill_or_kill order_is_post_only wrq_applies refresh_iceberg
  tx_maker_side tx_total_value tx_total_value_ovf
  executed_quantity_w executed_quantity_ovf executed_value executed_value_ovf
  txl_from_vec txl_into_vec txl_len txl_is_empty
  level_eqb level_cmp level_ltb level_leb level_total_quantity_w level_total_quantity_ovf
  stats_reset record_execution_ovf record_execution_partial stats_run stats_run_debug.
