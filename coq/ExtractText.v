(* ExtractText.v — extraction of the text-codec model (Model/Utf8.v, Ids.v, Text.v)
   to OCaml for the C16 / C18 correspondence checks (modelrun/driver_text.ml).
   Directives used: those of ExtrOcamlBasic (bool, option, list, prod, unit,
   sumbool, sumor -> OCaml natives) and of ExtrOcamlString (ascii -> char,
   string -> char list, Ascii.eqb / ascii_dec -> (=), zero/one/shift on chars).
   N, positive, Z, nat and Decimal.uint stay the extracted inductive datatypes. *)
From Coq Require Extraction.
From Coq Require Import ExtrOcamlBasic ExtrOcamlString.
From PL Require Import Model.Text.

Extraction Language OCaml.

Extraction "../modelrun/model_text.ml"
  utf8_valid is_char_boundary slice
  print_side parse_side print_tif parse_tif print_peg parse_peg print_oid parse_oid
  print_uuid parse_uuid print_ulid parse_ulid
  print_order parse_order print_update parse_update
  print_txn parse_txn print_txlist parse_txlist
  print_match_result parse_match_result parse_match_result_old
  print_snapshot parse_snapshot print_stats parse_stats
  print_queue parse_queue print_level parse_level
  from_data from_vec to_vec oid_of ts_of.
