
val negb : bool -> bool

type nat =
| O
| S of nat

val snd : ('a1 * 'a2) -> 'a2

val length : 'a1 list -> nat

val app : 'a1 list -> 'a1 list -> 'a1 list

type comparison =
| Eq
| Lt
| Gt

val eqb : bool -> bool -> bool

val remove : ('a1 -> 'a1 -> bool) -> 'a1 -> 'a1 list -> 'a1 list

val fold_left : ('a1 -> 'a2 -> 'a1) -> 'a2 list -> 'a1 -> 'a1

val fold_right : ('a2 -> 'a1 -> 'a1) -> 'a1 -> 'a2 list -> 'a1

val filter : ('a1 -> bool) -> 'a1 list -> 'a1 list

val find : ('a1 -> bool) -> 'a1 list -> 'a1 option

type positive =
| XI of positive
| XO of positive
| XH

type n =
| N0
| Npos of positive

type z =
| Z0
| Zpos of positive
| Zneg of positive

module Pos :
 sig
  type mask =
  | IsNul
  | IsPos of positive
  | IsNeg
 end

module Coq_Pos :
 sig
  val succ : positive -> positive

  val add : positive -> positive -> positive

  val add_carry : positive -> positive -> positive

  val pred_double : positive -> positive

  type mask = Pos.mask =
  | IsNul
  | IsPos of positive
  | IsNeg

  val succ_double_mask : mask -> mask

  val double_mask : mask -> mask

  val double_pred_mask : positive -> mask

  val sub_mask : positive -> positive -> mask

  val sub_mask_carry : positive -> positive -> mask

  val mul : positive -> positive -> positive

  val compare_cont : comparison -> positive -> positive -> comparison

  val compare : positive -> positive -> comparison

  val eqb : positive -> positive -> bool

  val of_succ_nat : nat -> positive
 end

module N :
 sig
  val succ_double : n -> n

  val double : n -> n

  val add : n -> n -> n

  val sub : n -> n -> n

  val mul : n -> n -> n

  val compare : n -> n -> comparison

  val eqb : n -> n -> bool

  val leb : n -> n -> bool

  val ltb : n -> n -> bool

  val min : n -> n -> n

  val pos_div_eucl : positive -> n -> n * n

  val div_eucl : n -> n -> n * n

  val modulo : n -> n -> n

  val of_nat : nat -> n
 end

module Z :
 sig
  val eqb : z -> z -> bool
 end

val w : n

val wadd : n -> n -> n

val wsub : n -> n -> n

val sat_add : n -> n -> n

val sat_sub : n -> n -> n

type oid =
| Uuid of n
| Ulid of n

val oid_eqb : oid -> oid -> bool

type side =
| Buy
| Sell

val opposite : side -> side

val side_eqb : side -> side -> bool

type tif =
| Gtc
| Ioc
| Fok
| Gtd of n
| Day

val tif_eqb : tif -> tif -> bool

type peg =
| BestBid
| BestAsk
| MidPrice
| LastTrade

val peg_eqb : peg -> peg -> bool

val option_eqb : ('a1 -> 'a1 -> bool) -> 'a1 option -> 'a1 option -> bool

type common = { c_id : oid; c_price : n; c_side : side; c_ts : n; c_tif : tif }

type order =
| Standard of common * n
| Iceberg of common * n * n
| PostOnly of common * n
| TrailingStop of common * n * n * n
| Pegged of common * n * z * peg
| MarketToLimit of common * n
| Reserve of common * n * n * n * n option * bool

val com : order -> common

val oid_of : order -> oid

val price_of : order -> n

val side_of : order -> side

val ts_of : order -> n

val vis : order -> n

val hid : order -> n

val with_reduced_quantity : order -> n -> order

val dEFAULT_RESERVE_REPLENISH_AMOUNT : n

type mres = { m_consumed : n; m_updated : order option; m_hidden_reduced : 
              n; m_remaining : n }

val match_against : order -> n -> mres

val common_eqb : common -> common -> bool

val order_eqb : order -> order -> bool

type queue = { qmap : order list; tickets : oid list }

val empty_queue : queue

val lookup : oid -> order list -> order option

val remove_key : oid -> order list -> order list

val upsert : order -> order list -> order list

val push : queue -> order -> queue

val pop_t : order list -> oid list -> ((order * order list) * oid list) option

val pop : queue -> order option * queue

val find0 : queue -> oid -> order option

val remove0 : queue -> oid -> order option * queue

val qlen : queue -> n

val qis_empty : queue -> bool

val insert_ts : order -> order list -> order list

val sort_ts : order list -> order list

val to_vec : queue -> order list

val from_vec : order list -> queue

type stats = { s_added : n; s_removed : n; s_executed : n; s_qty : n;
               s_value : n }

val stats0 : stats

type level = { price : n; cvis : n; chid : n; ccnt : n; lq : queue; st : stats }

val new_level : n -> level

val total_quantity : level -> n

val record_added : stats -> stats

val record_removed : stats -> stats

val record_execution : stats -> n -> n -> stats

val add_order : level -> order -> level

type tx = { tx_idx : n; tx_taker : oid; tx_maker : oid; tx_price : n;
            tx_qty : n; tx_side : side }

type result = { r_taker : oid; r_txs : tx list; r_remaining : n;
                r_complete : bool; r_filled : oid list }

val result_new : oid -> n -> result

val add_transaction : result -> tx -> result

val add_filled : result -> oid -> result

val executed_quantity : result -> n

val is_some : 'a1 option -> bool

type mstate = { ms_lvl : level; ms_gen : n; ms_res : result; ms_rem : 
                n; ms_aside : order list }

val set_queue : level -> queue -> level

val visit :
  (order -> n -> mres) -> level -> n -> result -> oid -> n -> order ->
  ((level * n) * result) * n

val match_loop : (order -> n -> mres) -> nat -> oid -> mstate -> mstate option

val finish : mstate -> (level * n) * result

val match_order :
  (order -> n -> mres) -> nat -> level -> n -> n -> oid ->
  ((level * n) * result) option

type update =
| UpdatePrice of oid * n
| UpdateQuantity of oid * n
| UpdatePriceAndQuantity of oid * n * n
| Cancel of oid
| Replace of oid * n * n * side

type uout =
| UOk of order option
| UErr

val take_out : level -> oid -> level * uout

val delta : n -> n -> n -> n

val amend : level -> oid -> n -> level * uout

val update_order : level -> update -> level * uout

type snapshot = { sn_price : n; sn_vis : n; sn_hid : n; sn_cnt : n;
                  sn_orders : order list }

val snapshot_of : level -> snapshot

val refresh : snapshot -> snapshot

val from_snapshot : snapshot -> level

val from_data : n -> order list -> level

type family =
| Plain
| IcebergF
| ReserveF

val family_of : order -> family

val with_quantities : order -> n -> n -> order

val reserve_amount : order -> n

val reserve_threshold : order -> n

val reserve_auto : order -> bool

val match_spec : order -> n -> mres
