(* C08, second half of the quantifier — "... and for programs of concurrent
   push / pop / remove / find on the exported order queue itself".
   Only statements live here; proofs are in Proofs/CovQProofs.v (and the
   model-independent trace lemmas of Proofs/CovProofs.v).  Model: Model/ConcQ.v
   (one DashMap or SegQueue operation per step; every program, every number of
   threads, every schedule, every number of steps).  Vocabulary: Spec/CovQSpec.v. *)
From PL Require Spec.QueueSpec.
From PL Require Import Spec.CovQSpec Proofs.ConcLemmas Proofs.CovProofs Proofs.CovQProofs.
From Coq Require Import Permutation.
Local Open Scope N_scope.

(* ---------- 1. the coverage invariant ---------- *)

(* Every order in the map has a ticket, or a pusher stands between its map
   insert and its ticket append, or a popper has taken its ticket and not yet
   tried the map remove.  Preserved by every step of every thread. *)
Theorem C08q_coverage_step :
  forall c i c' e, QCov c -> qcstep c i = Some (c', e) -> QCov c'.
Proof. exact QCov_step. Qed.

Theorem C08q_coverage_exec :
  forall sched c, QCov c -> QCov (fst (qexec sched c)).
Proof. exact QCov_exec. Qed.

Theorem C08q_coverage_reachable :
  forall q progs sched,
    Covered q ->
    QCov (fst (qexec sched (mkQconfig (qshared_of_queue q) (map qthread_init progs)))).
Proof. exact QCov_reachable. Qed.

(* the invariant with the program points by name *)
Theorem C08q_coverage_explicit :
  forall c,
    QCov c <->
    forall x, In x (qs_map (qc_sh c)) ->
      In (oid_of x) (qs_tk (qc_sh c)) \/
      (exists i t o, nth_error (qc_threads c) i = Some t /\ qt_pc t = QP2 o /\ oid_of o = oid_of x) \/
      (exists i t, nth_error (qc_threads c) i = Some t /\ qt_pc t = QO2 (oid_of x)).
Proof. exact QCov_explicit. Qed.

(* no reachable configuration has a stranded order *)
Theorem C08q_never_stranded :
  forall q progs sched x,
    Covered q -> ~ qstranded (fst (qexec sched (qinit_config q progs))) x.
Proof. intros q progs sched x H. apply QCov_not_stranded, QCov_reachable, H. Qed.

(* ---------- 2. the map never holds two orders with one id ---------- *)
(* no hypothesis on the programs: [upsert] removes before appending *)

Theorem C08q_map_nodup_step :
  forall c i c' e,
    NoDup (ids (qs_map (qc_sh c))) -> qcstep c i = Some (c', e) ->
    NoDup (ids (qs_map (qc_sh c'))).
Proof. exact QMapNoDup_step. Qed.

Theorem C08q_map_nodup_reachable :
  forall q progs sched,
    NoDup (ids (qmap q)) ->
    NoDup (ids (qs_map (qc_sh (fst (qexec sched (qinit_config q progs)))))).
Proof. exact QMapNoDup_reachable. Qed.

(* ---------- 3. nothing is stranded at quiescence ---------- *)

Theorem C08q_quiescent_covered :
  forall q progs sched c tr,
    Covered q ->
    qexec sched (qinit_config q progs) = (c, tr) ->
    qquiescent c = true ->
    Covered (queue_of_qshared (qc_sh c)).
Proof. exact qquiescent_covered. Qed.

Theorem C08q_quiescent_wfqueue :
  forall q progs sched c tr,
    WfQueue q ->
    qexec sched (qinit_config q progs) = (c, tr) ->
    qquiescent c = true ->
    WfQueue (queue_of_qshared (qc_sh c)).
Proof. exact qquiescent_wfqueue. Qed.

(* the pop order of the quiescent queue lists exactly the ids in the map, each once *)
Theorem C08q_quiescent_reachable_by_pop :
  forall q progs sched c tr,
    Covered q ->
    qexec sched (qinit_config q progs) = (c, tr) ->
    qquiescent c = true ->
    (forall k, In k (abs (queue_of_qshared (qc_sh c))) <-> In k (ids (qs_map (qc_sh c)))) /\
    NoDup (abs (queue_of_qshared (qc_sh c))).
Proof. exact qquiescent_reachable_by_pop. Qed.

(* repeated sequential pops of the quiescent queue hand out exactly the orders in
   the map (a permutation of it, no id twice), in pop order *)
Theorem C08q_quiescent_drain :
  forall q progs sched c tr,
    WfQueue q ->
    qexec sched (qinit_config q progs) = (c, tr) ->
    qquiescent c = true ->
    Permutation (QueueSpec.drain (queue_of_qshared (qc_sh c))) (qs_map (qc_sh c)) /\
    map oid_of (QueueSpec.drain (queue_of_qshared (qc_sh c))) = abs (queue_of_qshared (qc_sh c)) /\
    NoDup (ids (QueueSpec.drain (queue_of_qshared (qc_sh c)))).
Proof. exact qquiescent_drain. Qed.

(* a quiescent queue with something in the map never answers "empty" to pop *)
Theorem C08q_quiescent_pop_finds :
  forall q progs sched c tr,
    Covered q ->
    qexec sched (qinit_config q progs) = (c, tr) ->
    qquiescent c = true ->
    fst (pop (queue_of_qshared (qc_sh c))) = None -> qs_map (qc_sh c) = [].
Proof. exact qquiescent_pop_finds. Qed.

(* the two list-level facts used above, for any queue *)
Theorem C08q_covered_pop_order :
  forall q, Covered q ->
    (forall k, In k (abs q) <-> In k (ids (qmap q))) /\ NoDup (abs q).
Proof. exact abs_exact. Qed.

(* ---------- 4. handed out exactly once ---------- *)

(* Along every trace the map cell of every id behaves as a cell: each remove /
   find of id k observes exactly the order most recently inserted with id k and
   not removed since (initially: the one in the map). *)
Theorem C08q_trace_cell :
  forall k sched c c' tr,
    qexec sched c = (c', tr) ->
    trace_ok k (lookup k (qs_map (qc_sh c))) tr /\
    lookup k (qs_map (qc_sh c')) = cell_after k (lookup k (qs_map (qc_sh c))) tr.
Proof. exact qexec_cell. Qed.

(* never to two: between two successful removes of id k an order with id k was inserted *)
Theorem C08q_no_double_handout :
  forall sched c c' k t1 i o1 t2 j o2 t3,
    qexec sched c = (c', t1 ++ (i, ERemove k (Some o1)) :: t2 ++ (j, ERemove k (Some o2)) :: t3) ->
    inserts k t2.
Proof. exact qexec_no_double_handout. Qed.

(* the order handed out is the one most recently handed in ... *)
Theorem C08q_handout_is_last_insert :
  forall sched c c' k t1 i o t2 j o2 t3,
    qexec sched c = (c', t1 ++ (i, EInsert o) :: t2 ++ (j, ERemove k (Some o2)) :: t3) ->
    oid_of o = k -> ~ inserts k t2 -> o2 = o.
Proof. exact qexec_handout_is_last_insert. Qed.

(* ... or the one in the map initially *)
Theorem C08q_handout_is_initial :
  forall sched c c' k t1 j o2 t3,
    qexec sched c = (c', t1 ++ (j, ERemove k (Some o2)) :: t3) ->
    ~ inserts k t1 -> lookup k (qs_map (qc_sh c)) = Some o2.
Proof. exact qexec_handout_is_initial. Qed.

(* Every successful pop and every successful remove is such an event: a thread
   step answers [Some o] only as the map remove of a pop (QO2) or of a remove (QR)
   — event [ERemove (oid_of o) (Some o)], the order leaves the map — or as a find
   (QF), which changes nothing. *)
Theorem C08q_returns_some :
  forall p s s' e o,
    qtstep p s = Some (QDone (QRetOrd (Some o)), s', e) ->
    ((p = QO2 (oid_of o) \/ p = QR (oid_of o)) /\ e = ERemove (oid_of o) (Some o) /\
     lookup (oid_of o) (qs_map s) = Some o /\
     s' = mkQshared (remove_key (oid_of o) (qs_map s)) (qs_tk s)) \/
    (p = QF (oid_of o) /\ e = EGet (oid_of o) (Some o) /\ s' = s).
Proof. exact qtstep_returns_some. Qed.

(* Conversely every successful-remove event of thread i is the last step of a pop
   or remove call of thread i, that call returns exactly that order, and the
   order is gone from the map. *)
Theorem C08q_handout_event :
  forall c i c' k o,
    qcstep c i = Some (c', ERemove k (Some o)) ->
    exists t t',
      nth_error (qc_threads c) i = Some t /\ (qt_pc t = QO2 k \/ qt_pc t = QR k) /\
      lookup k (qs_map (qc_sh c)) = Some o /\ oid_of o = k /\
      nth_error (qc_threads c') i = Some t' /\ qjust_returned t' (QRetOrd (Some o)) /\
      lookup k (qs_map (qc_sh c')) = None.
Proof. exact qcstep_handout. Qed.

Theorem C08q_successful_pop_or_remove :
  forall c i t k o,
    nth_error (qc_threads c) i = Some t -> (qt_pc t = QO2 k \/ qt_pc t = QR k) ->
    lookup k (qs_map (qc_sh c)) = Some o ->
    exists c', qcstep c i = Some (c', ERemove k (Some o)).
Proof. exact qcstep_successful_pop_or_remove. Qed.

(* conservation for each id along every run: in the map initially + inserted =
   handed out + overwritten by a later insert of the same id + in the map finally *)
Theorem C08q_cell_balance :
  forall k sched c c' tr,
    qexec sched c = (c', tr) ->
    (b2n (is_some (lookup k (qs_map (qc_sh c)))) + count_ev (is_insert_of k) tr =
     count_ev (is_handout_of k) tr + overwrites k (lookup k (qs_map (qc_sh c))) tr +
     b2n (is_some (lookup k (qs_map (qc_sh c')))))%nat.
Proof. exact qexec_cell_balance. Qed.

(* at most once, counted: hand-outs of id k never exceed hand-ins of id k *)
Theorem C08q_handouts_le_inserts :
  forall k sched c c' tr,
    qexec sched c = (c', tr) ->
    (count_ev (is_handout_of k) tr <=
     b2n (is_some (lookup k (qs_map (qc_sh c)))) + count_ev (is_insert_of k) tr)%nat.
Proof. exact qexec_handouts_le_inserts. Qed.

(* ---------- 5. accepted traces are runs ---------- *)

Theorem C08q_accept_sound :
  forall tr c c', qaccept tr c 0 = (c', None) -> qexec (map fst tr) c = (c', tr).
Proof. exact qaccept_sound. Qed.

(* ---------- 6. examples: hypotheses satisfiable, the model runs ---------- *)

Definition exq_A : order := Standard (mkCommon (Uuid 1) 100 Sell 1 Gtc) 10.
Definition exq_B : order := Iceberg (mkCommon (Uuid 2) 100 Sell 2 Gtc) 5 7.
Definition exq_C : order := Standard (mkCommon (Uuid 3) 100 Sell 3 Gtc) 4.
Definition exq_q : queue := push empty_queue exq_A.

Example C08q_ex_wf : WfQueue exq_q.
Proof.
  split.
  - vm_compute. constructor; [intros [] | constructor].
  - intros o H. vm_compute in H. destruct H as [<-|[]]. vm_compute. left. reflexivity.
Qed.

(* thread 0: push B, pop;  thread 1: pop, find B;  thread 2: remove A, push C *)
Definition exq_progs : list (list qcall) :=
  [[QCPush exq_B; QCPop]; [QCPop; QCFind (Uuid 2)]; [QCRemove (Uuid 1); QCPush exq_C]].
(* 0 inserts B | 1 takes ticket 1 | 2 removes A | 1 finds A gone, loops | 0 appends
   ticket 2 | 1 takes ticket 2 | 2 inserts C | 1 removes B | 0 pops: no ticket (C's
   is not appended yet) | 2 appends ticket 3 | 1 finds B gone *)
Definition exq_sched : list nat := [0;1;2;1;0;1;2;1;0;2;1]%nat.

Example C08q_ex_run :
  let '(c, tr) := qexec exq_sched (qinit_config exq_q exq_progs) in
  qquiescent c = true /\
  qs_map (qc_sh c) = [exq_C] /\ qs_tk (qc_sh c) = [Uuid 3] /\
  abs (queue_of_qshared (qc_sh c)) = [Uuid 3] /\
  QueueSpec.drain (queue_of_qshared (qc_sh c)) = [exq_C] /\
  map qt_rets (qc_threads c) = [[QRetUnit]; [QRetOrd (Some exq_B)]; [QRetOrd (Some exq_A)]] /\
  map qt_pc (qc_threads c) = [QDone (QRetOrd None); QDone (QRetOrd None); QDone QRetUnit] /\
  (* A was handed out once (to the remover); the popper holding its ticket finds nothing *)
  filter (fun ie => match snd ie with ERemove (Uuid 1) _ => true | _ => false end) tr =
    [(2%nat, ERemove (Uuid 1) (Some exq_A)); (1%nat, ERemove (Uuid 1) None)] /\
  (* B was handed out once (to the popper of thread 1) *)
  filter (fun ie => match snd ie with ERemove (Uuid 2) _ => true | _ => false end) tr =
    [(1%nat, ERemove (Uuid 2) (Some exq_B))] /\
  length tr = 11%nat.
Proof. vm_compute. repeat split; reflexivity. Qed.

(* mid-run windows: after 3 steps B is in the map without a ticket (thread 0 at
   QP2 B) and thread 1 holds the ticket of the already removed A (QO2) *)
Example C08q_ex_window :
  let c := fst (qexec [0;1;2]%nat (qinit_config exq_q exq_progs)) in
  qs_map (qc_sh c) = [exq_B] /\ qs_tk (qc_sh c) = [] /\
  map qt_pc (qc_threads c) = [QP2 exq_B; QO2 (Uuid 1); QP1 exq_C].
Proof. vm_compute. repeat split; reflexivity. Qed.

(* the trace of the run is accepted by [qaccept] (hypothesis of C08q_accept_sound) *)
Example C08q_ex_accept :
  let '(c, tr) := qexec exq_sched (qinit_config exq_q exq_progs) in
  qaccept tr (qinit_config exq_q exq_progs) 0 = (c, None).
Proof. vm_compute. reflexivity. Qed.

(* the counting law on the run, id 1: 1 initially + 0 inserted = 1 handed out + 0 + 0 left *)
Example C08q_ex_balance :
  let '(c, tr) := qexec exq_sched (qinit_config exq_q exq_progs) in
  (count_ev (is_insert_of (Uuid 1)) tr, count_ev (is_handout_of (Uuid 1)) tr,
   count_ev (is_insert_of (Uuid 3)) tr, count_ev (is_handout_of (Uuid 3)) tr,
   is_some (lookup (Uuid 3) (qs_map (qc_sh c)))) = (0, 1, 1, 0, true)%nat.
Proof. vm_compute. reflexivity. Qed.

(* ---------- counter-model: the ORDER of the two steps inside push matters ---------- *)

(* [qtstep_bad] (Proofs/CovQProofs.v) appends the ticket at QP1 and inserts into the
   map at QP2.  Thread 0 pushes A, thread 1 pops: 0 appends the ticket | 1 takes it |
   1 finds no order, loops | 0 inserts A | 1 finds no ticket, answers None.  Both
   threads have returned and A sits in the map with no ticket: stranded for ever. *)
Definition exq_bad_progs : list (list qcall) := [[QCPush exq_A]; [QCPop]].
Definition exq_bad_sched : list nat := [0;1;1;0;1]%nat.

Example C08q_swapped_push_strands :
  let c := fst (qexec_bad exq_bad_sched (qinit_config empty_queue exq_bad_progs)) in
  qquiescent c = true /\
  qs_map (qc_sh c) = [exq_A] /\ qs_tk (qc_sh c) = [] /\
  map qt_pc (qc_threads c) = [QDone QRetUnit; QDone (QRetOrd None)] /\
  fst (pop (queue_of_qshared (qc_sh c))) = None.
Proof. vm_compute. repeat split; reflexivity. Qed.

Example C08q_swapped_push_stranded :
  qstranded (fst (qexec_bad exq_bad_sched (qinit_config empty_queue exq_bad_progs))) exq_A.
Proof.
  vm_compute. split; [left; reflexivity|]. split; [intros []|].
  intros [|[|[|i]]] t H; cbn in H; inversion H; subst; cbn; intros [[]|[]].
Qed.

Example C08q_swapped_push_breaks_coverage :
  ~ QCov (fst (qexec_bad exq_bad_sched (qinit_config empty_queue exq_bad_progs))).
Proof. intros H. exact (QCov_not_stranded _ _ H C08q_swapped_push_stranded). Qed.

(* the same program and schedule under the real step function: A keeps a ticket *)
Example C08q_real_push_same_schedule :
  let c := fst (qexec exq_bad_sched (qinit_config empty_queue exq_bad_progs)) in
  qquiescent c = true /\ qs_map (qc_sh c) = [exq_A] /\ qs_tk (qc_sh c) = [Uuid 1] /\
  fst (pop (queue_of_qshared (qc_sh c))) = Some exq_A.
Proof. vm_compute. repeat split; reflexivity. Qed.

(* the generic runner used for the counter-model is the model's runner when given [qtstep] *)
Theorem C08q_runner_is_qexec :
  forall sched c, qexec_with qtstep sched c = qexec sched c.
Proof. exact qexec_with_qtstep. Qed.

Check C08q_coverage_step :
  forall c i c' e, QCov c -> qcstep c i = Some (c', e) -> QCov c'.
Check C08q_coverage_reachable :
  forall q progs sched, Covered q ->
    QCov (fst (qexec sched (mkQconfig (qshared_of_queue q) (map qthread_init progs)))).
Check C08q_map_nodup_step :
  forall c i c' e, NoDup (ids (qs_map (qc_sh c))) -> qcstep c i = Some (c', e) ->
    NoDup (ids (qs_map (qc_sh c'))).
Check C08q_quiescent_covered :
  forall q progs sched c tr,
    Covered q -> qexec sched (qinit_config q progs) = (c, tr) -> qquiescent c = true ->
    Covered (queue_of_qshared (qc_sh c)).
Check C08q_no_double_handout :
  forall sched c c' k t1 i o1 t2 j o2 t3,
    qexec sched c = (c', t1 ++ (i, ERemove k (Some o1)) :: t2 ++ (j, ERemove k (Some o2)) :: t3) ->
    inserts k t2.
Check C08q_accept_sound :
  forall tr c c', qaccept tr c 0 = (c', None) -> qexec (map fst tr) c = (c', tr).

Print Assumptions C08q_coverage_step.
Print Assumptions C08q_coverage_exec.
Print Assumptions C08q_coverage_reachable.
Print Assumptions C08q_coverage_explicit.
Print Assumptions C08q_never_stranded.
Print Assumptions C08q_map_nodup_step.
Print Assumptions C08q_map_nodup_reachable.
Print Assumptions C08q_quiescent_covered.
Print Assumptions C08q_quiescent_wfqueue.
Print Assumptions C08q_quiescent_reachable_by_pop.
Print Assumptions C08q_quiescent_drain.
Print Assumptions C08q_quiescent_pop_finds.
Print Assumptions C08q_covered_pop_order.
Print Assumptions C08q_trace_cell.
Print Assumptions C08q_no_double_handout.
Print Assumptions C08q_handout_is_last_insert.
Print Assumptions C08q_handout_is_initial.
Print Assumptions C08q_returns_some.
Print Assumptions C08q_handout_event.
Print Assumptions C08q_successful_pop_or_remove.
Print Assumptions C08q_cell_balance.
Print Assumptions C08q_handouts_le_inserts.
Print Assumptions C08q_accept_sound.
Print Assumptions C08q_ex_wf.
Print Assumptions C08q_ex_run.
Print Assumptions C08q_ex_window.
Print Assumptions C08q_ex_accept.
Print Assumptions C08q_ex_balance.
Print Assumptions C08q_swapped_push_strands.
Print Assumptions C08q_swapped_push_stranded.
Print Assumptions C08q_swapped_push_breaks_coverage.
Print Assumptions C08q_real_push_same_schedule.
Print Assumptions C08q_runner_is_qexec.
