(* Tie.v — theorems about the machinery that ties the model to the code (not one of
   the 19 properties): the boolean interface checker applied to the implementation's
   match_against answers decides [I_cons]; see also Properties/SeqConc.v
   ([accept_sound], [run_alone_*]: one thread of Model/Conc.v = Model/Level.v). *)
From PL Require Import Model.Order Spec.Iface Spec.Hist Proofs.OrderProofs Proofs.IfaceProofs.
Local Open Scope N_scope.

Theorem Tie_interface_checker_decides : forall mf,
  (forall o inc, i_cons_b o inc (mf o inc) = true) <-> I_cons mf.
Proof. exact i_cons_b_decides. Qed.

Theorem Tie_interface_checker_accepts_model : forall o inc, i_cons_b o inc (match_against o inc) = true.
Proof. exact i_cons_b_match_against. Qed.

Print Assumptions Tie_interface_checker_decides.
Print Assumptions Tie_interface_checker_accepts_model.

(* The judges applied to the implementation's observations are the statements themselves. *)
From PL Require Import Spec.Judges Proofs.JudgeProofs Model.Level.
From Coq Require Import Sorted.

Theorem Tie_judge_agg : forall l, agg_b (cvis l) (chid l) (ccnt l) (resting l) = true <-> Agg l.
Proof. exact agg_b_level. Qed.

Theorem Tie_judge_listing : forall l, listing_ok_b l = true <-> NoDup (ids l) /\ Sorted ts_le l.
Proof. exact listing_ok_b_iff. Qed.

Theorem Tie_judge_accounting : forall p qty taker before r,
  accounting_b p qty taker before r = true <->
  sum_qty (r_txs r) + r_remaining r = qty /\
  (r_complete r = true <-> r_remaining r = 0) /\
  Forall (fun t => 0 < tx_qty t /\ tx_price t = p /\ tx_taker t = taker /\
                   exists o, lookup (tx_maker t) before = Some o /\ tx_side t = opposite (side_of o)) (r_txs r).
Proof. exact accounting_b_iff. Qed.

Print Assumptions Tie_judge_agg.
Print Assumptions Tie_judge_listing.
Print Assumptions Tie_judge_accounting.

(* ---- C06 / C07 / C15: checker <=> Prop, and property theorem => checker accepts
   (Proofs/JudgeBridge.v uses C06_lower / C06_exhausts, C07_remove_* / C07_amend_* /
   C07_update_price_same_rejected, C15_stats_mod / C15_value_executed_const by name).
   [before] / [after] are any listings (permutations) of the resting orders. ---- *)
From PL Require Import Spec.StatsSpec Spec.LedgerSpec Proofs.JudgeBridge.

Theorem Tie_judge_exhaust : forall qty before after executed remaining,
  exhaust_b qty before after executed remaining = true <->
  N.min qty (sumv before) <= executed /\
  (0 < remaining -> forall o, In o after -> vis o = 0).
Proof. exact exhaust_b_iff. Qed.

Theorem Tie_judge_exhaust_sound : forall mf, I_cons mf ->
  forall fuel l g qty taker l' g' r before after,
    Inv l -> qty < W ->
    match_order mf fuel l g qty taker = Some (l', g', r) ->
    Permutation before (resting l) -> Permutation after (resting l') ->
    exhaust_b qty before after (executed_quantity r) (r_remaining r) = true.
Proof. exact exhaust_judge_sound. Qed.

Theorem Tie_judge_exhaust_sound_wf : forall mf, I_cons mf ->
  forall fuel l g qty taker l' g' r before after,
    WfQueue (lq l) ->
    match_order mf fuel l g qty taker = Some (l', g', r) ->
    Permutation before (resting l) -> Permutation after (resting l') ->
    exhaust_b qty before after (executed_quantity r) (r_remaining r) = true.
Proof. exact exhaust_judge_sound_wf. Qed.

Theorem Tie_judge_stats : forall p h added removed qty value,
  stats_b p h added removed qty value = true <->
  added = n_added h mod W /\ removed = n_removed p h mod W /\
  qty = qty_executed h mod W /\ value = val_executed h mod W /\
  Forall (ev_tx_price p) h.
Proof. exact stats_b_iff. Qed.

(* the value summed from the transactions is quantity x price once they all carry the level price *)
Theorem Tie_judge_stats_value : forall p h,
  Forall (ev_tx_price p) h -> val_executed h = qty_executed h * p.
Proof. exact val_executed_price. Qed.

Theorem Tie_judge_stats_sound : forall mf, I_id mf ->
  forall p g0 ops l g outs,
    steps mf (new_level p, g0) ops (l, g) outs -> no_rebuild ops = true ->
    all_added_at p ops ->
    stats_b p (combine ops outs)
            (s_added (st l)) (s_removed (st l)) (s_qty (st l)) (s_value (st l)) = true.
Proof. exact stats_judge_sound. Qed.

(* C15 across rebuilds: the judge of histories WITH rebuild events ([since_rebuild], [rebuild_base]:
   Spec/StatsSpec.v; the bridge uses C15_across_rebuilds_mod by name) *)
Theorem Tie_judge_stats_rebuild : forall p h added removed qty value,
  stats_rebuild_b p h added removed qty value = true <->
  added = (rebuild_base h + n_added (since_rebuild h)) mod W /\
  removed = n_removed p (since_rebuild h) mod W /\
  qty = qty_executed (since_rebuild h) mod W /\ value = val_executed (since_rebuild h) mod W /\
  Forall (ev_tx_price p) h.
Proof. exact stats_rebuild_b_iff. Qed.

Theorem Tie_judge_stats_rebuild_sound : forall mf, I_id mf ->
  forall p g0 ops l g outs,
    steps mf (new_level p, g0) ops (l, g) outs ->
    all_added_at p ops ->
    stats_rebuild_b p (combine ops outs)
            (s_added (st l)) (s_removed (st l)) (s_qty (st l)) (s_value (st l)) = true.
Proof. exact stats_rebuild_judge_sound. Qed.

(* without a rebuild event it is the judge of Tie_judge_stats *)
Theorem Tie_judge_stats_rebuild_conservative : forall p h added removed qty value,
  has_rebuild h = false ->
  stats_rebuild_b p h added removed qty value = stats_b p h added removed qty value.
Proof. exact stats_rebuild_b_no_rebuild. Qed.

Theorem Tie_judge_update : forall p before u r after,
  update_ok_b p before u r after = true <-> UpdateOk p before u r after.
Proof. exact update_ok_b_iff. Qed.

Theorem Tie_judge_update_counts : forall p before u cv ch cc cv' ch' cc',
  update_counts_b p before u cv ch cc cv' ch' cc' = true <->
  UpdateCounts p before u cv ch cc cv' ch' cc'.
Proof. exact update_counts_b_iff. Qed.

(* the two helpers of UpdateOk decide equality of finite maps *)
Theorem Tie_judge_same_book : forall a b,
  same_book_b a b = true <-> (forall k, lookup k a = lookup k b).
Proof. exact same_book_b_iff. Qed.

Theorem Tie_judge_same_book_except : forall k a b,
  same_book_except_b k a b = true <-> (forall k', k' <> k -> lookup k' a = lookup k' b).
Proof. exact same_book_except_b_iff. Qed.

Theorem Tie_judge_update_sound : forall l u l' r before after,
  NoDup (ids (resting l)) ->
  update_order l u = (l', r) ->
  Permutation before (resting l) -> Permutation after (resting l') ->
  update_ok_b (price l) before u r after = true /\
  update_counts_b (price l) before u (cvis l) (chid l) (ccnt l) (cvis l') (chid l') (ccnt l') = true.
Proof. exact update_judge_sound. Qed.

Theorem Tie_judge_update_sound_reachable : forall mf l g u l' r before after,
  reachable mf (l, g) ->
  update_order l u = (l', r) ->
  Permutation before (resting l) -> Permutation after (resting l') ->
  update_ok_b (price l) before u r after = true /\
  update_counts_b (price l) before u (cvis l) (chid l) (ccnt l) (cvis l') (chid l') (ccnt l') = true.
Proof. exact update_judge_sound_reachable. Qed.

(* the judges are not vacuous: each rejects a wrong observation *)
Example Tie_judge_exhaust_rejects :
  let o := Standard (mkCommon (Uuid 1) 100 Sell 1 Gtc) 5 in
  exhaust_b 3 [o] [o] 0 3 = false /\ exhaust_b 9 [o] [o] 5 4 = false /\ exhaust_b 9 [o] [] 5 4 = true.
Proof. vm_compute. repeat split. Qed.

Example Tie_judge_update_rejects :
  let a := Standard (mkCommon (Uuid 1) 100 Sell 1 Gtc) 5 in
  let b := Iceberg (mkCommon (Uuid 2) 100 Sell 2 Gtc) 4 9 in
  let b' := Iceberg (mkCommon (Uuid 2) 100 Sell 2 Gtc) 1 9 in
  update_ok_b 100 [a; b] (Cancel (Uuid 1)) (UOk (Some a)) [b] = true /\
  update_ok_b 100 [a; b] (Cancel (Uuid 1)) (UOk (Some a)) [a; b] = false /\
  update_ok_b 100 [a; b] (Cancel (Uuid 1)) (UOk (Some a)) [b'] = false /\
  update_ok_b 100 [a; b] (Cancel (Uuid 1)) (UOk None) [b] = false /\
  update_ok_b 100 [a; b] (UpdateQuantity (Uuid 2) 1) (UOk (Some b')) [b'; a] = true /\
  update_ok_b 100 [a; b] (UpdateQuantity (Uuid 2) 1) (UOk (Some b')) [a; b] = false /\
  update_ok_b 100 [a; b] (UpdatePrice (Uuid 2) 100) UErr [b; a] = true /\
  update_ok_b 100 [a; b] (UpdatePrice (Uuid 2) 100) (UOk None) [a; b] = false /\
  update_counts_b 100 [a; b] (Cancel (Uuid 1)) 9 9 2 4 9 1 = true /\
  update_counts_b 100 [a; b] (Cancel (Uuid 1)) 9 9 2 9 9 1 = false /\
  update_counts_b 100 [a; b] (UpdateQuantity (Uuid 2) 1) 9 9 2 6 9 2 = true.
Proof. vm_compute. repeat split. Qed.

Example Tie_judge_stats_rejects :
  let a := Standard (mkCommon (Uuid 1) 100 Sell 1 Gtc) 5 in
  let t := mkTx 0 (Uuid 9) (Uuid 1) 100 5 Buy in
  let h := [(OAdd a, OutAdd a); (OMatch 5 (Uuid 9), OutMatch (mkResult (Uuid 9) [t] 0 true [Uuid 1]));
            (OUpdate (Cancel (Uuid 1)), OutUpdate (UOk None))] in
  stats_b 100 h 1 0 5 500 = true /\ stats_b 100 h 1 1 5 500 = false /\
  stats_b 100 h 1 0 5 0 = false /\ stats_b 101 h 1 0 5 500 = false.
Proof. vm_compute. repeat split. Qed.

Example Tie_judge_stats_rebuild_rejects :
  let a := Standard (mkCommon (Uuid 1) 100 Sell 1 Gtc) 5 in
  let b := Standard (mkCommon (Uuid 2) 100 Sell 2 Gtc) 3 in
  let t := mkTx 0 (Uuid 9) (Uuid 1) 100 5 Buy in
  let u := mkTx 1 (Uuid 9) (Uuid 2) 100 2 Buy in
  let pre := [(OAdd a, OutAdd a); (OAdd b, OutAdd b);
              (OMatch 5 (Uuid 9), OutMatch (mkResult (Uuid 9) [t] 0 true [Uuid 1]))] in
  let post := [(OMatch 2 (Uuid 9), OutMatch (mkResult (Uuid 9) [u] 0 true []));
               (OUpdate (Cancel (Uuid 2)), OutUpdate (UOk (Some b)))] in
  let hs := pre ++ (ORebuildSnap [b], OutRebuilt) :: post in
  let hd := pre ++ (ORebuildData [b], OutRebuilt) :: post in
  stats_rebuild_b 100 hs 0 1 2 200 = true /\ stats_rebuild_b 100 hd 1 1 2 200 = true /\
  stats_rebuild_b 100 hs 1 1 2 200 = false /\ stats_rebuild_b 100 hd 0 1 2 200 = false /\
  stats_rebuild_b 100 hs 2 1 7 700 = false /\         (* the counts over the whole history *)
  stats_rebuild_b 100 hd 3 1 7 700 = false /\
  stats_rebuild_b 100 hs 0 0 2 200 = false /\ stats_rebuild_b 100 hs 0 1 2 0 = false /\
  stats_rebuild_b 101 hs 0 1 2 200 = false /\
  stats_rebuild_b 100 (pre ++ [(ORebuildData [b], OutRebuilt)]) 1 0 0 0 = true /\
  stats_rebuild_b 100 (pre ++ [(ORebuildSnap [b], OutRebuilt)]) 0 0 0 0 = true /\
  stats_rebuild_b 100 (pre ++ [(ORebuildSnap [b], OutRebuilt)]) 2 0 5 500 = false /\
  stats_rebuild_b 100 pre 2 0 5 500 = true.
Proof. vm_compute. repeat split. Qed.

Check Tie_judge_exhaust.
Check Tie_judge_exhaust_sound.
Check Tie_judge_stats.
Check Tie_judge_stats_sound.
Check Tie_judge_stats_rebuild.
Check Tie_judge_stats_rebuild_sound.
Check Tie_judge_update.
Check Tie_judge_update_counts.
Check Tie_judge_update_sound.

Print Assumptions Tie_judge_exhaust.
Print Assumptions Tie_judge_exhaust_sound.
Print Assumptions Tie_judge_exhaust_sound_wf.
Print Assumptions Tie_judge_stats.
Print Assumptions Tie_judge_stats_value.
Print Assumptions Tie_judge_stats_sound.
Print Assumptions Tie_judge_stats_rebuild.
Print Assumptions Tie_judge_stats_rebuild_sound.
Print Assumptions Tie_judge_stats_rebuild_conservative.
Print Assumptions Tie_judge_update.
Print Assumptions Tie_judge_update_counts.
Print Assumptions Tie_judge_same_book.
Print Assumptions Tie_judge_same_book_except.
Print Assumptions Tie_judge_update_sound.
Print Assumptions Tie_judge_update_sound_reachable.

(* ---- the judges of the CONCURRENT properties (Spec/ConcJudges.v; C03 re-uses agg_b): checker <=> Prop,
   and property theorem => the checker accepts the observations of every run of Model/Conc.v
   (Proofs/ConcJudgeProofs.v uses C12_every_prefix / C12_counters_bounded, C03_reachable,
   C08_no_double_handout / C08_handout_is_initial / C08_trace_cell / C08_map_nodup_step and
   C03_quiescent_aggregates by name). ---- *)
From PL Require Import Model.Conc Spec.CovSpec Spec.ConcJudges Proofs.ConcJudgeProofs.
From PL Require Spec.ConcSpec.

(* C12 *)
Theorem Tie_judge_range : forall rows,
  range_b rows = true <->
  forall sq sn cv ch cc, In ((sq, sn), (cv, ch, cc)) rows ->
    cv <= sq /\ ch <= sq /\ cv + ch <= sq /\ cc <= sn.
Proof. exact range_b_spelled. Qed.

Theorem Tie_judge_range_named : forall rows, range_b rows = true <-> RangeOK rows.
Proof. exact range_b_iff. Qed.

(* the observations of a model run: the counters after every prefix of the schedule; any bounds that
   are at least Supplied c0 / OrdersB c0 *)
Theorem Tie_judge_range_sound : forall mf, I_cons mf ->
  forall sched c0, ConcSpec.Inv c0 ->
  forall bounds : list (N * N),
    Forall (fun b => ConcSpec.Supplied c0 <= fst b /\ ConcSpec.OrdersB c0 <= snd b) bounds ->
    range_b (combine bounds
               (map (fun n => let s := cf_sh (fst (exec mf (firstn n sched) c0)) in
                              (sh_cvis s, sh_chid s, sh_ccnt s))
                    (seq 0 (S (length sched))))) = true.
Proof. exact range_judge_sound. Qed.

(* "supplied so far": what the calls still to begin will supply may be left out of the bound *)
Theorem Tie_judge_range_sound_so_far : forall mf, I_cons mf ->
  forall sched n c0, ConcSpec.Inv c0 ->
  forall sq sn,
    let c := fst (exec mf (firstn n sched) c0) in
    ConcSpec.Supplied c0 -
      ConcSpec.tsum (fun t => ConcSpec.todo_budget (sh_price (cf_sh c)) (th_todo t)) (cf_threads c) <= sq ->
    ConcSpec.OrdersB c0 -
      ConcSpec.tsum (fun t => ConcSpec.todo_bc (th_todo t)) (cf_threads c) <= sn ->
    range_b [((sq, sn), (sh_cvis (cf_sh c), sh_chid (cf_sh c), sh_ccnt (cf_sh c)))] = true.
Proof. exact range_judge_sound_so_far. Qed.

(* C08 *)
Theorem Tie_judge_handout : forall init tr,
  handout_b init tr = true <->
  (forall k t1 i o1 t2 j o2 t3,
      tr = t1 ++ (i, ERemove k (Some o1)) :: t2 ++ (j, ERemove k (Some o2)) :: t3 -> inserts k t2) /\
  (forall k t1 j o t2,
      tr = t1 ++ (j, ERemove k (Some o)) :: t2 -> inserts k t1 \/ In k init).
Proof. intros init tr. exact (handout_b_iff tr init). Qed.

Theorem Tie_judge_handout_sound : forall mf sched c c' tr,
  exec mf sched c = (c', tr) -> handout_b (ids (sh_map (cf_sh c))) tr = true.
Proof. exact handout_judge_sound. Qed.

Theorem Tie_judge_cells : forall m tr,
  cells_b m tr = true <-> forall k, trace_ok k (lookup k m) tr.
Proof. intros m tr. exact (cells_b_iff tr m). Qed.

Theorem Tie_judge_final_cells : forall m tr fin,
  final_cells_b m tr fin = true <-> forall k, lookup k fin = cell_after k (lookup k m) tr.
Proof. exact final_cells_b_iff. Qed.

Theorem Tie_judge_cells_subsumes_handout : forall m tr,
  cells_b m tr = true -> handout_b (ids m) tr = true.
Proof. exact cells_b_handout_b. Qed.

Theorem Tie_judge_cells_sound : forall mf sched c c' tr,
  exec mf sched c = (c', tr) ->
  cells_b (sh_map (cf_sh c)) tr = true /\
  forall fin, (forall k, lookup k fin = lookup k (sh_map (cf_sh c'))) ->
    final_cells_b (sh_map (cf_sh c)) tr fin = true.
Proof. exact cells_judge_sound. Qed.

Theorem Tie_judge_cells_sound_listing : forall mf sched c c' tr fin,
  exec mf sched c = (c', tr) ->
  NoDup (ids (sh_map (cf_sh c))) ->
  Permutation fin (sh_map (cf_sh c')) ->
  final_cells_b (sh_map (cf_sh c)) tr fin = true.
Proof. exact cells_judge_sound_listing. Qed.

Theorem Tie_judge_drained : forall remaining after cv ch cc,
  drained_b remaining after cv ch cc = true <->
  (0 < remaining -> forall o, In o after -> vis o = 0) /\
  cv = sumv after /\ ch = sumh after /\ cc = N.of_nat (length after).
Proof. exact drained_b_iff. Qed.

Theorem Tie_judge_drained_sound : forall mf, I_cons mf ->
  forall l gen progs sched c tr fuel g qty taker l' g' r after,
    ConcSpec.wf_progs l progs -> Covered (lq l) ->
    exec mf sched (ConcSpec.init_config l gen progs) = (c, tr) ->
    quiescent c = true ->
    match_order mf fuel (level_of_config c) g qty taker = Some (l', g', r) ->
    Permutation after (resting l') ->
    drained_b (r_remaining r) after (cvis l') (chid l') (ccnt l') = true.
Proof. exact drain_judge_sound. Qed.

(* C03 *)
Theorem Tie_judge_quiescent_agg_sound : forall mf, I_cons mf ->
  forall sched c0, ConcSpec.Inv c0 ->
  let c := fst (exec mf sched c0) in
  quiescent c = true ->
  forall listing, Permutation listing (sh_map (cf_sh c)) ->
    agg_b (sh_cvis (cf_sh c)) (sh_chid (cf_sh c)) (sh_ccnt (cf_sh c)) listing = true.
Proof. exact quiescent_agg_judge_sound. Qed.

(* not vacuous: each judge rejects a wrong observation *)
Example Tie_judge_range_rejects :
  range_b [((30, 3), (19, 11, 3)); ((30, 3), (10, 0, 2))] = true /\
  range_b [((30, 3), (19, 12, 3))] = false /\                       (* visible + hidden above the supply *)
  range_b [((30, 3), (18446744073709551611, 0, 3))] = false /\       (* a wrapped counter: 2^64 - 5 *)
  range_b [((30, 3), (10, 0, 2)); ((30, 3), (10, 0, 4))] = false.
Proof. vm_compute. repeat split. Qed.

Example Tie_judge_handout_rejects :
  let a := Standard (mkCommon (Uuid 1) 100 Sell 1 Gtc) 5 in
  let a' := Standard (mkCommon (Uuid 1) 100 Sell 1 Gtc) 2 in
  handout_b [Uuid 1] [(0%nat, ERemove (Uuid 1) (Some a)); (1%nat, ERemove (Uuid 1) None);
                      (0%nat, EInsert a'); (1%nat, ERemove (Uuid 1) (Some a'))] = true /\
  handout_b [Uuid 1] [(0%nat, ERemove (Uuid 1) (Some a)); (1%nat, ERemove (Uuid 1) (Some a))] = false /\
  handout_b [] [(0%nat, ERemove (Uuid 1) (Some a))] = false /\
  cells_b [a] [(0%nat, ERemove (Uuid 1) (Some a)); (1%nat, ERemove (Uuid 1) None);
               (0%nat, EInsert a'); (1%nat, EGet (Uuid 1) (Some a'))] = true /\
  cells_b [a] [(0%nat, EGet (Uuid 1) (Some a')); (1%nat, ERemove (Uuid 1) (Some a))] = false /\
  cells_b [a] [(1%nat, ERemove (Uuid 1) None)] = false /\
  final_cells_b [a] [(0%nat, ERemove (Uuid 1) (Some a)); (0%nat, EInsert a')] [a'] = true /\
  final_cells_b [a] [(0%nat, ERemove (Uuid 1) (Some a)); (0%nat, EInsert a')] [a] = false /\
  final_cells_b [a] [(0%nat, ERemove (Uuid 1) (Some a))] [a] = false.
Proof. vm_compute. repeat split. Qed.

Example Tie_judge_drained_rejects :
  let z := Iceberg (mkCommon (Uuid 2) 100 Sell 2 Gtc) 0 7 in
  let a := Standard (mkCommon (Uuid 1) 100 Sell 1 Gtc) 5 in
  drained_b 9 [z] 0 7 1 = true /\ drained_b 9 [] 0 0 0 = true /\ drained_b 0 [a] 5 0 1 = true /\
  drained_b 9 [a] 5 0 1 = false /\            (* quantity remaining although an order still displays quantity *)
  drained_b 9 [z] 0 7 2 = false /\ drained_b 9 [] 0 7 1 = false.   (* aggregates that do not describe what remains *)
Proof. vm_compute. repeat split. Qed.

Check Tie_judge_range.
Check Tie_judge_range_sound.
Check Tie_judge_range_sound_so_far.
Check Tie_judge_handout.
Check Tie_judge_handout_sound.
Check Tie_judge_cells.
Check Tie_judge_final_cells.
Check Tie_judge_cells_sound.
Check Tie_judge_drained.
Check Tie_judge_drained_sound.
Check Tie_judge_quiescent_agg_sound.

Print Assumptions Tie_judge_range.
Print Assumptions Tie_judge_range_named.
Print Assumptions Tie_judge_range_sound.
Print Assumptions Tie_judge_range_sound_so_far.
Print Assumptions Tie_judge_handout.
Print Assumptions Tie_judge_handout_sound.
Print Assumptions Tie_judge_cells.
Print Assumptions Tie_judge_final_cells.
Print Assumptions Tie_judge_cells_subsumes_handout.
Print Assumptions Tie_judge_cells_sound.
Print Assumptions Tie_judge_cells_sound_listing.
Print Assumptions Tie_judge_drained.
Print Assumptions Tie_judge_drained_sound.
Print Assumptions Tie_judge_quiescent_agg_sound.
