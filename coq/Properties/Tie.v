(* Tie.v — theorems about the machinery that ties the model to the code (not one of
   the 19 properties): the boolean interface checker applied to the implementation's
   match_against answers decides [I_cons]; see also Properties/SeqConc.v
   ([accept_sound], [run_alone_*]: one thread of Model/Conc.v = Model/Level.v). *)
From PL Require Import Model.Order Spec.Iface Spec.Hist Proofs.OrderProofs Proofs.IfaceProofs.
Local Open Scope N_scope.

Theorem Tie_interface_checker_decides : forall mf,
  (forall o inc, i_cons_b o inc (mf o inc) = true) <-> I_cons mf.
Proof. exact i_cons_b_decides. Qed.

Theorem Tie_interface_checker_accepts_model : forall o inc, i_cons_b o inc (match_against o inc) = true.
Proof. exact i_cons_b_match_against. Qed.

Print Assumptions Tie_interface_checker_decides.
Print Assumptions Tie_interface_checker_accepts_model.

(* The judges applied to the implementation's observations are the statements themselves. *)
From PL Require Import Spec.Judges Proofs.JudgeProofs Model.Level.
From Coq Require Import Sorted.

Theorem Tie_judge_agg : forall l, agg_b (cvis l) (chid l) (ccnt l) (resting l) = true <-> Agg l.
Proof. exact agg_b_level. Qed.

Theorem Tie_judge_listing : forall l, listing_ok_b l = true <-> NoDup (ids l) /\ Sorted ts_le l.
Proof. exact listing_ok_b_iff. Qed.

Theorem Tie_judge_accounting : forall p qty taker before r,
  accounting_b p qty taker before r = true <->
  sum_qty (r_txs r) + r_remaining r = qty /\
  (r_complete r = true <-> r_remaining r = 0) /\
  Forall (fun t => 0 < tx_qty t /\ tx_price t = p /\ tx_taker t = taker /\
                   exists o, lookup (tx_maker t) before = Some o /\ tx_side t = opposite (side_of o)) (r_txs r).
Proof. exact accounting_b_iff. Qed.

Print Assumptions Tie_judge_agg.
Print Assumptions Tie_judge_listing.
Print Assumptions Tie_judge_accounting.

(* ---- C06 / C07 / C15: checker <=> Prop, and property theorem => checker accepts
   (Proofs/JudgeBridge.v uses C06_lower / C06_exhausts, C07_remove_* / C07_amend_* /
   C07_update_price_same_rejected, C15_stats_mod / C15_value_executed_const by name).
   [before] / [after] are any listings (permutations) of the resting orders. ---- *)
From PL Require Import Spec.StatsSpec Spec.LedgerSpec Proofs.JudgeBridge.

Theorem Tie_judge_exhaust : forall qty before after executed remaining,
  exhaust_b qty before after executed remaining = true <->
  N.min qty (sumv before) <= executed /\
  (0 < remaining -> forall o, In o after -> vis o = 0).
Proof. exact exhaust_b_iff. Qed.

Theorem Tie_judge_exhaust_sound : forall mf, I_cons mf ->
  forall fuel l g qty taker l' g' r before after,
    Inv l -> qty < W ->
    match_order mf fuel l g qty taker = Some (l', g', r) ->
    Permutation before (resting l) -> Permutation after (resting l') ->
    exhaust_b qty before after (executed_quantity r) (r_remaining r) = true.
Proof. exact exhaust_judge_sound. Qed.

Theorem Tie_judge_exhaust_sound_wf : forall mf, I_cons mf ->
  forall fuel l g qty taker l' g' r before after,
    WfQueue (lq l) ->
    match_order mf fuel l g qty taker = Some (l', g', r) ->
    Permutation before (resting l) -> Permutation after (resting l') ->
    exhaust_b qty before after (executed_quantity r) (r_remaining r) = true.
Proof. exact exhaust_judge_sound_wf. Qed.

Theorem Tie_judge_stats : forall p h added removed qty value,
  stats_b p h added removed qty value = true <->
  added = n_added h mod W /\ removed = n_removed p h mod W /\
  qty = qty_executed h mod W /\ value = val_executed h mod W /\
  Forall (ev_tx_price p) h.
Proof. exact stats_b_iff. Qed.

(* the value summed from the transactions is quantity x price once they all carry the level price *)
Theorem Tie_judge_stats_value : forall p h,
  Forall (ev_tx_price p) h -> val_executed h = qty_executed h * p.
Proof. exact val_executed_price. Qed.

Theorem Tie_judge_stats_sound : forall mf, I_id mf ->
  forall p g0 ops l g outs,
    steps mf (new_level p, g0) ops (l, g) outs -> no_rebuild ops = true ->
    all_added_at p ops ->
    stats_b p (combine ops outs)
            (s_added (st l)) (s_removed (st l)) (s_qty (st l)) (s_value (st l)) = true.
Proof. exact stats_judge_sound. Qed.

Theorem Tie_judge_update : forall p before u r after,
  update_ok_b p before u r after = true <-> UpdateOk p before u r after.
Proof. exact update_ok_b_iff. Qed.

Theorem Tie_judge_update_counts : forall p before u cv ch cc cv' ch' cc',
  update_counts_b p before u cv ch cc cv' ch' cc' = true <->
  UpdateCounts p before u cv ch cc cv' ch' cc'.
Proof. exact update_counts_b_iff. Qed.

(* the two helpers of UpdateOk decide equality of finite maps *)
Theorem Tie_judge_same_book : forall a b,
  same_book_b a b = true <-> (forall k, lookup k a = lookup k b).
Proof. exact same_book_b_iff. Qed.

Theorem Tie_judge_same_book_except : forall k a b,
  same_book_except_b k a b = true <-> (forall k', k' <> k -> lookup k' a = lookup k' b).
Proof. exact same_book_except_b_iff. Qed.

Theorem Tie_judge_update_sound : forall l u l' r before after,
  NoDup (ids (resting l)) ->
  update_order l u = (l', r) ->
  Permutation before (resting l) -> Permutation after (resting l') ->
  update_ok_b (price l) before u r after = true /\
  update_counts_b (price l) before u (cvis l) (chid l) (ccnt l) (cvis l') (chid l') (ccnt l') = true.
Proof. exact update_judge_sound. Qed.

Theorem Tie_judge_update_sound_reachable : forall mf l g u l' r before after,
  reachable mf (l, g) ->
  update_order l u = (l', r) ->
  Permutation before (resting l) -> Permutation after (resting l') ->
  update_ok_b (price l) before u r after = true /\
  update_counts_b (price l) before u (cvis l) (chid l) (ccnt l) (cvis l') (chid l') (ccnt l') = true.
Proof. exact update_judge_sound_reachable. Qed.

(* the judges are not vacuous: each rejects a wrong observation *)
Example Tie_judge_exhaust_rejects :
  let o := Standard (mkCommon (Uuid 1) 100 Sell 1 Gtc) 5 in
  exhaust_b 3 [o] [o] 0 3 = false /\ exhaust_b 9 [o] [o] 5 4 = false /\ exhaust_b 9 [o] [] 5 4 = true.
Proof. vm_compute. repeat split. Qed.

Example Tie_judge_update_rejects :
  let a := Standard (mkCommon (Uuid 1) 100 Sell 1 Gtc) 5 in
  let b := Iceberg (mkCommon (Uuid 2) 100 Sell 2 Gtc) 4 9 in
  let b' := Iceberg (mkCommon (Uuid 2) 100 Sell 2 Gtc) 1 9 in
  update_ok_b 100 [a; b] (Cancel (Uuid 1)) (UOk (Some a)) [b] = true /\
  update_ok_b 100 [a; b] (Cancel (Uuid 1)) (UOk (Some a)) [a; b] = false /\
  update_ok_b 100 [a; b] (Cancel (Uuid 1)) (UOk (Some a)) [b'] = false /\
  update_ok_b 100 [a; b] (Cancel (Uuid 1)) (UOk None) [b] = false /\
  update_ok_b 100 [a; b] (UpdateQuantity (Uuid 2) 1) (UOk (Some b')) [b'; a] = true /\
  update_ok_b 100 [a; b] (UpdateQuantity (Uuid 2) 1) (UOk (Some b')) [a; b] = false /\
  update_ok_b 100 [a; b] (UpdatePrice (Uuid 2) 100) UErr [b; a] = true /\
  update_ok_b 100 [a; b] (UpdatePrice (Uuid 2) 100) (UOk None) [a; b] = false /\
  update_counts_b 100 [a; b] (Cancel (Uuid 1)) 9 9 2 4 9 1 = true /\
  update_counts_b 100 [a; b] (Cancel (Uuid 1)) 9 9 2 9 9 1 = false /\
  update_counts_b 100 [a; b] (UpdateQuantity (Uuid 2) 1) 9 9 2 6 9 2 = true.
Proof. vm_compute. repeat split. Qed.

Example Tie_judge_stats_rejects :
  let a := Standard (mkCommon (Uuid 1) 100 Sell 1 Gtc) 5 in
  let t := mkTx 0 (Uuid 9) (Uuid 1) 100 5 Buy in
  let h := [(OAdd a, OutAdd a); (OMatch 5 (Uuid 9), OutMatch (mkResult (Uuid 9) [t] 0 true [Uuid 1]));
            (OUpdate (Cancel (Uuid 1)), OutUpdate (UOk None))] in
  stats_b 100 h 1 0 5 500 = true /\ stats_b 100 h 1 1 5 500 = false /\
  stats_b 100 h 1 0 5 0 = false /\ stats_b 101 h 1 0 5 500 = false.
Proof. vm_compute. repeat split. Qed.

Check Tie_judge_exhaust.
Check Tie_judge_exhaust_sound.
Check Tie_judge_stats.
Check Tie_judge_stats_sound.
Check Tie_judge_update.
Check Tie_judge_update_counts.
Check Tie_judge_update_sound.

Print Assumptions Tie_judge_exhaust.
Print Assumptions Tie_judge_exhaust_sound.
Print Assumptions Tie_judge_exhaust_sound_wf.
Print Assumptions Tie_judge_stats.
Print Assumptions Tie_judge_stats_value.
Print Assumptions Tie_judge_stats_sound.
Print Assumptions Tie_judge_update.
Print Assumptions Tie_judge_update_counts.
Print Assumptions Tie_judge_same_book.
Print Assumptions Tie_judge_same_book_except.
Print Assumptions Tie_judge_update_sound.
Print Assumptions Tie_judge_update_sound_reachable.
