(* Tie.v — theorems about the machinery that ties the model to the code (not one of
   the 19 properties): the boolean interface checker applied to the implementation's
   match_against answers decides [I_cons]; see also Properties/SeqConc.v
   ([accept_sound], [run_alone_*]: one thread of Model/Conc.v = Model/Level.v). *)
From PL Require Import Model.Order Spec.Iface Spec.Hist Proofs.OrderProofs Proofs.IfaceProofs.
Local Open Scope N_scope.

Theorem Tie_interface_checker_decides : forall mf,
  (forall o inc, i_cons_b o inc (mf o inc) = true) <-> I_cons mf.
Proof. exact i_cons_b_decides. Qed.

Theorem Tie_interface_checker_accepts_model : forall o inc, i_cons_b o inc (match_against o inc) = true.
Proof. exact i_cons_b_match_against. Qed.

Print Assumptions Tie_interface_checker_decides.
Print Assumptions Tie_interface_checker_accepts_model.

(* The judges applied to the implementation's observations are the statements themselves. *)
From PL Require Import Spec.Judges Proofs.JudgeProofs Model.Level.
From Coq Require Import Sorted.

Theorem Tie_judge_agg : forall l, agg_b (cvis l) (chid l) (ccnt l) (resting l) = true <-> Agg l.
Proof. exact agg_b_level. Qed.

Theorem Tie_judge_listing : forall l, listing_ok_b l = true <-> NoDup (ids l) /\ Sorted ts_le l.
Proof. exact listing_ok_b_iff. Qed.

Theorem Tie_judge_accounting : forall p qty taker before r,
  accounting_b p qty taker before r = true <->
  sum_qty (r_txs r) + r_remaining r = qty /\
  (r_complete r = true <-> r_remaining r = 0) /\
  Forall (fun t => 0 < tx_qty t /\ tx_price t = p /\ tx_taker t = taker /\
                   exists o, lookup (tx_maker t) before = Some o /\ tx_side t = opposite (side_of o)) (r_txs r).
Proof. exact accounting_b_iff. Qed.

Print Assumptions Tie_judge_agg.
Print Assumptions Tie_judge_listing.
Print Assumptions Tie_judge_accounting.
