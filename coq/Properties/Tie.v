(* Tie.v — theorems about the machinery that ties the model to the code (not one of
   the 19 properties): the boolean interface checker applied to the implementation's
   match_against answers decides [I_cons]; see also Properties/SeqConc.v
   ([accept_sound], [run_alone_*]: one thread of Model/Conc.v = Model/Level.v). *)
From PL Require Import Model.Order Spec.Iface Spec.Hist Proofs.OrderProofs Proofs.IfaceProofs.
Local Open Scope N_scope.

Theorem Tie_interface_checker_decides : forall mf,
  (forall o inc, i_cons_b o inc (mf o inc) = true) <-> I_cons mf.
Proof. exact i_cons_b_decides. Qed.

Theorem Tie_interface_checker_accepts_model : forall o inc, i_cons_b o inc (match_against o inc) = true.
Proof. exact i_cons_b_match_against. Qed.

Print Assumptions Tie_interface_checker_decides.
Print Assumptions Tie_interface_checker_accepts_model.
