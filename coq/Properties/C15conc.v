(* C15 (concurrent half) — Level statistics agree with the events that actually happened.
   Only statements live here; proofs are in Proofs/ConcStats.v and Proofs/ConcValue.v.

   For EVERY program, schedule and number of threads, under the no-wrap bounds
   [StatsBound] / [ValueBound] (implied for initial configurations by [wf_stats]):

   * invariant form, at EVERY reachable configuration (C15_reachable, C15_value_reachable):
       orders_added   + (add calls whose increment is still to come)  is constant,
       (add calls past their increment) + (those still to come)       is constant,
       orders_removed = initial + number of OSRemoved increments in the trace, and such an
                        increment is exactly the last step of a cancel / price move that
                        found its order and returns UOk (Some o)          (C15_removed_source),
       quantity_executed + (taken off a maker, not yet recorded) = initial + executed so far
                        (the [lg_exec] accumulator of C03's ledger),
       quantity_executed + (in a transaction, not yet recorded)  = initial + sum of the
                        quantities of all transactions created so far,
       value_executed: the same two equations scaled by the level price P, when every
                        order is priced at P ([PInv], preserved by every step);
   * at quiescence, from an initial configuration (C15_quiescent, C15_quiescent_value):
       orders_added      = initial + number of CAdd calls of the program (schedule-independent),
       orders_removed    = initial + number of successful cancels / price moves,
       quantity_executed = initial + sum of tx_qty over all returned match results
                         = initial + quantity executed in C03's ledger,
       value_executed    = initial + level price * that sum.
   Successful cancels are counted by their statistics event in the trace, not by
   the calls' return values (a RetUpd (UOk (Some _)) alone does not tell a cancel
   from an amend); [orders_executed] is not covered. *)
From PL Require Import Spec.ConcSpec Spec.ConcExample Proofs.OrderProofs Proofs.ConcInv Proofs.ConcThms
  Proofs.ConcStats Proofs.ConcValue.
Local Open Scope N_scope.

Theorem C15_reachable :
  forall mf, I_cons mf ->
  forall sched c0, Inv c0 -> StatsBound c0 ->
    let c := fst (exec mf sched c0) in
    let tr := snd (exec mf sched c0) in
    st_added c + AddsGo c = st_added c0 + AddsGo c0 /\
    AddsDone c + AddsGo c = AddsDone c0 + AddsGo c0 /\
    st_removed c = st_removed c0 + count_ev is_removed_ev tr /\
    st_qty c + QGo c = st_qty c0 + QGo c0 + lg_exec (run_ledger mf sched c0 ledger0) /\
    st_qty c + PQ c + TXQ c0 = st_qty c0 + PQ c0 + TXQ c.
Proof. exact exec_stats0. Qed.

Theorem C15_value_reachable :
  forall mf, I_cons mf ->
  forall P sched c0, Inv c0 -> PInv P c0 -> ValueBound P c0 ->
    let c := fst (exec mf sched c0) in
    st_value c + VGo P c = st_value c0 + VGo P c0 + P * lg_exec (run_ledger mf sched c0 ledger0) /\
    st_value c + VPQ P c + P * TXQ c0 = st_value c0 + VPQ P c0 + P * TXQ c /\
    PInv P c.
Proof. exact exec_value0. Qed.

Theorem C15_removed_source :
  forall mf c i c' e,
    cstep mf c i = Some (c', e) ->
    exists t p' s',
      nth_error (cf_threads c) i = Some t /\
      tstep mf (th_pc t) (cf_sh c) = Some (p', s', e) /\
      (is_removed_ev e = true <-> exists o, th_pc t = C5 o) /\
      (forall o, th_pc t = C5 o -> p' = Done (RetUpd (UOk (Some o)))).
Proof. exact cstep_removed. Qed.

Theorem C15_quiescent :
  forall mf, I_cons mf ->
  forall l gen progs sched,
    wf_progs l progs -> wf_stats l progs ->
    let c0 := init_config l gen progs in
    let c := fst (exec mf sched c0) in
    let tr := snd (exec mf sched c0) in
    quiescent c = true ->
    st_added c = s_added (st l) + prog_bc progs /\
    RetAdds c = prog_bc progs /\
    st_removed c = s_removed (st l) + count_ev is_removed_ev tr /\
    st_qty c = s_qty (st l) + RetTxq c /\
    RetTxq c = lg_exec (run_ledger mf sched c0 ledger0).
Proof. exact init_quiescent_stats. Qed.

Theorem C15_quiescent_value :
  forall mf, I_cons mf ->
  forall l gen progs sched,
    wf_progs l progs -> wf_stats l progs -> wf_prices l progs ->
    let c0 := init_config l gen progs in
    let c := fst (exec mf sched c0) in
    quiescent c = true ->
    st_value c = s_value (st l) + price l * RetTxq c /\
    PInv (price l) c.
Proof. exact init_quiescent_value. Qed.

(* the per-result sum is the executed quantity of Model/Level.v *)
Theorem C15_txsum_executed_quantity :
  forall r, txsum (r_txs r) = executed_quantity r.
Proof. exact txsum_executed_quantity. Qed.

(* for the implementation's per-order function *)
Theorem C15_match_against :
  forall l gen progs sched,
    wf_progs l progs -> wf_stats l progs -> wf_prices l progs ->
    let c0 := init_config l gen progs in
    let c := fst (exec match_against sched c0) in
    let tr := snd (exec match_against sched c0) in
    quiescent c = true ->
    st_added c = s_added (st l) + prog_bc progs /\
    st_removed c = s_removed (st l) + count_ev is_removed_ev tr /\
    st_qty c = s_qty (st l) + RetTxq c /\
    st_value c = s_value (st l) + price l * RetTxq c.
Proof. exact init_quiescent_match_against. Qed.

(* ---- non-vacuity ---- *)
Example C15_example_wf : wf_progs ex_level ex_progs /\ wf_stats ex_level ex_progs /\ wf_prices ex_level ex_progs.
Proof. exact ex_wf_all. Qed.

Example C15_example_run :
  let run := exec match_against ex_sched ex_c0 in
  let c := fst run in
  quiescent c = true /\
  (st_added ex_c0, st_removed ex_c0, st_qty ex_c0, st_value ex_c0) = (3, 0, 0, 0) /\
  (st_added c, st_removed c, st_qty c, st_value c) = (4, 1, 16, 1600) /\
  prog_bc ex_progs = 1 /\ count_ev is_removed_ev (snd run) = 1 /\ RetTxq c = 16 /\ RetAdds c = 1.
Proof. vm_compute. repeat split. Qed.

Check C15_quiescent : forall mf, I_cons mf ->
  forall l gen progs sched,
    wf_progs l progs -> wf_stats l progs ->
    let c0 := init_config l gen progs in
    let c := fst (exec mf sched c0) in
    let tr := snd (exec mf sched c0) in
    quiescent c = true ->
    st_added c = s_added (st l) + prog_bc progs /\
    RetAdds c = prog_bc progs /\
    st_removed c = s_removed (st l) + count_ev is_removed_ev tr /\
    st_qty c = s_qty (st l) + RetTxq c /\
    RetTxq c = lg_exec (run_ledger mf sched c0 ledger0).
Check C15_quiescent_value : forall mf, I_cons mf ->
  forall l gen progs sched,
    wf_progs l progs -> wf_stats l progs -> wf_prices l progs ->
    let c0 := init_config l gen progs in
    let c := fst (exec mf sched c0) in
    quiescent c = true ->
    st_value c = s_value (st l) + price l * RetTxq c /\
    PInv (price l) c.

Print Assumptions C15_reachable.
Print Assumptions C15_value_reachable.
Print Assumptions C15_removed_source.
Print Assumptions C15_quiescent.
Print Assumptions C15_quiescent_value.
Print Assumptions C15_txsum_executed_quantity.
Print Assumptions C15_match_against.
Print Assumptions C15_example_wf.
Print Assumptions C15_example_run.
