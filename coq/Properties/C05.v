(* C05 — Per-order matching follows the documented iceberg / reserve / plain rules.
   Only statements live here; proofs are in Proofs/OrderProofs.v. *)
From PL Require Import Model.Order Spec.MatchSpec Proofs.OrderProofs.
Local Open Scope N_scope.

(* The code agrees with the declarative rules for every order and every quantity. *)
Theorem C05_match_against_spec :
  forall o inc, match_against o inc = match_spec o inc.
Proof. exact match_against_eq_spec. Qed.

(* Consumes exactly the smaller of the incoming and the displayed quantity. *)
Theorem C05_consumed :
  forall o inc, m_consumed (match_against o inc) = N.min inc (vis o).
Proof. exact consumed_min. Qed.

Theorem C05_remaining :
  forall o inc, m_remaining (match_against o inc) = inc - m_consumed (match_against o inc).
Proof. exact remaining_eq. Qed.

(* Conserves the order's total unless it leaves; identity never changes. *)
Theorem C05_conservation :
  forall o inc u,
    m_updated (match_against o inc) = Some u ->
    vis u + hid u + m_consumed (match_against o inc) = vis o + hid o /\
    hid u + m_hidden_reduced (match_against o inc) = hid o /\
    same_identity o u.
Proof. exact conservation. Qed.

Theorem C05_leaves :
  forall o inc,
    m_updated (match_against o inc) = None ->
    m_hidden_reduced (match_against o inc) = 0 /\ vis o <= inc.
Proof. intros o inc H. split; [exact (leaves_hidden_reduced o inc H) | exact (leaves_exhausted o inc H)]. Qed.

(* Nothing overflows when displayed + hidden fits in 64 bits. *)
Theorem C05_bounded :
  forall o inc, wf_order o -> inc < W ->
    let r := match_against o inc in
    m_consumed r < W /\ m_hidden_reduced r < W /\ m_remaining r < W /\
    match m_updated r with Some u => wf_order u | None => True end.
Proof. exact match_against_bounded. Qed.

(* Non-vacuity: concrete orders that replenish, meet the hypotheses. *)
Example C05_reserve_example :
  let c := mkCommon (Uuid 7) 100 Sell 5 Gtc in
  let o := Reserve c 10 200 0 None true in
  wf_order o /\
  match_against o 10 = mkMres 10 (Some (Reserve c 80 120 0 None true)) 80 0 /\
  match_against o 4 = mkMres 4 (Some (Reserve c 6 200 0 None true)) 0 0.
Proof. cbv. repeat split; try reflexivity. Qed.

Example C05_iceberg_example :
  let c := mkCommon (Ulid 9) 100 Buy 5 (Gtd 77) in
  match_against (Iceberg c 5 3) 9 = mkMres 5 (Some (Iceberg c 3 0)) 3 4 /\
  match_against (Iceberg c 5 0) 9 = mkMres 5 None 0 4.
Proof. cbv. split; reflexivity. Qed.

Check C05_match_against_spec : forall o inc, match_against o inc = match_spec o inc.
Check C05_consumed : forall o inc, m_consumed (match_against o inc) = N.min inc (vis o).
Check C05_conservation : forall o inc u,
    m_updated (match_against o inc) = Some u ->
    vis u + hid u + m_consumed (match_against o inc) = vis o + hid o /\
    hid u + m_hidden_reduced (match_against o inc) = hid o /\
    same_identity o u.

Print Assumptions C05_match_against_spec.
Print Assumptions C05_consumed.
Print Assumptions C05_remaining.
Print Assumptions C05_conservation.
Print Assumptions C05_leaves.
Print Assumptions C05_bounded.
