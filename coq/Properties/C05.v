(* C05 — Per-order matching follows the documented iceberg / reserve / plain rules.
   Only statements live here; proofs are in Proofs/OrderProofs.v. *)
From PL Require Import Model.Order Spec.MatchSpec Proofs.OrderProofs Proofs.OrderClauses.
Local Open Scope N_scope.

(* The code agrees with the declarative rules for every order and every quantity. *)
Theorem C05_match_against_spec :
  forall o inc, match_against o inc = match_spec o inc.
Proof. exact match_against_eq_spec. Qed.

(* Consumes exactly the smaller of the incoming and the displayed quantity. *)
Theorem C05_consumed :
  forall o inc, m_consumed (match_against o inc) = N.min inc (vis o).
Proof. exact consumed_min. Qed.

Theorem C05_remaining :
  forall o inc, m_remaining (match_against o inc) = inc - m_consumed (match_against o inc).
Proof. exact remaining_eq. Qed.

(* Conserves the order's total unless it leaves; identity never changes. *)
Theorem C05_conservation :
  forall o inc u,
    m_updated (match_against o inc) = Some u ->
    vis u + hid u + m_consumed (match_against o inc) = vis o + hid o /\
    hid u + m_hidden_reduced (match_against o inc) = hid o /\
    same_identity o u.
Proof. exact conservation. Qed.

Theorem C05_leaves :
  forall o inc,
    m_updated (match_against o inc) = None ->
    m_hidden_reduced (match_against o inc) = 0 /\ vis o <= inc.
Proof. intros o inc H. split; [exact (leaves_hidden_reduced o inc H) | exact (leaves_exhausted o inc H)]. Qed.

(* Nothing overflows when displayed + hidden fits in 64 bits. *)
Theorem C05_bounded :
  forall o inc, wf_order o -> inc < W ->
    let r := match_against o inc in
    m_consumed r < W /\ m_hidden_reduced r < W /\ m_remaining r < W /\
    match m_updated r with Some u => wf_order u | None => True end.
Proof. exact match_against_bounded. Qed.

(* ---- the rules clause by clause, directly on match_against --------------------------------
   (C05_match_against_spec says the same through the declarative [match_spec]; these spell
   the property's sentences out so that each can be read against the text.) *)

(* "An iceberg whose display is exhausted shows a new tranche no larger than the exhausted
   one, taken from hidden quantity ..." *)
Theorem C05_iceberg_tranche :
  forall c v h inc, v <= inc -> 0 < h ->
    let r := N.min h v in
    match_against (Iceberg c v h) inc = mkMres v (Some (Iceberg c r (h - r))) r (inc - v) /\
    r <= v /\ r <= h /\ r + (h - r) = h.
Proof. exact iceberg_tranche. Qed.

(* "... and leaves when nothing is hidden" *)
Theorem C05_iceberg_leaves :
  forall c v inc, v <= inc ->
    match_against (Iceberg c v 0) inc = mkMres v None 0 (inc - v).
Proof. exact iceberg_leaves. Qed.

Theorem C05_iceberg_partial :
  forall c v h inc, inc < v ->
    match_against (Iceberg c v h) inc = mkMres inc (Some (Iceberg c (v - inc) h)) 0 0.
Proof. exact iceberg_partial. Qed.

(* "a reserve order replenishes by its configured amount (default 80, capped by hidden
   quantity) when its display is exhausted ..." *)
Theorem C05_reserve_exhausted_replenishes :
  forall c v h thr amt inc, v <= inc -> 0 < h ->
    let rq := N.min (match amt with Some a => a | None => 80 end) h in
    match_against (Reserve c v h thr amt true) inc
      = mkMres v (Some (Reserve c rq (h - rq) thr amt true)) rq (inc - v) /\
    rq <= h /\ rq + (h - rq) = h.
Proof. exact reserve_exhausted_replenishes. Qed.

(* "... or falls below its threshold (0 counts as 1) and only if auto-replenish is on" *)
Theorem C05_reserve_partial_replenishes :
  forall c v h thr amt inc, inc < v -> 0 < h -> v - inc < N.max thr 1 ->
    let rq := N.min (match amt with Some a => a | None => 80 end) h in
    match_against (Reserve c v h thr amt true) inc
      = mkMres inc (Some (Reserve c (v - inc + rq) (h - rq) thr amt true)) rq 0 /\ rq <= h.
Proof. exact reserve_partial_replenishes. Qed.

Theorem C05_reserve_partial_shrinks :
  forall c v h thr amt auto inc, inc < v ->
    h = 0 \/ auto = false \/ N.max thr 1 <= v - inc ->
    match_against (Reserve c v h thr amt auto) inc
      = mkMres inc (Some (Reserve c (v - inc) h thr amt auto)) 0 0.
Proof. exact reserve_partial_shrinks. Qed.

(* "otherwise it leaves once its display is exhausted" *)
Theorem C05_reserve_exhausted_leaves :
  forall c v h thr amt auto inc, v <= inc -> h = 0 \/ auto = false ->
    match_against (Reserve c v h thr amt auto) inc = mkMres v None 0 (inc - v).
Proof. exact reserve_exhausted_leaves. Qed.

(* "every other type just shrinks and leaves when filled" (and keeps its parameters) *)
Theorem C05_plain_rule :
  forall o inc, plain o = true ->
    hid o = 0 /\
    (vis o <= inc -> match_against o inc = mkMres (vis o) None 0 (inc - vis o)) /\
    (inc < vis o -> exists u,
       match_against o inc = mkMres inc (Some u) 0 0 /\
       vis u = vis o - inc /\ hid u = 0 /\ same_identity o u /\ plain u = true).
Proof. exact plain_rule. Qed.

(* the reserve clauses cover every reserve order and quantity: the case split is exhaustive *)
Example C05_reserve_cases_exhaustive :
  forall v h thr (auto : bool) inc,
    (v <= inc /\ 0 < h /\ auto = true) \/ (v <= inc /\ (h = 0 \/ auto = false)) \/
    (inc < v /\ 0 < h /\ auto = true /\ v - inc < N.max thr 1) \/
    (inc < v /\ (h = 0 \/ auto = false \/ N.max thr 1 <= v - inc)).
Proof. exact reserve_cases_exhaustive. Qed.

(* Non-vacuity: concrete orders that replenish, meet the hypotheses. *)
Example C05_reserve_example :
  let c := mkCommon (Uuid 7) 100 Sell 5 Gtc in
  let o := Reserve c 10 200 0 None true in
  wf_order o /\
  match_against o 10 = mkMres 10 (Some (Reserve c 80 120 0 None true)) 80 0 /\
  match_against o 4 = mkMres 4 (Some (Reserve c 6 200 0 None true)) 0 0.
Proof. cbv. repeat split; try reflexivity. Qed.

Example C05_iceberg_example :
  let c := mkCommon (Ulid 9) 100 Buy 5 (Gtd 77) in
  match_against (Iceberg c 5 3) 9 = mkMres 5 (Some (Iceberg c 3 0)) 3 4 /\
  match_against (Iceberg c 5 0) 9 = mkMres 5 None 0 4.
Proof. cbv. split; reflexivity. Qed.

Check C05_match_against_spec : forall o inc, match_against o inc = match_spec o inc.
Check C05_consumed : forall o inc, m_consumed (match_against o inc) = N.min inc (vis o).
Check C05_conservation : forall o inc u,
    m_updated (match_against o inc) = Some u ->
    vis u + hid u + m_consumed (match_against o inc) = vis o + hid o /\
    hid u + m_hidden_reduced (match_against o inc) = hid o /\
    same_identity o u.

Print Assumptions C05_match_against_spec.
Print Assumptions C05_consumed.
Print Assumptions C05_remaining.
Print Assumptions C05_conservation.
Print Assumptions C05_leaves.
Print Assumptions C05_bounded.
Print Assumptions C05_iceberg_tranche.
Print Assumptions C05_iceberg_leaves.
Print Assumptions C05_iceberg_partial.
Print Assumptions C05_reserve_exhausted_replenishes.
Print Assumptions C05_reserve_partial_replenishes.
Print Assumptions C05_reserve_partial_shrinks.
Print Assumptions C05_reserve_exhausted_leaves.
Print Assumptions C05_plain_rule.
Print Assumptions C05_reserve_cases_exhaustive.
