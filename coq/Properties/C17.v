(* C17 — JSON encodings round-trip for every value.
   Only statements live here; proofs are in Proofs/JsonProofs.v (AST level: what
   serde's Deserialize does with what Serialize produced), Proofs/JsonTextProofs.v
   (text level: print_json / parse_json) and Proofs/SnapshotProofs.v (packages).
   Hypotheses [wf_*] / [jwf_order] say that every field is in the range of its Rust
   type (u64 / i64 / u32 / 128-bit ids); they hold of every value the Rust types can
   hold, in particular of integers above 2^53 and of u64::MAX.
   The id texts inside JSON (OrderId, Uuid) are read with the FULL text model of
   Model/Ids.v / Model/Text.v — the one C16 / C18 are about — so the decoders accept
   every spelling Uuid::from_str / Ulid::from_string accept, not only the canonical
   ones the printers emit (section "id texts" below). *)
From Coq Require Import Ascii.
From Coq Require String.
Import String.StringSyntax.
From PL Require Import Model.Snapshot Proofs.JsonProofs Proofs.JsonTextProofs Proofs.SnapshotProofs.
From PL Require Model.Ids Model.Text.
Local Open Scope N_scope.

(* ---- serde value level: of_json (to_json v) = Some v, for every serde type ---- *)

Theorem C17_side : forall s, of_json_side (to_json_side s) = Some s.
Proof. exact of_to_json_side. Qed.

Theorem C17_time_in_force : forall t, wf_tif t -> of_json_tif (to_json_tif t) = Some t.
Proof. exact of_to_json_tif. Qed.

Theorem C17_peg : forall p, of_json_peg (to_json_peg p) = Some p.
Proof. exact of_to_json_peg. Qed.

Theorem C17_order_id : forall o, wf_oid o -> of_json_oid (to_json_oid o) = Some o.
Proof. exact of_to_json_oid. Qed.

Theorem C17_uuid : forall n, n < W128 -> of_json_uuid (to_json_uuid n) = Some n.
Proof. exact of_to_json_uuid. Qed.

Theorem C17_order : forall o, jwf_order o -> of_json_order (to_json_order o) = Some o.
Proof. exact of_to_json_order. Qed.

Theorem C17_update : forall u, wf_update u -> of_json_update (to_json_update u) = Some u.
Proof. exact of_to_json_update. Qed.

Theorem C17_transaction : forall t, wf_jtx t -> of_json_tx (to_json_tx t) = Some t.
Proof. exact of_to_json_tx. Qed.

Theorem C17_transaction_list :
  forall l, Forall wf_jtx l -> of_json_txlist (to_json_txlist l) = Some l.
Proof. exact of_to_json_txlist. Qed.

Theorem C17_match_result : forall r, wf_jresult r -> of_json_result (to_json_result r) = Some r.
Proof. exact of_to_json_result. Qed.

Theorem C17_level_data : forall d, wf_snapshot d -> of_json_data (to_json_data d) = Some d.
Proof. exact of_to_json_data. Qed.

(* PriceLevel: Serialize goes through PriceLevelData (price, counters as read, listing);
   Deserialize rebuilds with new + add_order per listed order.  What "equal" means for
   the rebuilt level (same price, same listing, aggregates = sums) is C10's subject. *)
Theorem C17_level :
  forall l, wf_snapshot (snapshot_of l) ->
    of_json_level (to_json_level l) = Some (from_data (price l) (to_vec (lq l))).
Proof. exact of_to_json_level. Qed.

Theorem C17_queue :
  forall os, Forall jwf_order os -> of_json_queue (to_json_orders os) = Some (from_vec os).
Proof. exact of_to_json_queue. Qed.

Theorem C17_snapshot : forall s, wf_snapshot s -> of_json_snapshot (to_json_snapshot s) = Some s.
Proof. exact of_to_json_snapshot. Qed.

Theorem C17_package : forall p, wf_package p -> of_json_package (to_json_package p) = Some p.
Proof. exact of_to_json_package. Qed.

Theorem C17_statistics :
  forall now s, wf_jstats s -> of_json_stats now (to_json_stats s) = Some s.
Proof. exact of_to_json_stats. Qed.

(* ---- text level: serde_json::from_str (serde_json::to_string v) ---- *)

(* the reader is a left inverse of the printer on every plain AST, with any continuation
   that cannot extend a number *)
Theorem C17_parse_print :
  forall j rest, plain_json j = true -> num_end rest = true ->
    parse_json (print_json j ++ rest) = Some (j, rest).
Proof. exact parse_json_print. Qed.

Theorem C17_parse_top_print : forall j, plain_json j = true -> parse_top (print_json j) = Some j.
Proof. exact parse_top_print. Qed.

(* every AST the library's Serialize impls produce is plain *)
Theorem C17_plain :
  (forall o, plain_json (to_json_order o) = true) /\
  (forall u, plain_json (to_json_update u) = true) /\
  (forall o, plain_json (to_json_oid o) = true) /\
  (forall s, plain_json (to_json_side s) = true) /\
  (forall t, plain_json (to_json_tif t) = true) /\
  (forall t, plain_json (to_json_tx t) = true) /\
  (forall l, plain_json (to_json_txlist l) = true) /\
  (forall r, plain_json (to_json_result r) = true) /\
  (forall s, plain_json (to_json_snapshot s) = true) /\
  (forall os, plain_json (to_json_orders os) = true) /\
  (forall s, plain_json (to_json_stats s) = true) /\
  (forall p, plain_json (to_json_package p) = plain_str (p_checksum p)).
Proof.
  exact (conj to_json_order_plain (conj to_json_update_plain (conj to_json_oid_plain
        (conj to_json_side_plain (conj to_json_tif_plain (conj to_json_tx_plain
        (conj to_json_txlist_plain (conj to_json_result_plain (conj to_json_snapshot_plain
        (conj to_json_orders_plain (conj to_json_stats_plain to_json_package_plain))))))))))).
Qed.

Theorem C17_text :
  forall (A : Type) (enc : A -> json) (dec : json -> option A) (v : A),
    plain_json (enc v) = true -> dec (enc v) = Some v ->
    match parse_top (print_json (enc v)) with Some j => dec j | None => None end = Some v.
Proof. exact @text_roundtrip. Qed.

Theorem C17_order_text : forall o, jwf_order o -> order_of_text (text_of_order o) = Some o.
Proof. exact order_text_roundtrip. Qed.

Theorem C17_snapshot_text :
  forall s, wf_snapshot s -> snapshot_of_text (text_of_snapshot s) = Some s.
Proof. exact snapshot_text_roundtrip. Qed.

Theorem C17_package_text :
  forall p, wf_package p -> plain_str (p_checksum p) = true ->
    package_of_text (text_of_package p) = Some p.
Proof. exact package_text_roundtrip. Qed.

(* ---- a snapshot package still validates after the trip (any hash function H) ---- *)

Theorem C17_package_validates :
  forall (H : list ascii -> list ascii) (hex : list ascii -> str) p,
    wf_package p -> validate H hex p = true ->
    option_map (validate H hex) (of_json_package (to_json_package p)) = Some true.
Proof. exact package_json_validates. Qed.

Theorem C17_package_new_validates :
  forall (H : list ascii -> list ascii) (hex : list ascii -> str) s,
    wf_snapshot (refresh s) ->
    option_map (validate H hex) (of_json_package (to_json_package (package_new H hex s))) = Some true.
Proof. exact package_new_json_validates. Qed.

Theorem C17_package_new_text_validates :
  forall (H : list ascii -> list ascii) (hex : list ascii -> str),
    (forall a, plain_str (hex a) = true) ->
    forall s, wf_snapshot (refresh s) ->
      option_map (validate H hex) (package_of_text (text_of_package (package_new H hex s))) = Some true.
Proof. exact package_new_text_validates. Qed.

(* with the concrete `format!("{:x}")`, no hypothesis on hex is left *)
Corollary C17_package_new_text_validates_hex :
  forall (H : list ascii -> list ascii) s, wf_snapshot (refresh s) ->
    option_map (validate H hex_lower)
               (package_of_text (text_of_package (package_new H hex_lower s))) = Some true.
Proof. intros H. exact (package_new_text_validates H hex_lower hex_lower_plain). Qed.

(* decoding never produces an out-of-range value *)
Theorem C17_decoded_in_range :
  (forall j o, of_json_order j = Some o -> jwf_order o) /\
  (forall j s, of_json_snapshot j = Some s -> wf_snapshot s) /\
  (forall j p, of_json_package j = Some p -> wf_package p).
Proof. exact (conj of_json_order_wf (conj of_json_snapshot_wf of_json_package_wf)). Qed.

(* ---- id texts: the JSON decoders read ids with the text model of Ids.v / Text.v ---- *)

(* an OrderId inside JSON is accepted exactly when OrderId::from_str (Text.parse_oid)
   accepts the string, with the same value ... *)
Theorem C17_order_id_is_text_format :
  forall s k, of_json_oid (JStr s) = Some k <-> Text.parse_oid s = Text.POk k.
Proof. exact parse_oid_Some. Qed.

(* ... and refused exactly when it returns Err: the third outcome of the text model,
   a panic, is mapped to "refused" by [opt_of_outcome] but never occurs *)
Theorem C17_order_id_error_is_text_error :
  forall s, of_json_oid (JStr s) = None <-> Text.parse_oid s = Text.PErr.
Proof. exact parse_oid_None. Qed.

Theorem C17_order_id_never_panics : forall s, Text.parse_oid s <> Text.PPanic.
Proof. exact parse_oid_no_panic. Qed.

(* in particular for the strings of a JSON text produced by print_json *)
Corollary C17_printed_id_never_panics :
  forall j s, plain_json j = true -> parse_top (print_json j) = Some (JStr s) ->
    Text.parse_oid s <> Text.PPanic.
Proof. intros j s _ _. exact (parse_oid_no_panic s). Qed.

(* a Uuid inside JSON (Transaction::transaction_id): Uuid::from_str *)
Theorem C17_uuid_is_text_format : forall s, of_json_uuid (JStr s) = Ids.parse_uuid s.
Proof. reflexivity. Qed.

Theorem C17_decoded_ids_in_range :
  (forall j k, of_json_oid j = Some k -> wf_oid k) /\
  (forall j n, of_json_uuid j = Some n -> n < W128).
Proof. exact (conj of_json_oid_wf of_json_uuid_wf). Qed.

(* non-canonical spellings are accepted (upper / mixed case, simple, braced, urn; lower-case
   ulid; a ulid whose first character exceeds '7' loses its two top bits: "F..." = "7...");
   near misses and a ulid text in a Uuid field are not *)
Example C17_example_id_spellings :
  let u := Uuid 1512366075204170929049582354406559215 in
  let z := Ulid 340282366920938463463374607431768211455 in
  of_json_oid (JStr (lit "01234567-89ab-cdef-0123-456789abcdef")) = Some u /\
  of_json_oid (JStr (lit "01234567-89AB-cdEF-0123-456789ABCDEF")) = Some u /\
  of_json_oid (JStr (lit "0123456789ABCDEF0123456789abcdef")) = Some u /\
  of_json_oid (JStr (lit "{01234567-89ab-cdef-0123-456789abcdef}")) = Some u /\
  of_json_oid (JStr (lit "urn:uuid:01234567-89ab-cdef-0123-456789ABCDEF")) = Some u /\
  of_json_uuid (JStr (lit "{01234567-89AB-cdef-0123-456789abcdef}")) = Some 1512366075204170929049582354406559215 /\
  of_json_oid (JStr (lit "7ZZZZZZZZZZZZZZZZZZZZZZZZZ")) = Some z /\
  of_json_oid (JStr (lit "7zzzzzzzzzZZZZZZzzzzzzzzzz")) = Some z /\
  of_json_oid (JStr (lit "FZZZZZZZZZZZZZZZZZZZZZZZZZ")) = Some z /\
  of_json_oid (JStr (lit "zzzzzzzzzzzzzzzzzzzzzzzzzz")) = Some z /\
  of_json_oid (JStr (lit "URN:UUID:01234567-89ab-cdef-0123-456789abcdef")) = None /\
  of_json_oid (JStr (lit "01234567-89ab-cdef-0123-456789abcde")) = None /\
  of_json_oid (JStr (lit "0123456-789ab-cdef-0123-456789abcdef")) = None /\
  of_json_oid (JStr (lit "01234567-89ab-cdef-0123-456789abcdeg")) = None /\
  of_json_oid (JStr (lit "{0123456789abcdef0123456789abcdef}")) = None /\
  of_json_oid (JStr (lit "7ZZZZZZZZZZZZZZZZZZZZZZZZI")) = None /\
  of_json_oid (JStr (lit "7ZZZZZZZZZZZZZZZZZZZZZZZZ")) = None /\
  of_json_uuid (JStr (lit "7ZZZZZZZZZZZZZZZZZZZZZZZZZ")) = None /\
  of_json_oid (JNum 7) = None.
Proof. vm_compute. repeat split; reflexivity. Qed.

(* ---- non-vacuity: boundary values meet the hypotheses and make the trip ---- *)

Definition ex_c : common :=
  mkCommon (Ulid 340282366920938463463374607431768211455) 18446744073709551615 Buy
           9007199254740993 (Gtd 18446744073709551615).
Definition ex_reserve : order := Reserve ex_c 18446744073709551615 0 9007199254740993 None true.
Definition ex_pegged : order :=
  Pegged (mkCommon (Uuid 0) 1 Sell 0 Day) 2 (-9223372036854775808)%Z LastTrade.
Definition ex_snapshot : snapshot := mkSnap 9007199254740993 0 0 7 [ex_reserve; ex_pegged].

Example C17_example_wf : jwf_order ex_reserve /\ jwf_order ex_pegged /\ wf_snapshot (refresh ex_snapshot).
Proof.
  assert (R : jwf_order ex_reserve).
  { unfold jwf_order, wf_common, wf_oid, wf_tif. cbn [ex_reserve ex_c com c_id c_price c_ts c_tif].
    repeat match goal with |- _ /\ _ => split end; try exact I; vm_compute; reflexivity. }
  assert (P : jwf_order ex_pegged).
  { unfold jwf_order, wf_common, wf_oid, wf_tif. cbn [ex_pegged com c_id c_price c_ts c_tif].
    repeat match goal with |- _ /\ _ => split end; try exact I;
      try (vm_compute; reflexivity); vm_compute; discriminate. }
  split; [exact R|]. split; [exact P|].
  unfold wf_snapshot. cbn [refresh ex_snapshot sn_price sn_vis sn_hid sn_cnt sn_orders].
  split; [vm_compute; reflexivity|]. split; [vm_compute; reflexivity|].
  split; [vm_compute; reflexivity|]. split; [vm_compute; reflexivity|].
  constructor; [exact R|]. constructor; [exact P|]. constructor.
Qed.

Example C17_example_text :
  order_of_text (text_of_order ex_reserve) = Some ex_reserve /\
  order_of_text (text_of_order ex_pegged) = Some ex_pegged /\
  snapshot_of_text (text_of_snapshot ex_snapshot) = Some ex_snapshot /\
  text_of_order ex_pegged =
  lit "{""PeggedOrder"":{""id"":""00000000-0000-0000-0000-000000000000"",""price"":1,""quantity"":2,""side"":""SELL"",""timestamp"":0,""time_in_force"":""DAY"",""reference_price_offset"":-9223372036854775808,""reference_price_type"":""LastTrade"",""extra_fields"":null}}".
Proof.
  split; [vm_compute; reflexivity|]. split; [vm_compute; reflexivity|].
  split; [vm_compute; reflexivity|]. vm_compute; reflexivity.
Qed.

(* aliases are accepted, "GTD" without payload and a second key are not *)
Example C17_example_aliases :
  of_json_side (JStr (lit "buy")) = Some Buy /\
  of_json_tif (JObj [(lit "gtd", JNum 5)]) = Some (Gtd 5) /\
  of_json_tif (JStr (lit "GTD")) = None /\
  of_json_tif (JObj [(lit "GTD", JNum 5); (lit "GTD", JNum 5)]) = None /\
  of_json_tif (JObj [(lit "GTD", JNum 18446744073709551616)]) = None.
Proof.
  split; [vm_compute; reflexivity|]. split; [vm_compute; reflexivity|].
  split; [vm_compute; reflexivity|]. split; [vm_compute; reflexivity|]. vm_compute; reflexivity.
Qed.

Check C17_order : forall o, jwf_order o -> of_json_order (to_json_order o) = Some o.
Check C17_snapshot : forall s, wf_snapshot s -> of_json_snapshot (to_json_snapshot s) = Some s.
Check C17_package : forall p, wf_package p -> of_json_package (to_json_package p) = Some p.
Check C17_parse_top_print : forall j, plain_json j = true -> parse_top (print_json j) = Some j.
Check C17_order_id_is_text_format :
  forall s k, of_json_oid (JStr s) = Some k <-> Text.parse_oid s = Text.POk k.
Check C17_package_new_text_validates_hex :
  forall (H : list ascii -> list ascii) s, wf_snapshot (refresh s) ->
    option_map (validate H hex_lower)
               (package_of_text (text_of_package (package_new H hex_lower s))) = Some true.

Print Assumptions C17_side.
Print Assumptions C17_time_in_force.
Print Assumptions C17_peg.
Print Assumptions C17_order_id.
Print Assumptions C17_uuid.
Print Assumptions C17_order.
Print Assumptions C17_update.
Print Assumptions C17_transaction.
Print Assumptions C17_transaction_list.
Print Assumptions C17_match_result.
Print Assumptions C17_level_data.
Print Assumptions C17_level.
Print Assumptions C17_queue.
Print Assumptions C17_snapshot.
Print Assumptions C17_package.
Print Assumptions C17_statistics.
Print Assumptions C17_parse_print.
Print Assumptions C17_parse_top_print.
Print Assumptions C17_plain.
Print Assumptions C17_text.
Print Assumptions C17_order_text.
Print Assumptions C17_snapshot_text.
Print Assumptions C17_package_text.
Print Assumptions C17_package_validates.
Print Assumptions C17_package_new_validates.
Print Assumptions C17_package_new_text_validates.
Print Assumptions C17_package_new_text_validates_hex.
Print Assumptions C17_decoded_in_range.
Print Assumptions C17_order_id_is_text_format.
Print Assumptions C17_order_id_error_is_text_error.
Print Assumptions C17_order_id_never_panics.
Print Assumptions C17_printed_id_never_panics.
Print Assumptions C17_uuid_is_text_format.
Print Assumptions C17_decoded_ids_in_range.
