(* C14 — Transaction ids are unique across threads and reproducible.
   Only statements live here; proofs are in Proofs/ConcGen.v.

   The generator's counter is shared ([sh_gen]); both UuidGenerator::next ([CNext],
   program point G1) and the matcher (program point M4) draw from it with one
   atomic fetch_add(1), event [EFetchAdd OGen 1 old].  For EVERY program, schedule
   and number of threads / calls, the values [old] drawn along the run are, in
   trace order, exactly g0, g0+1, ..., g0+n-1 (C14_sequence) — hence pairwise
   distinct (C14_unique) and a function of g0 and n only (C14_reproducible);
   the drawing step hands exactly [old] to its caller: [CNext] returns it, the
   matcher stores it as [tx_idx] of the transaction it appends (C14_source).
   The id is derived from (namespace, counter value) by UUIDv5, which is not
   modelled: uniqueness of the ids is uniqueness of the counter values.
   Side condition: the counter does not pass 2^64 during the run. *)
From PL Require Import Spec.ConcSpec Spec.ConcExample Proofs.OrderProofs Proofs.ConcGen Proofs.ConcGen2.
Local Open Scope N_scope.

Theorem C14_sequence :
  forall mf sched c,
    let g0 := sh_gen (cf_sh c) in
    let n := length (gen_olds (snd (exec mf sched c))) in
    g0 + N.of_nat n <= W ->
    gen_olds (snd (exec mf sched c)) = Nseq g0 n.
Proof. exact exec_gen. Qed.

Theorem C14_unique :
  forall mf sched c,
    let olds := gen_olds (snd (exec mf sched c)) in
    sh_gen (cf_sh c) + N.of_nat (length olds) <= W ->
    NoDup olds /\
    forall k, (k < length olds)%nat -> nth_error olds k = Some (sh_gen (cf_sh c) + N.of_nat k).
Proof. exact exec_gen_unique. Qed.

Theorem C14_reproducible :
  forall mf mf' sched c sched' c',
    let olds := gen_olds (snd (exec mf sched c)) in
    let olds' := gen_olds (snd (exec mf' sched' c')) in
    sh_gen (cf_sh c) = sh_gen (cf_sh c') -> length olds = length olds' ->
    sh_gen (cf_sh c) + N.of_nat (length olds) <= W ->
    olds = olds'.
Proof. exact exec_gen_reproducible. Qed.

(* every other step leaves the counter alone; a drawing step advances it by one *)
Theorem C14_step :
  forall mf c i c' e, cstep mf c i = Some (c', e) ->
    match is_gen_ev e with
    | Some old => old = sh_gen (cf_sh c) /\ sh_gen (cf_sh c') = wadd (sh_gen (cf_sh c)) 1
    | None => sh_gen (cf_sh c') = sh_gen (cf_sh c)
    end.
Proof. exact cstep_gen. Qed.

(* who draws, and where the value goes *)
Theorem C14_source :
  forall mf c i c' e old,
    cstep mf c i = Some (c', e) -> is_gen_ev e = Some old ->
    exists t p' s',
      nth_error (cf_threads c) i = Some t /\
      tstep mf (th_pc t) (cf_sh c) = Some (p', s', e) /\
      old = sh_gen (cf_sh c) /\ gen_source (th_pc t) p' old.
Proof. exact cstep_gen_source. Qed.

(* ---- runs compose: "... or will return" --------------------------------------------------
   After any run the counter stands at start + number of ids drawn (C14_counter_after), so a
   continuation of the run — any further program steps, any schedule — draws ids that no
   earlier call received (C14_never_again), and both segments together are one gap-free
   sequence (C14_compose).  Side condition as above: no wrap at 2^64. *)
Theorem C14_counter_after :
  forall mf sched c,
    let n := length (gen_olds (snd (exec mf sched c))) in
    sh_gen (cf_sh c) + N.of_nat n < W ->
    sh_gen (cf_sh (fst (exec mf sched c))) = sh_gen (cf_sh c) + N.of_nat n.
Proof. exact exec_gen_final. Qed.

Theorem C14_never_again :
  forall mf sched sched2 c,
    let r1 := exec mf sched c in
    let olds1 := gen_olds (snd r1) in
    let olds2 := gen_olds (snd (exec mf sched2 (fst r1))) in
    sh_gen (cf_sh c) + N.of_nat (length olds1) + N.of_nat (length olds2) <= W ->
    forall x, In x olds1 -> In x olds2 -> False.
Proof. exact exec_gen_never_again'. Qed.

Theorem C14_compose :
  forall mf sched sched2 c,
    let r1 := exec mf sched c in
    let olds1 := gen_olds (snd r1) in
    let olds2 := gen_olds (snd (exec mf sched2 (fst r1))) in
    sh_gen (cf_sh c) + N.of_nat (length olds1) + N.of_nat (length olds2) <= W ->
    sh_gen (cf_sh c) + N.of_nat (length olds1) < W ->
    olds1 ++ olds2 = Nseq (sh_gen (cf_sh c)) (length olds1 + length olds2).
Proof. exact exec_gen_compose. Qed.

(* replay of a shorter run: its ids are a prefix of the longer run's ids *)
Theorem C14_replay_prefix :
  forall mf mf' sched c sched' c',
    let olds := gen_olds (snd (exec mf sched c)) in
    let olds' := gen_olds (snd (exec mf' sched' c')) in
    sh_gen (cf_sh c) = sh_gen (cf_sh c') -> (length olds <= length olds')%nat ->
    sh_gen (cf_sh c') + N.of_nat (length olds') <= W ->
    olds = firstn (length olds) olds'.
Proof. exact exec_gen_prefix. Qed.

(* non-vacuity: the example run continued by a second copy of its schedule draws nothing
   (all threads are Done), and its counter is start + 5 *)
Example C14_example_after :
  let run := exec match_against ex_sched ex_c0 in
  sh_gen (cf_sh (fst run)) = sh_gen (cf_sh ex_c0) + 5 /\
  sh_gen (cf_sh ex_c0) + 5 < W.
Proof. vm_compute. split; reflexivity. Qed.

(* ---- non-vacuity: two threads draw ids for three transactions and two CNext calls ---- *)
Example C14_example :
  let run := exec match_against ex_sched ex_c0 in
  gen_olds (snd run) = [1000; 1001; 1002; 1003; 1004] /\
  map th_pc (cf_threads (fst run)) = [Done (RetNum 1003); Done (RetNum 1004)] /\
  sh_gen (cf_sh (fst run)) = 1005.
Proof. vm_compute. repeat split. Qed.

Check C14_sequence : forall mf sched c,
    let g0 := sh_gen (cf_sh c) in
    let n := length (gen_olds (snd (exec mf sched c))) in
    g0 + N.of_nat n <= W ->
    gen_olds (snd (exec mf sched c)) = Nseq g0 n.
Check C14_unique : forall mf sched c,
    let olds := gen_olds (snd (exec mf sched c)) in
    sh_gen (cf_sh c) + N.of_nat (length olds) <= W ->
    NoDup olds /\
    forall k, (k < length olds)%nat -> nth_error olds k = Some (sh_gen (cf_sh c) + N.of_nat k).
Check C14_never_again : forall mf sched sched2 c,
    let r1 := exec mf sched c in
    let olds1 := gen_olds (snd r1) in
    let olds2 := gen_olds (snd (exec mf sched2 (fst r1))) in
    sh_gen (cf_sh c) + N.of_nat (length olds1) + N.of_nat (length olds2) <= W ->
    forall x, In x olds1 -> In x olds2 -> False.

Print Assumptions C14_sequence.
Print Assumptions C14_unique.
Print Assumptions C14_reproducible.
Print Assumptions C14_step.
Print Assumptions C14_source.
Print Assumptions C14_counter_after.
Print Assumptions C14_never_again.
Print Assumptions C14_compose.
Print Assumptions C14_replay_prefix.
Print Assumptions C14_example.
Print Assumptions C14_example_after.
