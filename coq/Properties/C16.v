(* C16 — Text encodings round-trip for every value.
   Only statements live here; proofs are in Proofs/TextPrims.v, TextRound.v, TextRoundSeq.v.

   For every codec of the model, parsing the printed text gives back the value, for
   every value whose fields fit their machine types (u64 fields below 2^64, ids below
   2^128, the i64 offset in range).  For a level the result is its content (price and
   order list; the printed aggregates are not read back), for a snapshot its summary
   (price and the three aggregates — the text has no orders). *)
From PL Require Import Model.Text Proofs.TextPrims Proofs.TextRound Proofs.TextRoundSeq.
Local Open Scope N_scope.

Theorem C16_side : forall s, parse_side (print_side s) = POk s.
Proof. exact rt_side. Qed.

Theorem C16_tif : forall t, wf_tif t -> parse_tif (print_tif t) = POk t.
Proof. exact rt_tif. Qed.

Theorem C16_peg : forall p, parse_peg (print_peg p) = POk p.
Proof. exact rt_peg. Qed.

(* both id formats; the code tries Uuid first, then Ulid *)
Theorem C16_order_id : forall k, wf_oid k -> parse_oid (print_oid k) = POk k.
Proof. exact rt_oid. Qed.

Theorem C16_uuid : forall u, u < U128 -> parse_uuid (print_uuid u) = Some u.
Proof. exact parse_print_uuid. Qed.

Theorem C16_ulid : forall u, u < U128 -> parse_ulid (print_ulid u) = Some u.
Proof. exact parse_print_ulid. Qed.

(* a 26-byte text (every ULID text) is never accepted as a UUID *)
Theorem C16_ulid_text_is_no_uuid : forall u, parse_uuid (print_ulid u) = None.
Proof. intro u. apply uuid_rejects_26, print_ulid_length. Qed.

(* all seven order variants *)
Theorem C16_order : forall o, wf_order_text o -> parse_order (print_order o) = POk o.
Proof. exact rt_order. Qed.

(* all five update kinds *)
Theorem C16_update : forall u, wf_update u -> parse_update (print_update u) = POk u.
Proof. exact rt_update. Qed.

Theorem C16_transaction : forall t, wf_txn t -> parse_txn (print_txn t) = POk t.
Proof. exact rt_txn. Qed.

Theorem C16_transaction_list : forall l, Forall wf_txn l -> parse_txlist (print_txlist l) = POk l.
Proof. exact rt_txlist. Qed.

Theorem C16_match_result : forall r, wf_match_result r ->
  parse_match_result (print_match_result r) = POk r.
Proof. exact rt_match_result. Qed.

Theorem C16_statistics : forall x, wf_stats x -> parse_stats (print_stats x) = POk x.
Proof. exact rt_stats. Qed.

Theorem C16_snapshot_summary : forall x, wf_snap x -> parse_snapshot (print_snapshot x) = POk x.
Proof. exact rt_snapshot. Qed.

Theorem C16_queue : forall os, Forall wf_order_text os -> parse_queue (print_queue os) = POk os.
Proof. exact rt_queue. Qed.

Theorem C16_level : forall l, wf_level_text l ->
  parse_level (print_level l) = POk (lt_price l, lt_orders l).
Proof. exact rt_level. Qed.

(* the generic record codec behind order / update / transaction / snapshot / statistics *)
Theorem C16_record_codec : forall ty fs k v,
  fs <> [] -> clean ty = true -> forallb clean_kv fs = true -> NoDup (map fst fs) -> In (k, v) fs ->
  exists body, record_parts (print_record ty fs) = POk (ty, body) /\
               get_field (parse_fields body) k = POk v.
Proof. exact record_roundtrip. Qed.

(* Non-vacuity: boundary values meet the hypotheses. *)
Example C16_examples :
  let c := mkCommon (Ulid 340282366920938463463374607431768211455) 18446744073709551615 Sell 0
                    (Gtd 18446744073709551615) in
  let o := Reserve c 0 18446744073709551615 1 None true in
  let g := Pegged (mkCommon (Uuid 0) 0 Buy 9007199254740993 Day) 1 (-9223372036854775808)%Z LastTrade in
  let t := mkTxn 340282366920938463463374607431768211455 (Uuid 0) (Ulid 1) 0 18446744073709551615 Buy 1 in
  wf_order_text o /\ wf_order_text g /\ wf_txn t /\
  wf_match_result (mkMatchResult (Uuid 3) [t; t] 5 false [Uuid 1; Ulid 2]) /\
  wf_level_text (mkLevelText 7 1 2 3 [o; g]) /\
  parse_order (print_order g) = POk g /\
  parse_level (print_level (mkLevelText 7 1 2 3 [o; g])) = POk (7, [o; g]) /\
  parse_match_result (print_match_result (mkMatchResult (Uuid 3) [t; t] 5 false [Uuid 1; Ulid 2]))
  = POk (mkMatchResult (Uuid 3) [t; t] 5 false [Uuid 1; Ulid 2]).
Proof.
  cbv zeta.
  repeat first
    [ exact I
    | match goal with |- _ /\ _ => split end
    | match goal with |- Forall _ _ => constructor end
    | match goal with |- (_ < _)%N => reflexivity end
    | match goal with |- (_ <= _)%Z => vm_compute; intro; discriminate end
    | match goal with |- (_ < _)%Z => reflexivity end
    | match goal with |- _ = POk _ => vm_compute; reflexivity end
    | progress unfold wf_order_text, wf_common, wf_oid, wf_tif, wf_i64, wf_txn, wf_match_result, wf_level_text
    | progress cbn [com c_id c_price c_ts c_tif t_id t_taker t_maker t_price t_qty t_ts
                    mr_order_id mr_txs mr_remaining mr_filled lt_price lt_orders] ].
Qed.

Check C16_order : forall o, wf_order_text o -> parse_order (print_order o) = POk o.
Check C16_update : forall u, wf_update u -> parse_update (print_update u) = POk u.
Check C16_order_id : forall k, wf_oid k -> parse_oid (print_oid k) = POk k.
Check C16_match_result : forall r, wf_match_result r -> parse_match_result (print_match_result r) = POk r.
Check C16_level : forall l, wf_level_text l -> parse_level (print_level l) = POk (lt_price l, lt_orders l).
Check C16_transaction_list : forall l, Forall wf_txn l -> parse_txlist (print_txlist l) = POk l.

Print Assumptions C16_side.
Print Assumptions C16_tif.
Print Assumptions C16_peg.
Print Assumptions C16_order_id.
Print Assumptions C16_uuid.
Print Assumptions C16_ulid.
Print Assumptions C16_ulid_text_is_no_uuid.
Print Assumptions C16_order.
Print Assumptions C16_update.
Print Assumptions C16_transaction.
Print Assumptions C16_transaction_list.
Print Assumptions C16_match_result.
Print Assumptions C16_statistics.
Print Assumptions C16_snapshot_summary.
Print Assumptions C16_queue.
Print Assumptions C16_level.
Print Assumptions C16_record_codec.
