(* C07 — Cancel, move and amend do exactly what they report; read-only calls are pure.
   Only statements live here; proofs are in Proofs/UpdBase.v and Proofs/UpdateProofs.v.

   Vocabulary (Proofs/UpdateProofs.v, Proofs/UpdBase.v):
     takes_out l k u   : u is  Cancel k | UpdatePrice k np | UpdatePriceAndQuantity k np nq
                         | Replace k np q s   with np <> price l
     amends l k nq u   : u is  UpdateQuantity k nq | UpdatePriceAndQuantity k (price l) nq
                         | Replace k (price l) nq s
     abs q             : the pop order of a queue = dedup (filter live tickets):
                         first outstanding ticket of every id still in the map. *)
From PL Require Import Model.Level Spec.Hist Proofs.OrderProofs Proofs.UpdBase Proofs.UpdateProofs.
Local Open Scope N_scope.

(* ------------------------------------------------------------------ *)
(* the classification really is the dispatch of update_order           *)

Theorem C07_takes_out_kinds l k u :
  takes_out l k u <->
  u = Cancel k \/
  (exists np, np <> price l /\ u = UpdatePrice k np) \/
  (exists np nq, np <> price l /\ u = UpdatePriceAndQuantity k np nq) \/
  (exists np q s, np <> price l /\ u = Replace k np q s).
Proof.
  split.
  - intros [|np H|np nq H|np q s H]; eauto 8.
  - intros [->|[(np & H & ->)|[(np & nq & H & ->)|(np & q & s & H & ->)]]]; constructor; exact H.
Qed.

Theorem C07_amends_kinds l k nq u :
  amends l k nq u <->
  u = UpdateQuantity k nq \/ u = UpdatePriceAndQuantity k (price l) nq \/
  (exists s, u = Replace k (price l) nq s).
Proof.
  split.
  - intros [| |s]; eauto.
  - intros [->|[->|(s & ->)]]; constructor.
Qed.

(* ------------------------------------------------------------------ *)
(* 1. Cancel and price move                                            *)

Theorem C07_remove_present l k u o l' r :
  takes_out l k u -> lookup k (resting l) = Some o -> update_order l u = (l', r) ->
  r = UOk (Some o) /\
  lookup k (resting l') = None /\
  (forall k', k' <> k -> lookup k' (resting l') = lookup k' (resting l)) /\
  resting l' = remove_key k (resting l) /\
  tickets (lq l') = tickets (lq l) /\
  cvis l' = wsub (cvis l) (vis o) /\
  chid l' = wsub (chid l) (hid o) /\
  ccnt l' = wsub (ccnt l) 1 /\
  price l' = price l /\
  s_removed (st l') = wadd (s_removed (st l)) 1 /\
  s_added (st l') = s_added (st l) /\
  s_executed (st l') = s_executed (st l) /\
  s_qty (st l') = s_qty (st l) /\
  s_value (st l') = s_value (st l).
Proof. exact (remove_present l k u o l' r). Qed.

(* with unique ids and aggregates that describe the map: plain subtraction *)
Theorem C07_remove_present_exact l k u o l' r :
  NoDup (ids (resting l)) -> Agg l -> Fits l ->
  takes_out l k u -> lookup k (resting l) = Some o -> update_order l u = (l', r) ->
  vis o <= cvis l /\ hid o <= chid l /\ 1 <= ccnt l /\
  cvis l' = cvis l - vis o /\ chid l' = chid l - hid o /\ ccnt l' = ccnt l - 1 /\
  Agg l' /\ Fits l' /\ NoDup (ids (resting l')).
Proof. exact (remove_present_exact l k u o l' r). Qed.

Theorem C07_remove_absent l k u l' r :
  takes_out l k u -> lookup k (resting l) = None -> update_order l u = (l', r) ->
  r = UOk None /\ l' = l.
Proof. exact (remove_absent l k u l' r). Qed.

(* ------------------------------------------------------------------ *)
(* 2. Price update to the level's own price                            *)

Theorem C07_update_price_same_rejected l k :
  update_order l (UpdatePrice k (price l)) = (l, UErr).
Proof. exact (update_price_same_rejected l k). Qed.

(* ------------------------------------------------------------------ *)
(* 3. Same-price quantity amendment                                    *)

Theorem C07_price_qty_same_price l k nq :
  update_order l (UpdatePriceAndQuantity k (price l) nq) = update_order l (UpdateQuantity k nq).
Proof. exact (price_qty_same_price l k nq). Qed.

Theorem C07_replace_same_price l k q s :
  update_order l (Replace k (price l) q s) = update_order l (UpdateQuantity k q).
Proof. exact (replace_same_price l k q s). Qed.

Theorem C07_amend_present l k nq u o l' r :
  amends l k nq u -> lookup k (resting l) = Some o -> update_order l u = (l', r) ->
  let n := with_reduced_quantity o nq in
  r = UOk (Some n) /\
  lookup k (resting l') = Some n /\
  same_identity o n /\ hid n = hid o /\
  match o with
  | Standard _ _ | PostOnly _ _ | Iceberg _ _ _ => vis n = nq
  | TrailingStop _ _ _ _ | Pegged _ _ _ _ | MarketToLimit _ _ | Reserve _ _ _ _ _ _ => n = o
  end /\
  (forall k', k' <> k -> lookup k' (resting l') = lookup k' (resting l)) /\
  resting l' = remove_key k (resting l) ++ [n] /\
  tickets (lq l') = tickets (lq l) ++ [k] /\
  cvis l' = delta (cvis l) (vis o) (vis n) /\
  chid l' = delta (chid l) (hid o) (hid n) /\ chid l' = chid l /\
  ccnt l' = ccnt l /\
  price l' = price l /\
  st l' = st l.
Proof. exact (amend_present_exact l k nq u o l' r). Qed.

(* aggregates: exact change, invariant kept, same number of orders;
   only the NEW state has to fit in 64 bits *)
Theorem C07_amend_present_agg l k nq u o l' r :
  NoDup (ids (resting l)) -> Agg l ->
  amends l k nq u -> lookup k (resting l) = Some o -> update_order l u = (l', r) ->
  Fits l' ->
  let n := with_reduced_quantity o nq in
  vis o <= cvis l /\
  cvis l' + vis o = cvis l + vis n /\ chid l' = chid l /\ ccnt l' = ccnt l /\
  length (resting l') = length (resting l) /\
  Agg l' /\ NoDup (ids (resting l')).
Proof. exact (amend_present_agg l k nq u o l' r). Qed.

Theorem C07_amend_absent l k nq u l' r :
  amends l k nq u -> lookup k (resting l) = None -> update_order l u = (l', r) ->
  r = UOk None /\ l' = l.
Proof. exact (amend_absent_exact l k nq u l' r). Qed.

(* ------------------------------------------------------------------ *)
(* 4. Queue position                                                   *)

(* [abs] is the pop order: pop returns its head and leaves its tail *)
Theorem C07_pop_abs_Some q o q' :
  pop q = (Some o, q') -> exists rest, abs q = oid_of o :: rest /\ abs q' = rest.
Proof. exact (pop_abs_Some q o q'). Qed.

Theorem C07_pop_abs_None q q' : pop q = (None, q') -> abs q = [] /\ abs q' = [].
Proof. exact (pop_abs_None q q'). Qed.

(* ... and it lists exactly the live ids that have a ticket, once each *)
Theorem C07_abs_members q x : In x (abs q) <-> In x (tickets q) /\ In x (ids (qmap q)).
Proof. exact (In_abs x q). Qed.

Theorem C07_abs_NoDup q : NoDup (abs q).
Proof. exact (NoDup_abs q). Qed.

(* cancel / move: [k] leaves the pop order, the others keep their relative order *)
Theorem C07_remove_abs l k u l' r :
  takes_out l k u -> update_order l u = (l', r) ->
  abs (lq l') = filter (fun x => negb (oid_eqb x k)) (abs (lq l)) /\ ~ In k (abs (lq l')).
Proof.
  intros Hu H. split; [exact (remove_abs l k u l' r Hu H)|exact (remove_abs_not_in l k u l' r Hu H)].
Qed.

(* a same-price amendment keeps the order's place *)
Theorem C07_amend_keeps_place l k nq u o l' r :
  amends l k nq u -> lookup k (resting l) = Some o -> In k (tickets (lq l)) ->
  update_order l u = (l', r) ->
  abs (lq l') = abs (lq l).
Proof. exact (amend_keeps_place l k nq u o l' r). Qed.

Theorem C07_amend_keeps_place_wf l k nq u o l' r :
  WfQueue (lq l) ->
  amends l k nq u -> lookup k (resting l) = Some o -> update_order l u = (l', r) ->
  abs (lq l') = abs (lq l).
Proof. exact (amend_keeps_place_wf l k nq u o l' r). Qed.

(* ------------------------------------------------------------------ *)
(* the structural hypotheses hold in every reachable state, for any mf *)

Theorem C07_reachable_NoDup mf s : reachable mf s -> NoDup (ids (resting (fst s))).
Proof. exact (reachable_NoDup mf s). Qed.

Theorem C07_reachable_WfQueue mf s : reachable mf s -> WfQueue (lq (fst s)).
Proof. exact (reachable_WfQueue mf s). Qed.

Theorem C07_NoDup_push q o : NoDup (ids (qmap q)) -> NoDup (ids (qmap (push q o))).
Proof. exact (push_NoDup q o). Qed.
Theorem C07_NoDup_pop q r q' : NoDup (ids (qmap q)) -> pop q = (r, q') -> NoDup (ids (qmap q')).
Proof. exact (pop_NoDup q r q'). Qed.
Theorem C07_NoDup_qremove q k r q' :
  NoDup (ids (qmap q)) -> qremove q k = (r, q') -> NoDup (ids (qmap q')).
Proof. exact (qremove_NoDup q k r q'). Qed.

(* ------------------------------------------------------------------ *)
(* 5. A cancelled order never trades                                   *)

Theorem C07_match_makers_resting mf :
  I_id mf -> forall fuel l g qty taker l' g' r,
  match_order mf fuel l g qty taker = Some (l', g', r) ->
  forall t, In t (r_txs r) -> In (tx_maker t) (ids (resting l)).
Proof. exact (match_makers_resting mf). Qed.

Theorem C07_absent_never_trades mf :
  I_id mf -> forall k s ops s' outs,
  steps mf s ops s' outs ->
  lookup k (resting (fst s)) = None ->
  (forall a, In (OAdd a) ops -> oid_of a <> k) ->
  lookup k (resting (fst s')) = None /\
  forall r t, In (OutMatch r) outs -> In t (r_txs r) -> tx_maker t <> k.
Proof. exact (absent_never_trades mf). Qed.

Theorem C07_cancelled_never_trades mf :
  I_id mf -> forall l k u o l' r g ops s' outs,
  takes_out l k u -> lookup k (resting l) = Some o -> update_order l u = (l', r) ->
  steps mf (l', g) ops s' outs ->
  (forall a, In (OAdd a) ops -> oid_of a <> k) ->
  forall res t, In (OutMatch res) outs -> In t (r_txs res) -> tx_maker t <> k.
Proof. exact (cancelled_never_trades mf). Qed.

Corollary C07_cancelled_never_trades_impl l k u o l' r g ops s' outs :
  takes_out l k u -> lookup k (resting l) = Some o -> update_order l u = (l', r) ->
  steps match_against (l', g) ops s' outs ->
  (forall a, In (OAdd a) ops -> oid_of a <> k) ->
  forall res t, In (OutMatch res) outs -> In t (r_txs res) -> tx_maker t <> k.
Proof. exact (cancelled_never_trades match_against match_against_I_id l k u o l' r g ops s' outs). Qed.

(* ------------------------------------------------------------------ *)
(* 6. Read-only calls are pure.
   In the model a read is the identity on the state by construction and
   [snapshot_of], [to_vec], [total_quantity] are Gallina functions of the level,
   so these statements are trivial here; the deciding evidence that the
   implementation's listing / snapshot / display / serialise / statistics calls
   are pure is the differential run, which inserts them at arbitrary points and
   compares every later answer with this model. *)

Theorem C07_read_pure mf l g s' x :
  step mf (l, g) ORead s' x -> s' = (l, g) /\ x = OutRead (snapshot_of l) (st l).
Proof. exact (read_pure mf l g s' x). Qed.

(* erasing all reads from a history changes no other answer and not the final state *)
Theorem C07_reads_erasable mf s ops s' outs :
  steps mf s ops s' outs ->
  steps mf s (filter (fun o => negb (is_read o)) ops) s'
             (filter (fun x => negb (is_read_out x)) outs).
Proof. exact (reads_erasable mf s ops s' outs). Qed.

(* a read can be inserted anywhere without changing anything else *)
Theorem C07_read_insertable mf s ops1 s1 outs1 ops2 s' outs2 :
  steps mf s ops1 s1 outs1 -> steps mf s1 ops2 s' outs2 -> Fits (fst s1) ->
  steps mf s (ops1 ++ ORead :: ops2) s'
        (outs1 ++ OutRead (snapshot_of (fst s1)) (st (fst s1)) :: outs2).
Proof. exact (read_insertable mf s ops1 s1 outs1 ops2 s' outs2). Qed.

Theorem C07_observers_functional l1 l2 :
  l1 = l2 ->
  snapshot_of l1 = snapshot_of l2 /\ to_vec (lq l1) = to_vec (lq l2) /\
  total_quantity l1 = total_quantity l2.
Proof. exact (observers_functional l1 l2). Qed.

(* ------------------------------------------------------------------ *)
(* Non-vacuity: a concrete level at price 100 holding all seven order types. *)

Definition cm (i ts : N) : common := mkCommon (Uuid i) 100 Sell ts Gtc.
Definition o1 := Standard (cm 1 1) 10.
Definition o2 := Iceberg (cm 2 2) 5 20.
Definition o3 := PostOnly (cm 3 3) 7.
Definition o4 := Reserve (cm 4 4) 8 30 2 (Some 6) true.
Definition o5 := Pegged (cm 5 5) 4 (-1)%Z BestAsk.
Definition o6 := TrailingStop (cm 6 6) 9 3 101.
Definition o7 := MarketToLimit (cm 7 7) 2.
Definition exl : level := from_data 100 [o1; o2; o3; o4; o5; o6; o7].

Example C07_exl_shape :
  ids (resting exl) = [Uuid 1; Uuid 2; Uuid 3; Uuid 4; Uuid 5; Uuid 6; Uuid 7] /\
  abs (lq exl) = [Uuid 1; Uuid 2; Uuid 3; Uuid 4; Uuid 5; Uuid 6; Uuid 7] /\
  cvis exl = 45 /\ chid exl = 50 /\ ccnt exl = 7 /\ price exl = 100.
Proof. vm_compute. repeat split. Qed.

(* the hypotheses of the theorems are satisfiable: exl is reachable *)
Example C07_exl_reachable : reachable match_against (exl, 0).
Proof.
  exists 100, 0, [OAdd o1; OAdd o2; OAdd o3; OAdd o4; OAdd o5; OAdd o6; OAdd o7],
         [OutAdd o1; OutAdd o2; OutAdd o3; OutAdd o4; OutAdd o5; OutAdd o6; OutAdd o7].
  split; [reflexivity|].
  repeat (eapply steps_cons;
          [ vm_compute; repeat split; reflexivity
          | apply SAdd
          | vm_compute; repeat split; reflexivity
          | ]).
  apply steps_nil.
Qed.

Example C07_exl_hyps : NoDup (ids (resting exl)) /\ WfQueue (lq exl) /\ Agg exl /\ Fits exl.
Proof.
  split; [exact (reachable_NoDup _ _ C07_exl_reachable)|].
  split; [exact (reachable_WfQueue _ _ C07_exl_reachable)|].
  vm_compute. repeat split; reflexivity.
Qed.

(* cancel, and the three moves, of the iceberg: returned as it rests, counters drop by 5 / 20 / 1 *)
Example C07_ex_cancel :
  let l' := fst (update_order exl (Cancel (Uuid 2))) in
  takes_out exl (Uuid 2) (Cancel (Uuid 2)) /\
  takes_out exl (Uuid 2) (UpdatePrice (Uuid 2) 101) /\
  takes_out exl (Uuid 2) (UpdatePriceAndQuantity (Uuid 2) 99 3) /\
  takes_out exl (Uuid 2) (Replace (Uuid 2) 101 3 Buy) /\
  lookup (Uuid 2) (resting exl) = Some o2 /\
  snd (update_order exl (Cancel (Uuid 2))) = UOk (Some o2) /\
  update_order exl (UpdatePrice (Uuid 2) 101) = update_order exl (Cancel (Uuid 2)) /\
  update_order exl (UpdatePriceAndQuantity (Uuid 2) 99 3) = update_order exl (Cancel (Uuid 2)) /\
  update_order exl (Replace (Uuid 2) 101 3 Buy) = update_order exl (Cancel (Uuid 2)) /\
  ids (resting l') = [Uuid 1; Uuid 3; Uuid 4; Uuid 5; Uuid 6; Uuid 7] /\
  abs (lq l') = [Uuid 1; Uuid 3; Uuid 4; Uuid 5; Uuid 6; Uuid 7] /\
  cvis l' = 40 /\ chid l' = 30 /\ ccnt l' = 6 /\
  st l' = mkStats 7 1 0 0 0.
Proof.
  cbv zeta. repeat match goal with |- _ /\ _ => split end;
    try (constructor; discriminate); vm_compute; reflexivity.
Qed.

(* absent id, and own-price update *)
Example C07_ex_absent_and_rejected :
  update_order exl (Cancel (Ulid 2)) = (exl, UOk None) /\
  update_order exl (UpdateQuantity (Uuid 9) 3) = (exl, UOk None) /\
  update_order exl (UpdatePrice (Uuid 2) 100) = (exl, UErr).
Proof. vm_compute. repeat split. Qed.

(* same-price amendments: iceberg gets the new display and keeps its hidden part
   and its place; a reserve order is returned unchanged *)
Example C07_ex_amend :
  let l' := fst (update_order exl (UpdateQuantity (Uuid 2) 3)) in
  amends exl (Uuid 2) 3 (UpdatePriceAndQuantity (Uuid 2) 100 3) /\
  amends exl (Uuid 2) 3 (Replace (Uuid 2) 100 3 Buy) /\
  snd (update_order exl (UpdateQuantity (Uuid 2) 3)) = UOk (Some (Iceberg (cm 2 2) 3 20)) /\
  update_order exl (UpdatePriceAndQuantity (Uuid 2) 100 3) = update_order exl (UpdateQuantity (Uuid 2) 3) /\
  update_order exl (Replace (Uuid 2) 100 3 Buy) = update_order exl (UpdateQuantity (Uuid 2) 3) /\
  lookup (Uuid 2) (resting l') = Some (Iceberg (cm 2 2) 3 20) /\
  abs (lq l') = abs (lq exl) /\
  cvis l' = 43 /\ chid l' = 50 /\ ccnt l' = 7 /\ st l' = st exl /\ Agg l' /\ Fits l' /\
  snd (update_order exl (UpdateQuantity (Uuid 4) 3)) = UOk (Some o4) /\
  snd (update_order exl (UpdateQuantity (Uuid 3) 70)) = UOk (Some (PostOnly (cm 3 3) 70)) /\
  cvis (fst (update_order exl (UpdateQuantity (Uuid 3) 70))) = 108.
Proof.
  cbv zeta. repeat match goal with |- _ /\ _ => split end;
    try (exact (AM_price_qty exl (Uuid 2) 3)); try (exact (AM_replace exl (Uuid 2) 3 Buy));
    vm_compute; repeat split; reflexivity.
Qed.

(* a continuation after the cancel in which the rest of the level trades (the
   reserve order several times) and the cancelled iceberg does not *)
Example C07_ex_never_trades :
  let l' := fst (update_order exl (Cancel (Uuid 2))) in
  exists s' r,
    steps match_against (l', 0) [ORead; OMatch 1000 (Uuid 99); ORead] s'
          [OutRead (snapshot_of l') (st l'); OutMatch r; OutRead (snapshot_of (fst s')) (st (fst s'))] /\
    map tx_maker (r_txs r) =
      [Uuid 1; Uuid 3; Uuid 4; Uuid 5; Uuid 6; Uuid 7; Uuid 4; Uuid 4; Uuid 4; Uuid 4; Uuid 4].
Proof.
  cbv zeta.
  destruct (match_order match_against 100 (fst (update_order exl (Cancel (Uuid 2)))) 0 1000 (Uuid 99))
    as [[[l2 g2] r2]|] eqn:E; [|vm_compute in E; discriminate].
  exists (l2, g2), r2.
  vm_compute in E. inversion E. subst l2 g2 r2; clear E.
  split; [|vm_compute; reflexivity].
  eapply steps_cons; [exact I|apply SRead|vm_compute; repeat split; reflexivity|].
  eapply steps_cons;
    [ vm_compute; reflexivity
    | apply SMatch with (fuel := 100%nat); vm_compute; reflexivity
    | vm_compute; repeat split; reflexivity
    | ].
  eapply steps_cons; [exact I|apply SRead|vm_compute; repeat split; reflexivity|].
  apply steps_nil.
Qed.

Check C07_remove_present.
Check C07_remove_present_exact.
Check C07_remove_absent : forall l k u l' r,
  takes_out l k u -> lookup k (resting l) = None -> update_order l u = (l', r) ->
  r = UOk None /\ l' = l.
Check C07_update_price_same_rejected : forall l k,
  update_order l (UpdatePrice k (price l)) = (l, UErr).
Check C07_amend_present.
Check C07_amend_present_agg.
Check C07_amend_absent : forall l k nq u l' r,
  amends l k nq u -> lookup k (resting l) = None -> update_order l u = (l', r) ->
  r = UOk None /\ l' = l.
Check C07_pop_abs_Some : forall q o q',
  pop q = (Some o, q') -> exists rest, abs q = oid_of o :: rest /\ abs q' = rest.
Check C07_remove_abs : forall l k u l' r,
  takes_out l k u -> update_order l u = (l', r) ->
  abs (lq l') = filter (fun x => negb (oid_eqb x k)) (abs (lq l)) /\ ~ In k (abs (lq l')).
Check C07_amend_keeps_place : forall l k nq u o l' r,
  amends l k nq u -> lookup k (resting l) = Some o -> In k (tickets (lq l)) ->
  update_order l u = (l', r) -> abs (lq l') = abs (lq l).
Check C07_cancelled_never_trades : forall mf,
  I_id mf -> forall l k u o l' r g ops s' outs,
  takes_out l k u -> lookup k (resting l) = Some o -> update_order l u = (l', r) ->
  steps mf (l', g) ops s' outs ->
  (forall a, In (OAdd a) ops -> oid_of a <> k) ->
  forall res t, In (OutMatch res) outs -> In t (r_txs res) -> tx_maker t <> k.
Check C07_read_pure : forall mf l g s' x,
  step mf (l, g) ORead s' x -> s' = (l, g) /\ x = OutRead (snapshot_of l) (st l).

Print Assumptions C07_takes_out_kinds.
Print Assumptions C07_amends_kinds.
Print Assumptions C07_remove_present.
Print Assumptions C07_remove_present_exact.
Print Assumptions C07_remove_absent.
Print Assumptions C07_update_price_same_rejected.
Print Assumptions C07_price_qty_same_price.
Print Assumptions C07_replace_same_price.
Print Assumptions C07_amend_present.
Print Assumptions C07_amend_present_agg.
Print Assumptions C07_amend_absent.
Print Assumptions C07_pop_abs_Some.
Print Assumptions C07_pop_abs_None.
Print Assumptions C07_abs_members.
Print Assumptions C07_abs_NoDup.
Print Assumptions C07_remove_abs.
Print Assumptions C07_amend_keeps_place.
Print Assumptions C07_amend_keeps_place_wf.
Print Assumptions C07_reachable_NoDup.
Print Assumptions C07_reachable_WfQueue.
Print Assumptions C07_NoDup_push.
Print Assumptions C07_NoDup_pop.
Print Assumptions C07_NoDup_qremove.
Print Assumptions C07_match_makers_resting.
Print Assumptions C07_absent_never_trades.
Print Assumptions C07_cancelled_never_trades.
Print Assumptions C07_cancelled_never_trades_impl.
Print Assumptions C07_read_pure.
Print Assumptions C07_reads_erasable.
Print Assumptions C07_read_insertable.
Print Assumptions C07_observers_functional.
Print Assumptions C07_exl_reachable.
Print Assumptions C07_ex_never_trades.
