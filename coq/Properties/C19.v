(* C19 — The exported order queue is a FIFO with lookup and removal by id.
   Only statements live here; proofs are in Proofs/QueueProofs.v, the abstract
   FIFO, the operations and the runs in Spec/QueueSpec.v.

   Summary of what holds of Model/Queue.v:
   * the map half (lookup, removal by id, length, emptiness, listing) is exact
     for EVERY operation sequence (section 1);
   * pop always hands out the head of [abs q] (Spec/Priority.v), and the pop
     order is fully characterised (sections 2 and 4);
   * the queue is observationally equal to the abstract FIFO for every
     operation sequence in which no id is pushed while one of its tickets is
     still outstanding (section 3) — in particular when ids are pushed once,
     or re-pushed after having been handed out by pop;
   * it is NOT a FIFO when an id is re-pushed after removal BY ID while the
     stale ticket is still in the ticket queue (finding K2): [K2_queue_witness],
     [C19_fifo_refuted] (section 4);
   * builders (section 5). *)
From PL Require Import Spec.QueueSpec Proofs.QueueProofs.
From Coq Require Import Sorting.Sorted.
Local Open Scope N_scope.

(* ================================================================== *)
(* 1. The map half: unconditional, for every operation sequence       *)
(* ================================================================== *)

(* ids are unique in the map and every queued order has a ticket *)
Theorem C19_reachable_wf :
  forall q, reachable_q q -> NoDup (ids (qmap q)) /\ Covered q.
Proof. exact reachable_wf. Qed.

(* ... and both are preserved by every call from any such queue *)
Theorem C19_step_wf :
  forall q op, WfQueue q -> WfQueue (fst (step_q q op)).
Proof. exact step_q_wf. Qed.

(* lookup: the order last pushed with that id and not popped / removed since,
   read off the history of calls and answers *)
Theorem C19_find_history :
  forall ops k, qfind (exec_q empty_queue ops) k = last_pushed k (trace_q empty_queue ops).
Proof. exact qfind_history. Qed.

(* the same, call by call, for ANY queue *)
Theorem C19_find_push :
  forall q o k, qfind (push q o) k = if oid_eqb k (oid_of o) then Some o else qfind q k.
Proof. exact qfind_push. Qed.

Theorem C19_find_pop :
  forall q r q' k, pop q = (r, q') ->
    qfind q' k = match r with
                 | Some o => if oid_eqb k (oid_of o) then None else qfind q k
                 | None => qfind q k
                 end.
Proof.
  intros q [o|] q' k H; [exact (qfind_pop_some q o q' k H) | exact (qfind_pop_none q q' k H)].
Qed.

(* lookup finds exactly the queued orders, under their own id *)
Theorem C19_find_exact :
  forall q, NoDup (ids (qmap q)) ->
    (forall o, qfind q (oid_of o) = Some o <-> In o (qmap q)) /\
    (forall k o, qfind q k = Some o -> oid_of o = k).
Proof.
  intros q ND. split; [intro o; exact (lookup_iff_in (qmap q) o ND)|].
  intros k o H. exact (proj1 (lookup_some k (qmap q) o H)).
Qed.

(* removal by id: returns what lookup finds; afterwards the id is gone, every
   other id is untouched, and the tickets are untouched *)
Theorem C19_remove :
  forall q k r q', qremove q k = (r, q') ->
    r = qfind q k /\ tickets q' = tickets q /\
    forall k', qfind q' k' = if oid_eqb k' k then None else qfind q k'.
Proof. exact qremove_spec. Qed.

Theorem C19_remove_map :
  forall q k, qmap (snd (qremove q k)) = remove_key k (qmap q).
Proof. exact qremove_map. Qed.

(* length: the number of ids that lookup finds *)
Theorem C19_len_counts :
  forall q ks, NoDup (ids (qmap q)) -> NoDup ks -> (forall k, In k ks <-> qfind q k <> None) ->
    qlen q = N.of_nat (length ks).
Proof. exact qlen_counts. Qed.

Theorem C19_len_push :
  forall q o, NoDup (ids (qmap q)) ->
    qlen (push q o) = match qfind q (oid_of o) with Some _ => qlen q | None => qlen q + 1 end.
Proof. exact qlen_push. Qed.

Theorem C19_len_pop :
  forall q o q', NoDup (ids (qmap q)) -> pop q = (Some o, q') -> qlen q' + 1 = qlen q.
Proof. exact qlen_pop_some. Qed.

Theorem C19_len_remove :
  forall q k o q', NoDup (ids (qmap q)) -> qremove q k = (Some o, q') -> qlen q' + 1 = qlen q.
Proof. exact qlen_qremove_some. Qed.

Theorem C19_is_empty :
  forall q, (qis_empty q = true <-> qlen q = 0) /\
            (qis_empty q = true <-> forall k, qfind q k = None).
Proof. intro q. split; [exact (qis_empty_iff q) | exact (qis_empty_iff_find q)]. Qed.

(* the sort used by the listing: a permutation, non-decreasing timestamps, and
   equal timestamps in the REVERSE of the input order; these three determine it *)
Theorem C19_sort_ts :
  forall l, Permutation (sort_ts l) l /\ StronglySorted le_ts (sort_ts l) /\ ts_sorted (sort_ts l) /\
            forall t, at_ts t (sort_ts l) = rev (at_ts t l).
Proof.
  intro l. split; [exact (sort_ts_perm l)|]. split; [exact (sort_ts_sorted l)|].
  split; [exact (sort_ts_ts_sorted l) | intro t; exact (sort_ts_ties t l)].
Qed.

Theorem C19_sort_ts_unique :
  forall l s, StronglySorted le_ts s -> (forall t, at_ts t s = rev (at_ts t l)) -> s = sort_ts l.
Proof. exact sort_ts_unique. Qed.

(* the model comment calls [sort_ts] stable; it is not (ties are reversed) *)
Theorem C19_sort_ts_not_stable :
  exists a b, ts_of a = ts_of b /\ a <> b /\ sort_ts [a; b] = [b; a].
Proof.
  exists k2_A, (Standard (mkCommon (Uuid 3) 100 Buy 10 Gtc) 1).
  split; [exact (proj1 sort_ts_not_stable)|]. split; [discriminate | exact (proj2 sort_ts_not_stable)].
Qed.

(* the listing: a permutation of the map, sorted; with unique ids it shows each
   queued order exactly once and agrees with lookup *)
Theorem C19_to_vec :
  forall q, Permutation (to_vec q) (qmap q) /\ StronglySorted le_ts (to_vec q) /\ ts_sorted (to_vec q).
Proof.
  intro q. split; [exact (to_vec_perm q)|]. split; [exact (to_vec_sorted q) | exact (sort_ts_ts_sorted (qmap q))].
Qed.

Theorem C19_to_vec_once :
  forall q, NoDup (ids (qmap q)) ->
    NoDup (ids (to_vec q)) /\ NoDup (to_vec q) /\
    (forall o, In o (to_vec q) <-> qfind q (oid_of o) = Some o) /\
    (forall k, qfind q k = lookup k (to_vec q)) /\
    length (to_vec q) = length (qmap q).
Proof. exact to_vec_once. Qed.

(* ================================================================== *)
(* 2. pop hands out the head of the pop order [abs q]                 *)
(* ================================================================== *)

Theorem C19_pop_some :
  forall q o q', pop q = (Some o, q') ->
    exists rest,
      abs q = oid_of o :: rest /\ lookup (oid_of o) (qmap q) = Some o /\
      abs q' = rest /\ qmap q' = remove_key (oid_of o) (qmap q).
Proof. exact pop_some. Qed.

Theorem C19_pop_none :
  forall q q', pop q = (None, q') -> abs q = [] /\ qmap q' = qmap q.
Proof. intros q q' H. destruct (pop_none q q' H) as (A & B & _). split; assumption. Qed.

(* conversely the pop order predicts pop *)
Theorem C19_pop_of_abs :
  forall q,
    (abs q = [] -> pop q = (None, mkQueue (qmap q) [])) /\
    (forall k rest, abs q = k :: rest ->
       exists o q', pop q = (Some o, q') /\ oid_of o = k /\ lookup k (qmap q) = Some o /\
                    abs q' = rest /\ qmap q' = remove_key k (qmap q)).
Proof. intro q. split; [exact (pop_of_abs_nil q) | exact (pop_of_abs_cons q)]. Qed.

(* every live id with a ticket appears exactly once in the pop order *)
Theorem C19_abs_once :
  forall q, NoDup (abs q) /\ forall k, In k (abs q) <-> In k (tickets q) /\ qfind q k <> None.
Proof. intro q. split; [exact (abs_nodup q) | exact (abs_in q)]. Qed.

(* for reachable queues the pop order enumerates the queued ids *)
Theorem C19_abs_perm :
  forall q, WfQueue q -> Permutation (abs q) (ids (qmap q)).
Proof. exact abs_perm. Qed.

Theorem C19_abs_perm_reachable :
  forall q, reachable_q q -> Permutation (abs q) (ids (qmap q)).
Proof. intros q H. exact (abs_perm q (reachable_wf q H)). Qed.

(* repeated pops hand out the orders named by the pop order, in that order,
   each with the value the map holds for it; for reachable queues that is every
   queued order exactly once *)
Theorem C19_drain :
  forall q, map oid_of (drain q) = abs q /\
            map Some (drain q) = map (fun k => lookup k (qmap q)) (abs q).
Proof. exact drain_spec. Qed.

Theorem C19_drain_perm :
  forall q, WfQueue q -> Permutation (drain q) (qmap q).
Proof. exact drain_perm. Qed.

Theorem C19_pops_run :
  forall n q, run_q q (repeat QPop n) =
    map (fun o => ROrd (Some o)) (pop_all n q) ++ repeat (ROrd None) (n - length (pop_all n q)).
Proof. exact run_pops. Qed.

(* ================================================================== *)
(* 3. FIFO refinement when every push is fresh                        *)
(* ================================================================== *)

(* Same answers for every call, compared by equality — also for the listing:
   under fresh pushes the map list IS the abstract FIFO, so [QVec] answers are
   equal lists, not merely equal up to ties. *)
Theorem C19_fifo_fresh :
  forall ops, all_fresh empty_queue ops -> run_q empty_queue ops = run_f [] ops.
Proof. exact run_refines. Qed.

(* the simulation behind it: map = abstract FIFO, pop order = map order *)
Theorem C19_fifo_simulation :
  forall ops q, NoDup (ids (qmap q)) /\ abs q = ids (qmap q) -> all_fresh q ops ->
    run_q q ops = run_f (qmap q) ops /\ qmap (exec_q q ops) = exec_f (qmap q) ops /\
    (NoDup (ids (qmap (exec_q q ops))) /\ abs (exec_q q ops) = ids (qmap (exec_q q ops))).
Proof. exact run_refines_gen. Qed.

(* freshness read off the abstract run alone: an id is pushed only when it was
   never pushed or its last push has since been handed out by pop *)
Theorem C19_fifo_push_ok :
  forall ops, push_ok [] [] ops -> run_q empty_queue ops = run_f [] ops.
Proof. exact run_refines_push_ok. Qed.

Theorem C19_push_ok_fresh :
  forall ops, push_ok [] [] ops -> all_fresh empty_queue ops.
Proof. exact push_ok_fresh. Qed.

(* ids pushed once *)
Theorem C19_fifo_pushed_once :
  forall ops, NoDup (pushed_ids ops) -> run_q empty_queue ops = run_f [] ops.
Proof. exact run_refines_pushed_once. Qed.

(* in such runs no id ever has two outstanding tickets, and an id handed out by
   pop is fresh again *)
Theorem C19_fresh_single_ticket :
  forall ops, all_fresh empty_queue ops -> NoDup (tickets (exec_q empty_queue ops)).
Proof. exact fresh_run_single_ticket. Qed.

Theorem C19_pop_fresh_again :
  forall q o q', NoDup (tickets q) -> pop q = (Some o, q') -> fresh q' o.
Proof. exact pop_fresh_again. Qed.

(* ================================================================== *)
(* 4. The general case                                                *)
(* ================================================================== *)

(* how each call moves the pop order (pop: section 2) *)
Theorem C19_abs_push_fresh :
  forall q o, fresh q o -> abs (push q o) = abs q ++ [oid_of o].
Proof. exact abs_push_fresh. Qed.

(* a queued id with an outstanding ticket keeps its place (its order is replaced) *)
Theorem C19_abs_push_live :
  forall q o, In (oid_of o) (abs q) -> abs (push q o) = abs q.
Proof. exact abs_push_live. Qed.

(* K2: an id with a stale ticket takes the place of its oldest stale ticket *)
Theorem C19_abs_push_stale :
  forall q o t1 t2,
    qfind q (oid_of o) = None -> tickets q = t1 ++ oid_of o :: t2 -> ~ In (oid_of o) t1 ->
    let m' := remove_keys (pop_order (qmap q) t1) (qmap q) in
    abs q = pop_order (qmap q) t1 ++ pop_order m' t2 /\
    abs (push q o) = pop_order (qmap q) t1 ++ oid_of o :: pop_order m' t2.
Proof. exact abs_push_stale. Qed.

Theorem C19_abs_remove :
  forall q k, abs (snd (qremove q k)) = drop_id k (abs q).
Proof. exact abs_qremove. Qed.

(* K2 witness: push A; push B; remove A; push A'; pop  returns A', the FIFO returns B *)
Theorem K2_queue_witness :
  exists ops, run_q empty_queue ops <> run_f [] ops.
Proof. exists k2_ops. exact k2_witness. Qed.

Theorem K2_queue_witness_runs :
  run_q empty_queue k2_ops = [RUnit; RUnit; ROrd (Some k2_A); RUnit; ROrd (Some k2_A')] /\
  run_f [] k2_ops          = [RUnit; RUnit; ROrd (Some k2_A); RUnit; ROrd (Some k2_B)].
Proof. exact k2_runs. Qed.

(* C19 with its quantifier read literally ("ids pushed once or re-pushed after
   removal": every push happens when its id is not queued) is FALSE of the model. *)
Theorem C19_fifo_refuted :
  exists ops, push_absent [] ops /\ ~ (run_q empty_queue ops = run_f [] ops).
Proof. exists k2_ops. split; [exact k2_push_absent | exact k2_witness]. Qed.

(* ================================================================== *)
(* 5. Builders: from_vec / From<Vec> / FromStr / Deserialize          *)
(* ================================================================== *)

Theorem C19_from_vec_is_pushes :
  forall os, from_vec os = exec_q empty_queue (map QPush os).
Proof. intro os. exact (from_vec_exec os empty_queue). Qed.

Theorem C19_from_vec_tickets :
  forall os, tickets (from_vec os) = ids os.
Proof. exact from_vec_tickets. Qed.

(* lookup finds the LAST order with that id in the input *)
Theorem C19_from_vec_lookup :
  forall os k, qfind (from_vec os) k = lookup k (rev os).
Proof. exact from_vec_lookup. Qed.

Theorem C19_from_vec_wf :
  forall os, NoDup (ids (qmap (from_vec os))) /\ Covered (from_vec os).
Proof. exact from_vec_wf. Qed.

(* with distinct ids: the same orders (even in the same map order), popped in input order *)
Theorem C19_from_vec_same_orders :
  forall os, NoDup (ids os) ->
    qmap (from_vec os) = os /\ Permutation (qmap (from_vec os)) os /\
    abs (from_vec os) = ids os /\ drain (from_vec os) = os.
Proof.
  intros os ND. split; [exact (from_vec_map os ND)|].
  split; [rewrite (from_vec_map os ND); apply Permutation_refl|].
  split; [exact (from_vec_abs os ND) | exact (from_vec_drain os ND)].
Qed.

(* ================================================================== *)
(* Non-vacuity                                                        *)
(* ================================================================== *)

Definition exA  : order := Standard (mkCommon (Uuid 1) 100 Buy 10 Gtc) 5.
Definition exB  : order := Iceberg (mkCommon (Ulid 2) 100 Buy 10 Gtc) 7 30.
Definition exA' : order := Standard (mkCommon (Uuid 1) 100 Buy 12 Gtc) 9.

(* re-push after pop, removal by id, every kind of call: satisfies [push_ok] *)
Definition ex_ops1 : list qop :=
  [QPush exA; QPush exB; QLen; QVec; QPop; QPush exA'; QFind (Uuid 1); QRemove (Ulid 2);
   QEmpty; QPop; QPop; QEmpty].

Example C19_push_ok_example :
  push_ok [] [] ex_ops1 /\
  run_q empty_queue ex_ops1 =
    [RUnit; RUnit; RLen 2; RVec [exB; exA]; ROrd (Some exA); RUnit; ROrd (Some exA');
     ROrd (Some exB); RBool false; ROrd (Some exA'); ROrd None; RBool true].
Proof.
  split; [|vm_compute; reflexivity].
  cbv. repeat split; intro H; repeat (destruct H as [H|H]; try discriminate H); exact H.
Qed.

(* re-push after removal by id once the stale ticket has been consumed: fresh,
   although [push_ok] does not hold *)
Definition ex_ops2 : list qop :=
  [QPush exA; QPush exB; QRemove (Uuid 1); QPop; QPush exA'; QPop; QPop].

Example C19_all_fresh_example :
  all_fresh empty_queue ex_ops2 /\ ~ push_ok [] [] ex_ops2 /\
  run_q empty_queue ex_ops2 =
    [RUnit; RUnit; ROrd (Some exA); ROrd (Some exB); RUnit; ROrd (Some exA'); ROrd None].
Proof.
  split; [|split; [|vm_compute; reflexivity]].
  - cbv. repeat split; intro H; repeat (destruct H as [H|H]; try discriminate H); exact H.
  - cbv. intros (_ & _ & _ & _ & H & _). apply H. left. reflexivity.
Qed.

(* a reachable queue with a stale ticket, and a builder input with a repeated id *)
Example C19_reachable_example :
  let q := exec_q empty_queue [QPush exA; QPush exB; QRemove (Uuid 1)] in
  reachable_q q /\ tickets q = [Uuid 1; Ulid 2] /\ abs q = [Ulid 2] /\ qmap q = [exB].
Proof. cbv zeta. split; [eexists; reflexivity|]. repeat split; vm_compute; reflexivity. Qed.

Example C19_from_vec_example :
  NoDup (ids [exA; exB]) /\ drain (from_vec [exA; exB]) = [exA; exB] /\
  qmap (from_vec [exA; exB; exA']) = [exB; exA'] /\ drain (from_vec [exA; exB; exA']) = [exA'; exB].
Proof.
  split; [|repeat split; vm_compute; reflexivity].
  cbv. repeat constructor; intro H; repeat (destruct H as [H|H]; try discriminate H); exact H.
Qed.

Check C19_reachable_wf : forall q, reachable_q q -> NoDup (ids (qmap q)) /\ Covered q.
Check C19_find_history :
  forall ops k, qfind (exec_q empty_queue ops) k = last_pushed k (trace_q empty_queue ops).
Check C19_remove :
  forall q k r q', qremove q k = (r, q') ->
    r = qfind q k /\ tickets q' = tickets q /\
    forall k', qfind q' k' = if oid_eqb k' k then None else qfind q k'.
Check C19_pop_some :
  forall q o q', pop q = (Some o, q') ->
    exists rest,
      abs q = oid_of o :: rest /\ lookup (oid_of o) (qmap q) = Some o /\
      abs q' = rest /\ qmap q' = remove_key (oid_of o) (qmap q).
Check C19_pop_none : forall q q', pop q = (None, q') -> abs q = [] /\ qmap q' = qmap q.
Check C19_abs_perm_reachable : forall q, reachable_q q -> Permutation (abs q) (ids (qmap q)).
Check C19_drain_perm : forall q, WfQueue q -> Permutation (drain q) (qmap q).
Check C19_fifo_fresh :
  forall ops, all_fresh empty_queue ops -> run_q empty_queue ops = run_f [] ops.
Check C19_fifo_push_ok : forall ops, push_ok [] [] ops -> run_q empty_queue ops = run_f [] ops.
Check C19_fifo_pushed_once :
  forall ops, NoDup (pushed_ids ops) -> run_q empty_queue ops = run_f [] ops.
Check K2_queue_witness : exists ops, run_q empty_queue ops <> run_f [] ops.
Check C19_fifo_refuted :
  exists ops, push_absent [] ops /\ ~ (run_q empty_queue ops = run_f [] ops).
Check C19_from_vec_same_orders :
  forall os, NoDup (ids os) ->
    qmap (from_vec os) = os /\ Permutation (qmap (from_vec os)) os /\
    abs (from_vec os) = ids os /\ drain (from_vec os) = os.

Print Assumptions C19_reachable_wf.
Print Assumptions C19_step_wf.
Print Assumptions C19_find_history.
Print Assumptions C19_find_push.
Print Assumptions C19_find_pop.
Print Assumptions C19_find_exact.
Print Assumptions C19_remove.
Print Assumptions C19_remove_map.
Print Assumptions C19_len_counts.
Print Assumptions C19_len_push.
Print Assumptions C19_len_pop.
Print Assumptions C19_len_remove.
Print Assumptions C19_is_empty.
Print Assumptions C19_sort_ts.
Print Assumptions C19_sort_ts_unique.
Print Assumptions C19_sort_ts_not_stable.
Print Assumptions C19_to_vec.
Print Assumptions C19_to_vec_once.
Print Assumptions C19_pop_some.
Print Assumptions C19_pop_none.
Print Assumptions C19_pop_of_abs.
Print Assumptions C19_abs_once.
Print Assumptions C19_abs_perm.
Print Assumptions C19_abs_perm_reachable.
Print Assumptions C19_drain.
Print Assumptions C19_drain_perm.
Print Assumptions C19_pops_run.
Print Assumptions C19_fifo_fresh.
Print Assumptions C19_fifo_simulation.
Print Assumptions C19_fifo_push_ok.
Print Assumptions C19_push_ok_fresh.
Print Assumptions C19_fifo_pushed_once.
Print Assumptions C19_fresh_single_ticket.
Print Assumptions C19_pop_fresh_again.
Print Assumptions C19_abs_push_fresh.
Print Assumptions C19_abs_push_live.
Print Assumptions C19_abs_push_stale.
Print Assumptions C19_abs_remove.
Print Assumptions K2_queue_witness.
Print Assumptions K2_queue_witness_runs.
Print Assumptions C19_fifo_refuted.
Print Assumptions C19_from_vec_is_pushes.
Print Assumptions C19_from_vec_tickets.
Print Assumptions C19_from_vec_lookup.
Print Assumptions C19_from_vec_wf.
Print Assumptions C19_from_vec_same_orders.
Print Assumptions C19_push_ok_example.
Print Assumptions C19_all_fresh_example.
Print Assumptions C19_reachable_example.
Print Assumptions C19_from_vec_example.
