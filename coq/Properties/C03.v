(* C03 — Quantity is conserved when threads add, match, cancel and amend concurrently.
   Only statements live here; proofs are in Proofs/ConcInv.v and Proofs/ConcThms.v.

   Model: Model/Conc.v (one shared-memory operation per step, every schedule,
   any number of threads and calls).  Vocabulary: Spec/ConcSpec.v.

   What is proved, for EVERY program, schedule and number of threads:
   * [Inv] = J (each counter = sum over the map + what the threads hold, as
     unwrapped naturals) /\ K (order ids unique among map, held orders, orders to
     be added) /\ POK /\ Bound is preserved by every single step
     (C03_step, C03_reachable);
   * at quiescence the aggregates equal the sums over the resting orders
     (C03_quiescent_aggregates);
   * the GLOBAL form of the conservation law: the potential [Supplied] (resting
     quantity + quantity in the threads' hands + quantity of calls not yet
     started) drops at a step by exactly [drain]: the quantity executed (at M3),
     the hidden quantity discarded (at M15), the quantity handed back by a
     cancel / price move (at C5), the quantity replaced by an amend (U1..U4), and
     is constant at every other step (C03_step_ledger); summed along a schedule
     (C03_ledger, C03_quiescent_ledger):
        supplied = resting + executed + returned + discarded + amended-away;
   * the PER-ORDER form: the same law restricted to any one order id k
     ([SuppliedK], [draink], [run_ledger_k]): per step (C03_per_order_step) and at
     quiescence from an initial configuration (C03_per_order):
        quantity resting under id k at the start + quantity the programs supply under k
        (its CAdd order, the new quantities of amends addressed to k)
        = quantity resting under k at the end + executed against k + handed back by a
          cancel of k + hidden quantity of k discarded + quantity of k replaced by amends.
     Since every unit leaves through exactly one of the four outflows of exactly one
     step, no unit is executed twice, handed to two cancellers, or lost. *)
From PL Require Import Spec.ConcSpec Spec.ConcExample Proofs.OrderProofs Proofs.ConcInv Proofs.ConcThms
  Proofs.ConcPerOrder.
Local Open Scope N_scope.

(* J_step: one step of any thread preserves the invariant. *)
Theorem C03_step :
  forall mf, I_cons mf ->
  forall c i c' e, Inv c -> cstep mf c i = Some (c', e) -> Inv c'.
Proof. exact cstep_Inv. Qed.

(* J_reachable: every schedule, from any configuration satisfying the invariant. *)
Theorem C03_reachable :
  forall mf, I_cons mf ->
  forall sched c0, Inv c0 ->
    Inv (fst (exec mf sched c0)) /\
    Supplied (fst (exec mf sched c0)) <= Supplied c0 /\
    OrdersB (fst (exec mf sched c0)) <= OrdersB c0.
Proof. intros mf HI sched c0. exact (exec_Inv mf HI sched c0). Qed.

(* Initial configurations of well-formed programs satisfy the invariant. *)
Theorem C03_init :
  forall l gen progs, wf_progs l progs -> Inv (init_config l gen progs).
Proof. exact init_Inv. Qed.

(* Once all threads have returned, the aggregates are the sums over the resting
   orders, and the resting ids are distinct. *)
Theorem C03_quiescent_aggregates :
  forall mf, I_cons mf ->
  forall sched c0, Inv c0 ->
    let c := fst (exec mf sched c0) in
    quiescent c = true ->
    Agg (level_of_shared (cf_sh c)) /\ NoDup (ids (sh_map (cf_sh c))).
Proof. exact exec_quiescent_Agg. Qed.

(* The potential drops by exactly the drained quantity at each step. *)
Theorem C03_step_ledger :
  forall mf, I_cons mf ->
  forall c i c' e t, Inv c -> nth_error (cf_threads c) i = Some t -> cstep mf c i = Some (c', e) ->
    Supplied c = Supplied c' + drain (th_pc t) (cf_sh c).
Proof. intros mf HI c i c' e t Hc Hn Hs. exact (proj1 (proj2 (cstep_inv_ledger mf HI c i c' e t Hc Hn Hs))). Qed.

(* Along any schedule: what was supplied = what is still there + the four outflows. *)
Theorem C03_ledger :
  forall mf, I_cons mf ->
  forall sched c0, Inv c0 ->
    let g := run_ledger mf sched c0 ledger0 in
    lg_exec g + lg_ret g + lg_disc g + lg_amend g + Supplied (fst (exec mf sched c0)) = Supplied c0.
Proof. exact exec_ledger0. Qed.

(* ... and at quiescence what is still there is exactly the resting quantity. *)
Theorem C03_quiescent_ledger :
  forall mf, I_cons mf ->
  forall sched c0, Inv c0 ->
    let c := fst (exec mf sched c0) in
    let g := run_ledger mf sched c0 ledger0 in
    quiescent c = true ->
    sumv (sh_map (cf_sh c)) + sumh (sh_map (cf_sh c)) +
      lg_exec g + lg_ret g + lg_disc g + lg_amend g = Supplied c0.
Proof. exact exec_quiescent_ledger. Qed.

(* Per order id: the potential restricted to id k drops by the drain of a step that works on k. *)
Theorem C03_per_order_step :
  forall mf, I_cons mf ->
  forall k c i c' e t, Inv c -> nth_error (cf_threads c) i = Some t -> cstep mf c i = Some (c', e) ->
    SuppliedK k c = SuppliedK k c' + draink k (th_pc t) (cf_sh c).
Proof. exact cstep_ledger_k. Qed.

(* Per order id, once all threads have returned. *)
Theorem C03_per_order :
  forall mf, I_cons mf ->
  forall k l gen progs sched,
    wf_progs l progs ->
    let c0 := init_config l gen progs in
    let c := fst (exec mf sched c0) in
    let g := run_ledger_k mf k sched c0 ledger0 in
    quiescent c = true ->
    resting_k k (sh_map (cf_sh c)) + lg_exec g + lg_ret g + lg_disc g + lg_amend g =
    resting_k k (resting l) + prog_budk k (price l) progs.
Proof. exact per_order_ledger. Qed.

(* Corollaries for the implementation's per-order function and initial configurations. *)
Theorem C03_match_against :
  forall l gen progs sched, wf_progs l progs ->
    let c := fst (exec match_against sched (init_config l gen progs)) in
    Inv c /\
    (quiescent c = true -> Agg (level_of_shared (cf_sh c)) /\ NoDup (ids (sh_map (cf_sh c)))).
Proof.
  intros l gen progs sched Hwf c.
  pose proof (init_Inv l gen progs Hwf) as H0.
  split; [exact (proj1 (exec_Inv _ match_against_I_cons sched _ H0))|].
  exact (C03_quiescent_aggregates _ match_against_I_cons sched _ H0).
Qed.

(* ---- non-vacuity: a concrete two-thread program ---- *)
Example C03_example_wf : wf_progs ex_level ex_progs.
Proof. exact ex_wf. Qed.

Example C03_example_run :
  let c := fst (exec match_against ex_sched ex_c0) in
  quiescent c = true /\
  (sh_cvis (cf_sh c), sh_chid (cf_sh c), sh_ccnt (cf_sh c)) = (3, 0, 1) /\
  map oid_of (sh_map (cf_sh c)) = [Uuid 4] /\
  Supplied ex_c0 = 43 /\
  run_ledger match_against ex_sched ex_c0 ledger0 = mkLedger 16 12 6 6.
Proof. vm_compute. repeat split. Qed.

(* the four orders of the example, one by one: (resting at the end, ledger) = supplied *)
Example C03_example_per_order :
  let c := fst (exec match_against ex_sched ex_c0) in
  map (fun k => (resting_k k (sh_map (cf_sh c)), run_ledger_k match_against k ex_sched ex_c0 ledger0,
                 resting_k k (resting ex_level) + prog_budk k 100 ex_progs))
      [Uuid 1; Uuid 2; Uuid 3; Uuid 4]
  = [ (0, mkLedger 10 0 0 0, 10);      (* Standard: executed in full *)
      (0, mkLedger 0 12 0 0, 12);      (* Iceberg: cancelled, 5 + 7 handed back *)
      (0, mkLedger 4 0 6 0, 10);       (* Reserve, no auto-replenish: 4 executed, 6 hidden discarded *)
      (3, mkLedger 2 0 0 6, 11) ].     (* added 8, 2 executed, amended to 3: 8 + 3 = 3 + 2 + 6 *)
Proof. vm_compute. reflexivity. Qed.

Check C03_step : forall mf, I_cons mf ->
  forall c i c' e, Inv c -> cstep mf c i = Some (c', e) -> Inv c'.
Check C03_quiescent_aggregates : forall mf, I_cons mf ->
  forall sched c0, Inv c0 ->
    let c := fst (exec mf sched c0) in
    quiescent c = true ->
    Agg (level_of_shared (cf_sh c)) /\ NoDup (ids (sh_map (cf_sh c))).
Check C03_ledger : forall mf, I_cons mf ->
  forall sched c0, Inv c0 ->
    let g := run_ledger mf sched c0 ledger0 in
    lg_exec g + lg_ret g + lg_disc g + lg_amend g + Supplied (fst (exec mf sched c0)) = Supplied c0.

Print Assumptions C03_step.
Print Assumptions C03_reachable.
Print Assumptions C03_init.
Print Assumptions C03_quiescent_aggregates.
Print Assumptions C03_step_ledger.
Print Assumptions C03_ledger.
Print Assumptions C03_quiescent_ledger.
Print Assumptions C03_per_order_step.
Print Assumptions C03_per_order.
Print Assumptions C03_match_against.
Print Assumptions C03_example_per_order.
Print Assumptions C03_example_wf.
Print Assumptions C03_example_run.
