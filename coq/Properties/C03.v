(* C03 — Quantity is conserved when threads add, match, cancel and amend concurrently.
   Only statements live here; proofs are in Proofs/ConcInv.v and Proofs/ConcThms.v.

   Model: Model/Conc.v (one shared-memory operation per step, every schedule,
   any number of threads and calls).  Vocabulary: Spec/ConcSpec.v.

   What is proved, for EVERY program, schedule and number of threads:
   * [Inv] = J (each counter = sum over the map + what the threads hold, as
     unwrapped naturals) /\ K (order ids unique among map, held orders, orders to
     be added) /\ POK /\ Bound is preserved by every single step
     (C03_step, C03_reachable);
   * at quiescence the aggregates equal the sums over the resting orders
     (C03_quiescent_aggregates);
   * the GLOBAL form of the conservation law: the potential [Supplied] (resting
     quantity + quantity in the threads' hands + quantity of calls not yet
     started) drops at a step by exactly [drain]: the quantity executed (at M3),
     the hidden quantity discarded (at M15), the quantity handed back by a
     cancel / price move (at C5), the quantity replaced by an amend (U1..U4), and
     is constant at every other step (C03_step_ledger); summed along a schedule
     (C03_ledger, C03_quiescent_ledger):
        supplied = resting + executed + returned + discarded + amended-away;
   * the PER-ORDER form: the same law restricted to any one order id k
     ([SuppliedK], [draink], [run_ledger_k]): per step (C03_per_order_step) and at
     quiescence from an initial configuration (C03_per_order):
        quantity resting under id k at the start + quantity the programs supply under k
        (its CAdd order, the new quantities of amends addressed to k)
        = quantity resting under k at the end + executed against k + handed back by a
          cancel of k + hidden quantity of k discarded + quantity of k replaced by amends.
     Since every unit leaves through exactly one of the four outflows of exactly one
     step, no unit is executed twice, handed to two cancellers, or lost;
   * snapshot() is the four-step call [CSnapshot] (program points Sn1..Sn4: visible.load,
     hidden.load, order_count.load, orders.iter; proofs in Proofs/ConcSnapshot.v): every one
     of its steps leaves the shared state and the other threads untouched and drains
     nothing (C03_snapshot_is_pure); taken in one piece it returns the state of one instant
     (C03_snapshot_alone), which is the three aggregates of the listed orders when the other
     threads have returned (C03_snapshot_quiescent_exact); interleaved with writers it may
     be inconsistent (C03_example_snapshot_torn), but its three counters stay within the C12
     range (C03_snapshot_bounded, C03_snapshot_bounded_init). *)
From PL Require Import Spec.ConcSpec Spec.ConcExample Proofs.OrderProofs Proofs.ConcInv Proofs.ConcThms
  Proofs.ConcPerOrder Proofs.ConcSnapshot.
From Coq Require Import Permutation.
Local Open Scope N_scope.

(* J_step: one step of any thread preserves the invariant. *)
Theorem C03_step :
  forall mf, I_cons mf ->
  forall c i c' e, Inv c -> cstep mf c i = Some (c', e) -> Inv c'.
Proof. exact cstep_Inv. Qed.

(* J_reachable: every schedule, from any configuration satisfying the invariant. *)
Theorem C03_reachable :
  forall mf, I_cons mf ->
  forall sched c0, Inv c0 ->
    Inv (fst (exec mf sched c0)) /\
    Supplied (fst (exec mf sched c0)) <= Supplied c0 /\
    OrdersB (fst (exec mf sched c0)) <= OrdersB c0.
Proof. intros mf HI sched c0. exact (exec_Inv mf HI sched c0). Qed.

(* Initial configurations of well-formed programs satisfy the invariant. *)
Theorem C03_init :
  forall l gen progs, wf_progs l progs -> Inv (init_config l gen progs).
Proof. exact init_Inv. Qed.

(* Once all threads have returned, the aggregates are the sums over the resting
   orders, and the resting ids are distinct. *)
Theorem C03_quiescent_aggregates :
  forall mf, I_cons mf ->
  forall sched c0, Inv c0 ->
    let c := fst (exec mf sched c0) in
    quiescent c = true ->
    Agg (level_of_shared (cf_sh c)) /\ NoDup (ids (sh_map (cf_sh c))).
Proof. exact exec_quiescent_Agg. Qed.

(* The potential drops by exactly the drained quantity at each step. *)
Theorem C03_step_ledger :
  forall mf, I_cons mf ->
  forall c i c' e t, Inv c -> nth_error (cf_threads c) i = Some t -> cstep mf c i = Some (c', e) ->
    Supplied c = Supplied c' + drain (th_pc t) (cf_sh c).
Proof. intros mf HI c i c' e t Hc Hn Hs. exact (proj1 (proj2 (cstep_inv_ledger mf HI c i c' e t Hc Hn Hs))). Qed.

(* Along any schedule: what was supplied = what is still there + the four outflows. *)
Theorem C03_ledger :
  forall mf, I_cons mf ->
  forall sched c0, Inv c0 ->
    let g := run_ledger mf sched c0 ledger0 in
    lg_exec g + lg_ret g + lg_disc g + lg_amend g + Supplied (fst (exec mf sched c0)) = Supplied c0.
Proof. exact exec_ledger0. Qed.

(* ... and at quiescence what is still there is exactly the resting quantity. *)
Theorem C03_quiescent_ledger :
  forall mf, I_cons mf ->
  forall sched c0, Inv c0 ->
    let c := fst (exec mf sched c0) in
    let g := run_ledger mf sched c0 ledger0 in
    quiescent c = true ->
    sumv (sh_map (cf_sh c)) + sumh (sh_map (cf_sh c)) +
      lg_exec g + lg_ret g + lg_disc g + lg_amend g = Supplied c0.
Proof. exact exec_quiescent_ledger. Qed.

(* Per order id: the potential restricted to id k drops by the drain of a step that works on k. *)
Theorem C03_per_order_step :
  forall mf, I_cons mf ->
  forall k c i c' e t, Inv c -> nth_error (cf_threads c) i = Some t -> cstep mf c i = Some (c', e) ->
    SuppliedK k c = SuppliedK k c' + draink k (th_pc t) (cf_sh c).
Proof. exact cstep_ledger_k. Qed.

(* Per order id, once all threads have returned. *)
Theorem C03_per_order :
  forall mf, I_cons mf ->
  forall k l gen progs sched,
    wf_progs l progs ->
    let c0 := init_config l gen progs in
    let c := fst (exec mf sched c0) in
    let g := run_ledger_k mf k sched c0 ledger0 in
    quiescent c = true ->
    resting_k k (sh_map (cf_sh c)) + lg_exec g + lg_ret g + lg_disc g + lg_amend g =
    resting_k k (resting l) + prog_budk k (price l) progs.
Proof. exact per_order_ledger. Qed.

(* ---- snapshot(): the four-step call CSnapshot ---- *)

(* (a) A step taken at a snapshot program point changes nothing: the shared state is the
   same, every other thread is the same, nothing is drained; its event is a load of one of
   the three counters, or the iteration, returning what the shared state holds. *)
Theorem C03_snapshot_is_pure :
  forall mf c i c' e t,
    nth_error (cf_threads c) i = Some t -> snap_pc (th_pc t) -> cstep mf c i = Some (c', e) ->
    cf_sh c' = cf_sh c /\
    (forall j, j <> i -> nth_error (cf_threads c') j = nth_error (cf_threads c) j) /\
    length (cf_threads c') = length (cf_threads c) /\
    read_ev (cf_sh c) e /\
    drain (th_pc t) (cf_sh c) = 0.
Proof. exact cstep_snap_pure. Qed.

(* ... per program point: the successor is the next snapshot point, or the call returns *)
Theorem C03_snapshot_points :
  forall mf p s p' s' e,
    tstep mf p s = Some (p', s', e) -> snap_pc p ->
    s' = s /\ read_ev s e /\ drain p s = 0 /\
    (snap_pc p' \/ exists v h n, p = Sn4 v h n /\ p' = Done (RetSnap v h n (sort_ts (sh_map s)))).
Proof. exact tstep_snap. Qed.

(* (b) Four steps of the snapshot thread with no step of another thread in between, from ANY
   configuration: the call returns [snap_of] the shared state of that instant, emitting the
   four read events of that state; the state and the other threads are as before. *)
Theorem C03_snapshot_alone :
  forall mf c i t,
    nth_error (cf_threads c) i = Some t -> th_pc t = Sn1 ->
    exists c' t' rs,
      exec mf [i; i; i; i] c = (c', map (fun e => (i, e)) (snap_events (cf_sh c))) /\
      cf_sh c' = cf_sh c /\
      (forall j, j <> i -> nth_error (cf_threads c') j = nth_error (cf_threads c) j) /\
      nth_error (cf_threads c') i = Some t' /\
      all_rets t' = th_rets t ++ snap_of (cf_sh c) :: rs /\
      (th_todo t = [] -> t' = mkThread (Done (snap_of (cf_sh c))) [] (th_rets t)).
Proof. exact exec_snapshot_alone. Qed.

(* ... in a configuration reached from one satisfying the invariant in which every OTHER thread
   has returned (in particular a snapshot taken at quiescence): the three numbers returned are
   the sums over the returned listing, which lists the resting orders, each id once. *)
Theorem C03_snapshot_quiescent_exact :
  forall mf, I_cons mf ->
  forall sched c0, Inv c0 ->
    let c := fst (exec mf sched c0) in
    forall i t,
      nth_error (cf_threads c) i = Some t -> th_pc t = Sn1 ->
      (forall j u, j <> i -> nth_error (cf_threads c) j = Some u -> thread_finished u = true) ->
      let s := cf_sh c in
      let ls := sort_ts (sh_map s) in
      exists c' t' rs,
        exec mf [i; i; i; i] c = (c', map (fun e => (i, e)) (snap_events s)) /\
        cf_sh c' = s /\
        nth_error (cf_threads c') i = Some t' /\
        all_rets t' = th_rets t ++ RetSnap (sumv ls) (sumh ls) (lenN ls) ls :: rs /\
        Permutation ls (sh_map s) /\ NoDup (ids ls) /\
        Agg (level_of_shared s).
Proof. exact snapshot_quiescent_exact. Qed.

(* ... and if the snapshot is that thread's last call the configuration is quiescent afterwards
   (so C03_quiescent_aggregates speaks about the very state the snapshot has returned) *)
Theorem C03_snapshot_then_quiescent :
  forall mf c i t,
    nth_error (cf_threads c) i = Some t -> th_pc t = Sn1 -> th_todo t = [] ->
    (forall j u, j <> i -> nth_error (cf_threads c) j = Some u -> thread_finished u = true) ->
    quiescent (fst (exec mf [i; i; i; i] c)) = true /\ cf_sh (fst (exec mf [i; i; i; i] c)) = cf_sh c.
Proof. exact snapshot_last_call_quiescent. Qed.

(* (c) ANY snapshot, however interleaved: each of the three counters it has loaded or returned is
   within the C12 range (at most what was ever supplied, hence < 2^64: never a wrapped value).
   [SnapLe B Bc c]: every RetSnap among the returns, and every value a snapshot in progress has
   loaded, is <= B (visible, hidden) resp. <= Bc (count).  No statement about v + h: the two are
   loaded at different instants. *)
Theorem C03_snapshot_bounded :
  forall mf, I_cons mf ->
  forall sched c0, Inv c0 -> SnapLe (Supplied c0) (OrdersB c0) c0 ->
    SnapLe (Supplied c0) (OrdersB c0) (fst (exec mf sched c0)) /\ Supplied c0 < W /\ OrdersB c0 < W.
Proof. exact exec_snapshot_bounded. Qed.

Theorem C03_snapshot_bounded_init :
  forall mf l gen progs sched,
    I_cons mf -> wf_progs l progs ->
    let c := fst (exec mf sched (init_config l gen progs)) in
    let B := sumv (resting l) + sumh (resting l) + prog_budget (price l) progs in
    let Bc := lenN (resting l) + prog_bc progs in
    forall i t v h n ls,
      nth_error (cf_threads c) i = Some t -> In (RetSnap v h n ls) (all_rets t) ->
      v <= B /\ h <= B /\ n <= Bc /\ B < W /\ Bc < W.
Proof. exact init_snapshot_bounded. Qed.

(* Corollaries for the implementation's per-order function and initial configurations. *)
Theorem C03_match_against :
  forall l gen progs sched, wf_progs l progs ->
    let c := fst (exec match_against sched (init_config l gen progs)) in
    Inv c /\
    (quiescent c = true -> Agg (level_of_shared (cf_sh c)) /\ NoDup (ids (sh_map (cf_sh c)))).
Proof.
  intros l gen progs sched Hwf c.
  pose proof (init_Inv l gen progs Hwf) as H0.
  split; [exact (proj1 (exec_Inv _ match_against_I_cons sched _ H0))|].
  exact (C03_quiescent_aggregates _ match_against_I_cons sched _ H0).
Qed.

(* ---- non-vacuity: a concrete two-thread program ---- *)
Example C03_example_wf : wf_progs ex_level ex_progs.
Proof. exact ex_wf. Qed.

Example C03_example_run :
  let c := fst (exec match_against ex_sched ex_c0) in
  quiescent c = true /\
  (sh_cvis (cf_sh c), sh_chid (cf_sh c), sh_ccnt (cf_sh c)) = (3, 0, 1) /\
  map oid_of (sh_map (cf_sh c)) = [Uuid 4] /\
  Supplied ex_c0 = 43 /\
  run_ledger match_against ex_sched ex_c0 ledger0 = mkLedger 16 12 6 6.
Proof. vm_compute. repeat split. Qed.

(* the four orders of the example, one by one: (resting at the end, ledger) = supplied *)
Example C03_example_per_order :
  let c := fst (exec match_against ex_sched ex_c0) in
  map (fun k => (resting_k k (sh_map (cf_sh c)), run_ledger_k match_against k ex_sched ex_c0 ledger0,
                 resting_k k (resting ex_level) + prog_budk k 100 ex_progs))
      [Uuid 1; Uuid 2; Uuid 3; Uuid 4]
  = [ (0, mkLedger 10 0 0 0, 10);      (* Standard: executed in full *)
      (0, mkLedger 0 12 0 0, 12);      (* Iceberg: cancelled, 5 + 7 handed back *)
      (0, mkLedger 4 0 6 0, 10);       (* Reserve, no auto-replenish: 4 executed, 6 hidden discarded *)
      (3, mkLedger 2 0 0 6, 11) ].     (* added 8, 2 executed, amended to 3: 8 + 3 = 3 + 2 + 6 *)
Proof. vm_compute. reflexivity. Qed.

(* a snapshot reader next to an adder, over the level of the example *)
Definition ex_snap_progs : list (list call) := [ [CAdd (Standard (ex_com 4 100 4) 8)]; [CSnapshot] ].
Example C03_example_snapshot_wf : wf_progs ex_level ex_snap_progs.
Proof.
  split; [vm_compute; repeat split|]. split; [|split; vm_compute; reflexivity].
  vm_compute. repeat constructor; cbn; intuition discriminate.
Qed.

(* the adder first, then the snapshot in one piece: exact (27 = 10+4+5+8, 13 = 6+7, 4 orders) *)
Example C03_example_snapshot_exact :
  let c := fst (exec match_against [0; 0; 0; 0; 0; 0; 1; 1; 1; 1]%nat (init_config ex_level 1000 ex_snap_progs)) in
  quiescent c = true /\
  map (fun t => match th_pc t with
                | Done (RetSnap v h n ls) => Some (v, h, n, map oid_of ls, (sumv ls, sumh ls, lenN ls))
                | _ => None end) (cf_threads c)
  = [None; Some (27, 13, 4, [Uuid 1; Uuid 3; Uuid 2; Uuid 4], (27, 13, 4))].
Proof. vm_compute. split; reflexivity. Qed.

(* the visible load before the add, the rest after it: a torn snapshot (19 visible reported for
   four listed orders showing 27), yet each counter is within the C12 range (<= 40 supplied) *)
Example C03_example_snapshot_torn :
  let c0 := init_config ex_level 1000 ex_snap_progs in
  let c := fst (exec match_against [1; 0; 0; 0; 0; 0; 0; 1; 1; 1]%nat c0) in
  quiescent c = true /\ Supplied c0 = 40 /\ OrdersB c0 = 4 /\
  map (fun t => match th_pc t with
                | Done (RetSnap v h n ls) => Some (v, h, n, map oid_of ls, (sumv ls, sumh ls, lenN ls))
                | _ => None end) (cf_threads c)
  = [None; Some (19, 13, 4, [Uuid 1; Uuid 3; Uuid 2; Uuid 4], (27, 13, 4))].
Proof. vm_compute. repeat split; reflexivity. Qed.

Check C03_step : forall mf, I_cons mf ->
  forall c i c' e, Inv c -> cstep mf c i = Some (c', e) -> Inv c'.
Check C03_quiescent_aggregates : forall mf, I_cons mf ->
  forall sched c0, Inv c0 ->
    let c := fst (exec mf sched c0) in
    quiescent c = true ->
    Agg (level_of_shared (cf_sh c)) /\ NoDup (ids (sh_map (cf_sh c))).
Check C03_snapshot_is_pure : forall mf c i c' e t,
    nth_error (cf_threads c) i = Some t -> snap_pc (th_pc t) -> cstep mf c i = Some (c', e) ->
    cf_sh c' = cf_sh c /\
    (forall j, j <> i -> nth_error (cf_threads c') j = nth_error (cf_threads c) j) /\
    length (cf_threads c') = length (cf_threads c) /\
    read_ev (cf_sh c) e /\
    drain (th_pc t) (cf_sh c) = 0.
Check C03_ledger : forall mf, I_cons mf ->
  forall sched c0, Inv c0 ->
    let g := run_ledger mf sched c0 ledger0 in
    lg_exec g + lg_ret g + lg_disc g + lg_amend g + Supplied (fst (exec mf sched c0)) = Supplied c0.

Print Assumptions C03_step.
Print Assumptions C03_reachable.
Print Assumptions C03_init.
Print Assumptions C03_quiescent_aggregates.
Print Assumptions C03_step_ledger.
Print Assumptions C03_ledger.
Print Assumptions C03_quiescent_ledger.
Print Assumptions C03_per_order_step.
Print Assumptions C03_per_order.
Print Assumptions C03_snapshot_is_pure.
Print Assumptions C03_snapshot_points.
Print Assumptions C03_snapshot_alone.
Print Assumptions C03_snapshot_quiescent_exact.
Print Assumptions C03_snapshot_then_quiescent.
Print Assumptions C03_snapshot_bounded.
Print Assumptions C03_snapshot_bounded_init.
Print Assumptions C03_example_snapshot_wf.
Print Assumptions C03_example_snapshot_exact.
Print Assumptions C03_example_snapshot_torn.
Print Assumptions C03_match_against.
Print Assumptions C03_example_per_order.
Print Assumptions C03_example_wf.
Print Assumptions C03_example_run.
