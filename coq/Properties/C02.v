(* C02 — Every match is fully accounted for and no order is ever over-filled.
   Only statements live here; proofs are in Proofs/MatchBase.v, Proofs/MatchProofs.v
   and Proofs/LedgerProofs.v; the vocabulary ([traded], [total], [hidden], [tx_ok],
   [dedup_last], [notin], [I_fill], the lifetime ledger) is in Spec/LedgerSpec.v.

   Per-call statements are about [match_order mf fuel l g qty taker = Some (l', g', r)]
   for an arbitrary per-order function [mf] meeting [I_cons]; corollaries instantiate
   [mf := match_against].  None of them needs the counters ([Agg], [Fits]) or [qty < W];
   the hypotheses on the level are the parts of [WfQueue] actually used. *)
From PL Require Import Model.Level Spec.Hist Spec.LedgerSpec Proofs.OrderProofs
                       Proofs.MatchBase Proofs.MatchProofs Proofs.LedgerProofs.
Local Open Scope N_scope.

(* 1. executed + remaining = requested; complete exactly when nothing remains *)
Theorem C02_accounting :
  forall mf, I_cons mf ->
  forall fuel l g qty taker l' g' r,
    match_order mf fuel l g qty taker = Some (l', g', r) ->
    executed_quantity r + r_remaining r = qty /\ (r_complete r = true <-> r_remaining r = 0).
Proof. exact match_accounting. Qed.

(* 2a. every transaction: positive quantity, the level's price, the given taker, a maker
       that was resting before the call, the side opposite to that maker's *)
Theorem C02_transactions :
  forall mf, I_cons mf ->
  forall fuel l g qty taker l' g' r,
    WfQueue (lq l) ->
    match_order mf fuel l g qty taker = Some (l', g', r) ->
    (forall t, In t (r_txs r) ->
       0 < tx_qty t /\ tx_price t = price l /\ tx_taker t = taker /\
       exists o, lookup (tx_maker t) (resting l) = Some o /\ tx_side t = opposite (side_of o)) /\
    price l' = price l /\ r_taker r = taker.
Proof.
  intros mf Hc fuel l g qty taker l' g' r [Hnd _] H.
  destruct (match_txs_ok mf Hc fuel l g qty taker l' g' r Hnd H) as (Htx & Hrest).
  split; [exact (proj1 (Forall_forall _ _) Htx) | exact Hrest].
Qed.

(* 2b. transaction indices are the consecutive generator values g, g+1, ... and the
       generator advances by the number of transactions: exactly (wrapping included,
       [gen_at g i] = g incremented i times with wrapping), and without wrapping when
       g + #transactions < 2^64 *)
Theorem C02_tx_indices :
  forall mf fuel l g qty taker l' g' r,
    match_order mf fuel l g qty taker = Some (l', g', r) ->
    let n := length (r_txs r) in
    (g' = gen_at g n /\ map tx_idx (r_txs r) = map (gen_at g) (seq 0 n)) /\
    (g + N.of_nat n < W ->
     g' = g + N.of_nat n /\ map tx_idx (r_txs r) = map (fun i => g + N.of_nat i) (seq 0 n)).
Proof. exact match_tx_indices. Qed.

(* 2c. hence, over a whole history, transaction ids are pairwise distinct and each call
       issues ids not issued before (all lie between the generator values before and after) *)
Theorem C02_tx_ids_never_reused :
  forall mf s evs s',
    trace mf s evs s' -> snd s + N.of_nat (length (all_txs evs)) < W ->
    NoDup (map tx_idx (all_txs evs)) /\
    forall t, In t (all_txs evs) -> snd s <= tx_idx t < snd s'.
Proof. exact trace_tx_ids_distinct. Qed.

(* 3. the filled list = the makers that traded in this call and are not resting afterwards,
      ordered by their last transaction ([dedup_last] keeps the last occurrence).
      Needs [I_fill] besides [I_cons]: see C02_filled_exact_refuted_without_I_fill. *)
Theorem C02_filled_exact :
  forall mf, I_cons mf -> I_fill mf ->
  forall fuel l g qty taker l' g' r,
    WfQueue (lq l) ->
    match_order mf fuel l g qty taker = Some (l', g', r) ->
    r_filled r = filter (notin (resting l')) (dedup_last (map tx_maker (r_txs r))).
Proof.
  intros mf Hc Hf fuel l g qty taker l' g' r [Hnd _].
  exact (match_filled_exact mf Hc Hf fuel l g qty taker l' g' r Hnd).
Qed.

(* under I_cons alone: no repeats, every listed id traded in this call and is gone *)
Theorem C02_filled_sound :
  forall mf, I_cons mf ->
  forall fuel l g qty taker l' g' r,
    WfQueue (lq l) ->
    match_order mf fuel l g qty taker = Some (l', g', r) ->
    NoDup (r_filled r) /\
    forall k, In k (r_filled r) -> In k (map tx_maker (r_txs r)) /\ lookup k (resting l') = None.
Proof.
  intros mf Hc fuel l g qty taker l' g' r [Hnd _].
  exact (match_filled_sound mf Hc fuel l g qty taker l' g' r Hnd).
Qed.

(* the exact description is FALSE for some per-order functions meeting I_cons only *)
Theorem C02_filled_exact_refuted_without_I_fill :
  exists mf, I_cons mf /\
  exists fuel l g qty taker l' g' r,
    WfQueue (lq l) /\ match_order mf fuel l g qty taker = Some (l', g', r) /\
    r_filled r <> filter (notin (resting l')) (dedup_last (map tx_maker (r_txs r))).
Proof. exact filled_exact_under_I_cons_only_refuted. Qed.

Theorem C02_match_against_I_fill : I_fill match_against.
Proof. exact match_against_I_fill. Qed.

(* 4. no over-fill within a call: per id, traded + what is left <= what was there; with
      equality while the order stays, and when it leaves at most its hidden quantity is lost *)
Theorem C02_no_overfill :
  forall mf, I_cons mf ->
  forall fuel l g qty taker l' g' r,
    WfQueue (lq l) ->
    match_order mf fuel l g qty taker = Some (l', g', r) ->
    forall k,
      traded r k + total (lookup k (resting l')) <= total (lookup k (resting l)) /\
      (lookup k (resting l') <> None ->
       traded r k + total (lookup k (resting l')) = total (lookup k (resting l))) /\
      (lookup k (resting l') = None ->
       total (lookup k (resting l)) <= traded r k + hidden (lookup k (resting l))).
Proof.
  intros mf Hc fuel l g qty taker l' g' r [Hnd _] H.
  exact (proj2 (match_no_overfill mf Hc fuel l g qty taker l' g' r Hnd H)).
Qed.

(* 5. the add_transaction law (pure): remaining = initial - sum (saturating), exact when
      the sum fits, and completion tracks remaining as soon as one transaction was added *)
Theorem C02_add_transaction_law :
  forall id q ts,
    let r' := fold_left add_transaction ts (result_new id q) in
    r_remaining r' = q - txsum ts /\
    (txsum ts <= q -> r_remaining r' + txsum ts = q) /\
    r_txs r' = ts /\ executed_quantity r' = txsum ts /\
    (ts <> [] -> r_complete r' = (r_remaining r' =? 0)) /\
    r_filled r' = [] /\ r_taker r' = id.
Proof. exact result_new_transactions. Qed.

Theorem C02_add_transaction_law_any_result :
  forall ts r,
    let r' := fold_left add_transaction ts r in
    r_remaining r' = r_remaining r - txsum ts /\
    r_txs r' = r_txs r ++ ts /\ r_filled r' = r_filled r /\ r_taker r' = r_taker r /\
    (ts <> [] -> r_complete r' = (r_remaining r' =? 0)).
Proof. exact add_transactions_spec. Qed.

(* 6. lifetime bound.  A [trace] is a history ([steps] of Spec/Hist.v) that remembers the
      level before each operation (needed to know the old total of an amended order).
      For every id: traded + handed back + still resting <= brought to the book. *)
Theorem C02_lifetime :
  forall mf, I_cons mf ->
  forall p g0 evs l g,
    trace mf (new_level p, g0) evs (l, g) ->
    forall k,
      (traded_total evs k + returned_total evs k + totalZ (lookup k (resting l))
       <= supplied_total evs k)%Z.
Proof. exact lifetime_bound. Qed.

Theorem C02_lifetime_steps :
  forall mf, I_cons mf ->
  forall p g0 ops outs l g,
    steps mf (new_level p, g0) ops (l, g) outs ->
    exists evs, map ev_op evs = ops /\ map ev_out evs = outs /\
                trace mf (new_level p, g0) evs (l, g) /\
    forall k,
      (traded_total evs k + returned_total evs k + totalZ (lookup k (resting l))
       <= supplied_total evs k)%Z.
Proof. exact lifetime_bound_steps. Qed.

(* traces and histories are the same thing *)
Theorem C02_trace_is_history :
  forall mf s evs s', trace mf s evs s' -> steps mf s (map ev_op evs) s' (map ev_out evs).
Proof. exact trace_steps. Qed.

(* from any starting state with unique ids (not only the empty level) *)
Theorem C02_lifetime_from :
  forall mf, I_cons mf ->
  forall s evs s',
    trace mf s evs s' -> NoDup (ids (resting (fst s))) ->
    NoDup (ids (resting (fst s'))) /\
    forall k,
      (traded_total evs k + returned_total evs k + totalZ (lookup k (resting (fst s')))
       <= totalZ (lookup k (resting (fst s))) + supplied_total evs k)%Z.
Proof. exact trace_ledger. Qed.

(* ---- the implementation's per-order function ---- *)
Corollary C02_accounting_match_against :
  forall fuel l g qty taker l' g' r,
    match_order match_against fuel l g qty taker = Some (l', g', r) ->
    executed_quantity r + r_remaining r = qty /\ (r_complete r = true <-> r_remaining r = 0).
Proof. exact (match_accounting match_against match_against_I_cons). Qed.

Corollary C02_filled_exact_match_against :
  forall fuel l g qty taker l' g' r,
    WfQueue (lq l) ->
    match_order match_against fuel l g qty taker = Some (l', g', r) ->
    r_filled r = filter (notin (resting l')) (dedup_last (map tx_maker (r_txs r))).
Proof.
  intros fuel l g qty taker l' g' r [Hnd _].
  exact (match_filled_exact match_against match_against_I_cons match_against_I_fill
           fuel l g qty taker l' g' r Hnd).
Qed.

Corollary C02_no_overfill_match_against :
  forall fuel l g qty taker l' g' r,
    WfQueue (lq l) ->
    match_order match_against fuel l g qty taker = Some (l', g', r) ->
    forall k,
      traded r k + total (lookup k (resting l')) <= total (lookup k (resting l)) /\
      (lookup k (resting l') <> None ->
       traded r k + total (lookup k (resting l')) = total (lookup k (resting l))) /\
      (lookup k (resting l') = None ->
       total (lookup k (resting l)) <= traded r k + hidden (lookup k (resting l))).
Proof.
  intros fuel l g qty taker l' g' r [Hnd _] H.
  exact (proj2 (match_no_overfill match_against match_against_I_cons fuel l g qty taker l' g' r Hnd H)).
Qed.

Corollary C02_lifetime_match_against :
  forall p g0 evs l g,
    trace match_against (new_level p, g0) evs (l, g) ->
    forall k,
      (traded_total evs k + returned_total evs k + totalZ (lookup k (resting l))
       <= supplied_total evs k)%Z.
Proof. exact (lifetime_bound match_against match_against_I_cons). Qed.

(* ---- non-vacuity ---- *)
Definition ex_o1 := Reserve (mkCommon (Uuid 1) 100 Sell 1 Gtc) 0 50 0 (Some 0) true.
Definition ex_o2 := Iceberg (mkCommon (Ulid 2) 100 Sell 2 Gtc) 5 12.
Definition ex_o3 := Standard (mkCommon (Uuid 3) 100 Sell 3 Day) 4.
Definition ex_level := add_order (add_order (add_order (new_level 100) ex_o1) ex_o2) ex_o3.

(* one call sweeping a plain order and three replenishment rounds of an iceberg *)
Example C02_example_call :
  WfQueue (lq ex_level) /\
  exists l' r,
    match_order match_against 7 ex_level 7 30 (Uuid 99) = Some (l', 12, r) /\
    map tx_idx (r_txs r) = [7; 8; 9; 10; 11] /\
    map tx_maker (r_txs r) = [Ulid 2; Uuid 3; Ulid 2; Ulid 2; Ulid 2] /\
    map tx_qty (r_txs r) = [5; 4; 5; 5; 2] /\
    r_filled r = [Uuid 3; Ulid 2] /\
    traded r (Ulid 2) = 17 /\ total (lookup (Ulid 2) (resting ex_level)) = 17 /\
    traded r (Uuid 1) = 0 /\ lookup (Uuid 1) (resting l') = Some ex_o1 /\
    executed_quantity r = 21 /\ r_remaining r = 9.
Proof.
  split; [solve_WfQueue|].
  destruct (match_order match_against 7 ex_level 7 30 (Uuid 99)) as [[[l' g'] r]|] eqn:E;
    vm_compute in E; [|discriminate].
  inversion E; subst; clear E. eexists. eexists. split; [reflexivity|].
  vm_compute. repeat split; reflexivity.
Qed.

(* a history: add an iceberg, trade part of it, amend its display, trade again, cancel *)
Definition ex_ops : list op :=
  [OAdd ex_o2; OMatch 7 (Uuid 99); OUpdate (UpdateQuantity (Ulid 2) 9);
   OMatch 3 (Uuid 98); OUpdate (Cancel (Ulid 2))].

Example C02_example_history :
  exists evs l g,
    map ev_op evs = ex_ops /\
    trace match_against (new_level 100, 0) evs (l, g) /\
    supplied_total evs (Ulid 2) = 23%Z /\ traded_total evs (Ulid 2) = 10%Z /\
    returned_total evs (Ulid 2) = 13%Z /\ resting l = [] /\ g = 3.
Proof.
  eexists. eexists. eexists. split; [|split].
  2:{ unfold ex_ops.
      eapply (trace_cons _ _ _ (OAdd ex_o2));
        [cbv; repeat split; try reflexivity | apply SAdd | vm_compute; split; reflexivity |].
      eapply (trace_cons _ _ _ (OMatch 7 (Uuid 99)));
        [vm_compute; reflexivity | apply (SMatch _ _ _ _ _ 10%nat); run_lhs
        | vm_compute; split; reflexivity |].
      eapply (trace_cons _ _ _ (OUpdate (UpdateQuantity (Ulid 2) 9)));
        [vm_compute; reflexivity | apply SUpdate; run_lhs | vm_compute; split; reflexivity |].
      eapply (trace_cons _ _ _ (OMatch 3 (Uuid 98)));
        [vm_compute; reflexivity | apply (SMatch _ _ _ _ _ 10%nat); run_lhs
        | vm_compute; split; reflexivity |].
      eapply (trace_cons _ _ _ (OUpdate (Cancel (Ulid 2))));
        [exact I | apply SUpdate; run_lhs | vm_compute; split; reflexivity |].
      apply trace_nil. }
  - reflexivity.
  - vm_compute. repeat split; reflexivity.
Qed.

Check C02_accounting :
  forall mf, I_cons mf ->
  forall fuel l g qty taker l' g' r,
    match_order mf fuel l g qty taker = Some (l', g', r) ->
    executed_quantity r + r_remaining r = qty /\ (r_complete r = true <-> r_remaining r = 0).
Check C02_no_overfill :
  forall mf, I_cons mf ->
  forall fuel l g qty taker l' g' r,
    WfQueue (lq l) ->
    match_order mf fuel l g qty taker = Some (l', g', r) ->
    forall k,
      traded r k + total (lookup k (resting l')) <= total (lookup k (resting l)) /\
      (lookup k (resting l') <> None ->
       traded r k + total (lookup k (resting l')) = total (lookup k (resting l))) /\
      (lookup k (resting l') = None ->
       total (lookup k (resting l)) <= traded r k + hidden (lookup k (resting l))).
Check C02_filled_exact :
  forall mf, I_cons mf -> I_fill mf ->
  forall fuel l g qty taker l' g' r,
    WfQueue (lq l) ->
    match_order mf fuel l g qty taker = Some (l', g', r) ->
    r_filled r = filter (notin (resting l')) (dedup_last (map tx_maker (r_txs r))).
Check C02_lifetime :
  forall mf, I_cons mf ->
  forall p g0 evs l g,
    trace mf (new_level p, g0) evs (l, g) ->
    forall k,
      (traded_total evs k + returned_total evs k + totalZ (lookup k (resting l))
       <= supplied_total evs k)%Z.

Print Assumptions C02_accounting.
Print Assumptions C02_transactions.
Print Assumptions C02_tx_indices.
Print Assumptions C02_tx_ids_never_reused.
Print Assumptions C02_filled_exact.
Print Assumptions C02_filled_sound.
Print Assumptions C02_filled_exact_refuted_without_I_fill.
Print Assumptions C02_match_against_I_fill.
Print Assumptions C02_no_overfill.
Print Assumptions C02_add_transaction_law.
Print Assumptions C02_add_transaction_law_any_result.
Print Assumptions C02_lifetime.
Print Assumptions C02_lifetime_steps.
Print Assumptions C02_trace_is_history.
Print Assumptions C02_lifetime_from.
Print Assumptions C02_accounting_match_against.
Print Assumptions C02_filled_exact_match_against.
Print Assumptions C02_no_overfill_match_against.
Print Assumptions C02_lifetime_match_against.
Print Assumptions C02_example_call.
Print Assumptions C02_example_history.
