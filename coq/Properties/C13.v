(* C13 — Cancel / amend acknowledgements stay truthful under concurrency.
   Only statements live here; proofs are in Proofs/AckProofs.v (general) and
   Proofs/AckWitness.v (concrete runs).  Model: Model/Conc.v.

   Clause 1 ("reports not-found only if the order is not in the book") is FALSE
   of the code in one call pattern (finding K4): the lookup runs while a matcher
   or another amender holds the order between taking it out of the map and
   putting the remainder back.  It is therefore proved as an exact dichotomy
   (C13_notfound_dichotomy, C13_notfound_dichotomy_reachable) together with refutation witnesses
   (the C13_K4 witnesses, C13_notfound_naive_refuted).  Its literal sub-clause "if the order
   was resting before the call began and nothing removes it, the call finds it"
   holds (C13_resting_found).
   Clause 2 ("a cancel that reports success has really taken the order out")
   holds (C13_cancel_takes_out and the C13_cancel lemmas), under the well-formedness condition [FreshAdds] that the
   ids brought by CAdd calls are used nowhere else. *)
From PL Require Import Spec.CovSpec Proofs.ConcLemmas Proofs.CovProofs Proofs.AckProofs
                       Proofs.AckWitness Proofs.OrderProofs.
Local Open Scope N_scope.

(* ---------- clause 1: not-found ---------- *)

(* the answer is linearised at the step that gives it: the map has no entry for k
   at that very step, the step changes nothing and is recorded as a failed remove / get *)
Theorem C13_notfound_lin :
  forall mf c i k,
    answers_notfound mf c i k -> lookup k (sh_map (cf_sh c)) = None.
Proof. exact notfound_lin. Qed.

Theorem C13_notfound_lin_cstep :
  forall mf c i k,
    answers_notfound mf c i k ->
    exists c' e, cstep mf c i = Some (c', e) /\ cf_sh c' = cf_sh c /\
                 (e = ERemove k None \/ e = EGet k None) /\
                 lookup k (sh_map (cf_sh c)) = None.
Proof. exact notfound_lin_cstep. Qed.

(* an id missing from the map is either absent from the book, or held by a thread *)
Theorem C13_absent_but_held :
  forall c k,
    lookup k (sh_map (cf_sh c)) = None ->
    (~ in_book c k /\ forall j, ~ held_by c j k) \/ (exists j, held_by c j k).
Proof. exact absent_but_held. Qed.

(* exact form of clause 1, any configuration *)
Theorem C13_notfound_dichotomy :
  forall mf c i k,
    answers_notfound mf c i k ->
    lookup k (sh_map (cf_sh c)) = None /\
    ((~ in_book c k /\ forall j, ~ held_by c j k) \/ (exists j, j <> i /\ held_by c j k)).
Proof. exact notfound_dichotomy. Qed.

(* exact form of clause 1, reachable configurations: the holder is unique *)
Theorem C13_notfound_dichotomy_reachable :
  forall mf, I_id mf ->
  forall l gen progs sched c tr i k,
    FreshAdds l progs ->
    exec mf sched (init_config l gen progs) = (c, tr) ->
    answers_notfound mf c i k ->
    lookup k (sh_map (cf_sh c)) = None /\
    ((~ in_book c k /\ forall j, ~ held_by c j k) \/
     (exists j, j <> i /\ held_by c j k /\ forall j', held_by c j' k -> j' = j)).
Proof. exact notfound_dichotomy_reachable. Qed.

(* outside the K4 window the answer is truthful *)
Theorem C13_notfound_truthful :
  forall mf c i k,
    answers_notfound mf c i k -> (forall j, ~ held_by c j k) -> ~ in_book c k.
Proof. exact notfound_truthful. Qed.

(* "if the order was resting before the call began and nothing removes it, the call finds it" *)
Theorem C13_resting_found :
  forall mf sched c c' tr i k,
    exec mf sched c = (c', tr) ->
    lookup k (sh_map (cf_sh c)) <> None ->
    (forall j r, ~ In (j, ERemove k r) tr) ->
    lookup k (sh_map (cf_sh c')) <> None /\ ~ answers_notfound mf c' i k.
Proof. exact resting_found. Qed.

(* what "held" means: the holder cannot return from its call without inserting an
   order with that id; nobody else holds it; it is not in the map *)
Theorem C13_holds_until_insert :
  forall mf p s p' s' e k,
    pc_ok p -> holds p k -> tstep mf p s = Some (p', s', e) ->
    holds p' k \/ exists o, e = EInsert o /\ oid_of o = k.
Proof. exact holds_until_insert. Qed.

Theorem C13_held_persist_reachable :
  forall mf, I_id mf ->
  forall l gen progs sched c tr i c' e j k,
    exec mf sched (init_config l gen progs) = (c, tr) ->
    held_by c j k -> cstep mf c i = Some (c', e) ->
    held_by c' j k \/ (i = j /\ exists o, e = EInsert o /\ oid_of o = k).
Proof. exact held_persist_reachable. Qed.

Theorem C13_held_exclusive_reachable :
  forall mf, I_id mf ->
  forall l gen progs sched c tr j k,
    FreshAdds l progs ->
    exec mf sched (init_config l gen progs) = (c, tr) ->
    held_by c j k ->
    lookup k (sh_map (cf_sh c)) = None /\ forall j', held_by c j' k -> j' = j.
Proof. exact held_exclusive_reachable. Qed.

(* ---------- K4: the refutation witnesses (mf := match_against) ---------- *)

(* A(10) rests; thread 0: CMatch 4; thread 1: CUpdate (Cancel A).  After thread 0's
   pop and map remove, thread 1's lookup answers Ok(None) while thread 0 holds A;
   at quiescence A rests with 6 displayed and thread 1 has returned Ok(None). *)
Theorem C13_K4_witness :
  k4_shape k4_progs_cancel [0;0]%nat [0;0;0;0;0;0;0]%nat 0 6.
Proof. exact K4_witness_cancel. Qed.

(* the same with thread 1: CUpdate (UpdateQuantity A 3) *)
Theorem C13_K4_witness_amend :
  k4_shape k4_progs_amend [0;0]%nat [0;0;0;0;0;0;0]%nat 0 6.
Proof. exact K4_witness_amend. Qed.

(* holder = another amender (thread 0: UpdateQuantity A 3; thread 1: Cancel A) *)
Theorem C13_K4_witness_amend_cancel :
  k4_shape k4_progs_amend_cancel [0;0]%nat [0;0;0;0]%nat 0 3.
Proof. exact K4_witness_amend_cancel. Qed.

(* the amend's second lookup (the remove, U2) misses after its first (U1) found A *)
Theorem C13_K4_witness_amend_second_lookup :
  let c0 := init_config k4_level 0 k4_progs_amend in
  let c1 := fst (exec match_against [0;1;0]%nat c0) in
  let c2 := fst (exec match_against [1;0;0;0;0;0;0;0]%nat c1) in
  option_map th_pc (nth_error (cf_threads c1) 1) = Some (U2 (Uuid 1) 3) /\
  answers_notfound match_against c1 1 (Uuid 1) /\ held_by c1 0 (Uuid 1) /\
  quiescent c2 = true /\ lookup (Uuid 1) (sh_map (cf_sh c2)) = Some (k4_A 6) /\
  option_map th_pc (nth_error (cf_threads c2) 1) = Some (Done (RetUpd (UOk None))).
Proof. exact K4_witness_amend_second_lookup. Qed.

Theorem C13_notfound_naive_refuted :
  ~ (forall l gen progs sched i k,
       WfQueue (lq l) -> FreshAdds l progs ->
       let c := fst (exec match_against sched (init_config l gen progs)) in
       answers_notfound match_against c i k -> ~ in_book c k).
Proof. exact notfound_naive_refuted. Qed.

(* ---------- clause 2: a successful cancel has taken the order out ---------- *)

(* ownership uniqueness is invariant: ids in the map, ids in the hands of threads
   and ids still to be added are pairwise distinct *)
Theorem C13_ownership_step :
  forall mf c i c' e, PcOk c -> Own c -> cstep mf c i = Some (c', e) -> Own c'.
Proof. exact Own_step. Qed.

Theorem C13_ownership_reachable :
  forall mf, I_id mf ->
  forall l gen progs sched,
    FreshAdds l progs ->
    let c := fst (exec mf sched (init_config l gen progs)) in PcOk c /\ Own c.
Proof. exact OwnOk_reachable. Qed.

(* the cancel's own steps: the found order is exactly the one removed; afterwards
   the thread only lowers counters and returns Ok(Some o) *)
Theorem C13_cancel_found_step :
  forall mf k s p' s' e,
    tstep mf (C1 k) s = Some (p', s', e) ->
    (lookup k (sh_map s) = None /\ p' = Done (RetUpd (UOk None)) /\ s' = s /\ e = ERemove k None) \/
    (exists o, lookup k (sh_map s) = Some o /\ oid_of o = k /\ p' = C2 o /\
               sh_map s' = remove_key k (sh_map s) /\ sh_tk s' = sh_tk s /\
               lookup k (sh_map s') = None /\ e = ERemove k (Some o)).
Proof. exact cancel_found_step. Qed.

Theorem C13_cancel_tail_step :
  forall mf p o s p' s' e,
    cancel_tail p o -> tstep mf p s = Some (p', s', e) ->
    sh_map s' = sh_map s /\ sh_tk s' = sh_tk s /\
    (cancel_tail p' o \/ p' = Done (RetUpd (UOk (Some o)))) /\
    (exists x n old, e = EFetchSub x n old \/ e = EFetchAdd x n old).
Proof. exact cancel_tail_step. Qed.

(* a free id stays free until a CAdd with that id starts (no freshness assumption) *)
Theorem C13_free_step :
  forall mf c i c' e k,
    PcOk c -> Free c k -> cstep mf c i = Some (c', e) ->
    ~ touches k e /\
    (Free c' k \/
     exists t' o, nth_error (cf_threads c') i = Some t' /\ th_pc t' = A1 o /\ oid_of o = k /\
                  exists t, nth_error (cf_threads c) i = Some t /\ In (CAdd o) (th_todo t)).
Proof. exact Free_step. Qed.

(* After thread i's cancel of k succeeded, in every continuation: no step inserts,
   removes or finds an order with id k; k is in nobody's hands, not in the map, not
   in the book; no thread stands at a transaction naming k as maker. *)
Theorem C13_cancel_takes_out :
  forall mf, I_id mf ->
  forall l gen progs s1 c1 t1 i t k o c2 s2 c3 t2,
    FreshAdds l progs ->
    exec mf s1 (init_config l gen progs) = (c1, t1) ->
    nth_error (cf_threads c1) i = Some t -> th_pc t = C1 k ->
    cstep mf c1 i = Some (c2, ERemove k (Some o)) ->
    exec mf s2 c2 = (c3, t2) ->
    (forall j e, In (j, e) t2 -> ~ touches k e) /\
    Free c3 k /\ ~ in_book c3 k /\
    (forall j tj, nth_error (cf_threads c3) j = Some tj -> maker_at (th_pc tj) <> Some k).
Proof. exact cancel_takes_out. Qed.

Corollary C13_cancel_takes_out_match_against :
  forall l gen progs s1 c1 t1 i t k o c2 s2 c3 t2,
    FreshAdds l progs ->
    exec match_against s1 (init_config l gen progs) = (c1, t1) ->
    nth_error (cf_threads c1) i = Some t -> th_pc t = C1 k ->
    cstep match_against c1 i = Some (c2, ERemove k (Some o)) ->
    exec match_against s2 c2 = (c3, t2) ->
    (forall j e, In (j, e) t2 -> ~ touches k e) /\
    Free c3 k /\ ~ in_book c3 k /\
    (forall j tj, nth_error (cf_threads c3) j = Some tj -> maker_at (th_pc tj) <> Some k).
Proof. exact (cancel_takes_out match_against match_against_I_id). Qed.

Corollary C13_notfound_dichotomy_reachable_match_against :
  forall l gen progs sched c tr i k,
    FreshAdds l progs ->
    exec match_against sched (init_config l gen progs) = (c, tr) ->
    answers_notfound match_against c i k ->
    lookup k (sh_map (cf_sh c)) = None /\
    ((~ in_book c k /\ forall j, ~ held_by c j k) \/
     (exists j, j <> i /\ held_by c j k /\ forall j', held_by c j' k -> j' = j)).
Proof. exact (notfound_dichotomy_reachable match_against match_against_I_id). Qed.

(* ---------- examples ---------- *)

Definition ex13_B : order := Iceberg (mkCommon (Uuid 2) 100 Sell 2 Gtc) 5 7.

(* hypotheses satisfiable with a program that adds: thread 0 adds B and cancels A,
   thread 1 matches; FreshAdds holds *)
Definition ex13_progs : list (list call) :=
  [[CAdd ex13_B; CUpdate (Cancel (Uuid 1))]; [CMatch 4 (Uuid 99)]].

Example C13_ex_fresh : WfQueue (lq k4_level) /\ FreshAdds k4_level ex13_progs.
Proof.
  split; [exact k4_level_wf|]. vm_compute.
  constructor; [intros [H|[]]; discriminate|]. constructor; [intros []|constructor].
Qed.

(* a successful cancel racing a matcher: the cancel wins the order (thread 1's pop
   finds the id gone), returns Ok(Some A); A is never traded nor put back *)
Example C13_ex_cancel_wins :
  let s1 := [0;0;0;0;0;0;1]%nat in           (* add B completely; matcher takes A's ticket *)
  let c1 := fst (exec match_against s1 (init_config k4_level 0 ex13_progs)) in
  let '(c3, t3) := exec match_against [0;1;0;0;0;0;1;1;1;1;1;1;1;1;1]%nat c1 in
  option_map th_pc (nth_error (cf_threads c1) 0) = Some (C1 (Uuid 1)) /\
  option_map th_pc (nth_error (cf_threads c1) 1) =
    Some (M2 (mkMloc (Uuid 99) 4 (result_new (Uuid 99) 4) []) (Uuid 1)) /\
  quiescent c3 = true /\
  option_map th_pc (nth_error (cf_threads c3) 0) = Some (Done (RetUpd (UOk (Some (k4_A 10))))) /\
  lookup (Uuid 1) (sh_map (cf_sh c3)) = None /\
  filter (fun ie => match snd ie with
                    | ERemove (Uuid 1) _ | EInsert (Standard _ _) => true | _ => false end) t3 =
    [(0%nat, ERemove (Uuid 1) (Some (k4_A 10))); (1%nat, ERemove (Uuid 1) None)] /\
  sh_map (cf_sh c3) = [Iceberg (mkCommon (Uuid 2) 100 Sell 2 Gtc) 1 7].
Proof. vm_compute. repeat split; reflexivity. Qed.

Check C13_notfound_lin :
  forall mf c i k, answers_notfound mf c i k -> lookup k (sh_map (cf_sh c)) = None.
Check C13_notfound_dichotomy :
  forall mf c i k,
    answers_notfound mf c i k ->
    lookup k (sh_map (cf_sh c)) = None /\
    ((~ in_book c k /\ forall j, ~ held_by c j k) \/ (exists j, j <> i /\ held_by c j k)).
Check C13_K4_witness : k4_shape k4_progs_cancel [0;0]%nat [0;0;0;0;0;0;0]%nat 0 6.
Check C13_cancel_takes_out :
  forall mf, I_id mf ->
  forall l gen progs s1 c1 t1 i t k o c2 s2 c3 t2,
    FreshAdds l progs ->
    exec mf s1 (init_config l gen progs) = (c1, t1) ->
    nth_error (cf_threads c1) i = Some t -> th_pc t = C1 k ->
    cstep mf c1 i = Some (c2, ERemove k (Some o)) ->
    exec mf s2 c2 = (c3, t2) ->
    (forall j e, In (j, e) t2 -> ~ touches k e) /\
    Free c3 k /\ ~ in_book c3 k /\
    (forall j tj, nth_error (cf_threads c3) j = Some tj -> maker_at (th_pc tj) <> Some k).

Print Assumptions C13_notfound_lin.
Print Assumptions C13_notfound_lin_cstep.
Print Assumptions C13_absent_but_held.
Print Assumptions C13_notfound_dichotomy.
Print Assumptions C13_notfound_dichotomy_reachable.
Print Assumptions C13_notfound_truthful.
Print Assumptions C13_resting_found.
Print Assumptions C13_holds_until_insert.
Print Assumptions C13_held_persist_reachable.
Print Assumptions C13_held_exclusive_reachable.
Print Assumptions C13_K4_witness.
Print Assumptions C13_K4_witness_amend.
Print Assumptions C13_K4_witness_amend_cancel.
Print Assumptions C13_K4_witness_amend_second_lookup.
Print Assumptions C13_notfound_naive_refuted.
Print Assumptions C13_ownership_step.
Print Assumptions C13_ownership_reachable.
Print Assumptions C13_cancel_found_step.
Print Assumptions C13_cancel_tail_step.
Print Assumptions C13_free_step.
Print Assumptions C13_cancel_takes_out.
Print Assumptions C13_cancel_takes_out_match_against.
Print Assumptions C13_notfound_dichotomy_reachable_match_against.
Print Assumptions C13_ex_fresh.
Print Assumptions C13_ex_cancel_wins.
