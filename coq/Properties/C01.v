(* C01 — Level aggregates always equal the sums over the resting orders.
   Only statements live here; proofs are in Proofs/BaseLemmas.v and Proofs/LevelInv.v.

   Inv l := Agg l /\ WfQueue (lq l) /\ Fits l
     Agg  : the three machine counters equal sumv / sumh / length of the resting orders
     Fits : the true sums fit in 64 bits (the domain of the property)

   [I_cons] (Spec/Hist.v) includes "an order leaves only with its display exhausted";
   [I_leave] is that clause on its own. *)
From PL Require Import Model.Level Spec.Hist Proofs.OrderProofs Proofs.BaseLemmas Proofs.LevelInv.
Local Open Scope N_scope.

(* ---------------- (a) one-step preservation ---------------- *)

Theorem C01_new : forall p, Inv (new_level p).
Proof. exact Inv_new_level. Qed.

Theorem C01_add :
  forall l o, Inv l -> lookup (oid_of o) (resting l) = None -> Fits (add_order l o) ->
    Inv (add_order l o).
Proof. exact add_order_Inv. Qed.

(* [qty < W] is not needed; the sums do not grow, so Fits needs no hypothesis *)
Theorem C01_match :
  forall mf, I_cons mf ->
  forall fuel l g qty taker l' g' r,
    Inv l -> match_order mf fuel l g qty taker = Some (l', g', r) ->
    Inv l' /\
    sumv (resting l') + sumh (resting l') <= sumv (resting l) + sumh (resting l) /\
    (length (resting l') <= length (resting l))%nat.
Proof. intros mf H1; pose proof (I_cons_I_leave mf H1) as H2. exact (match_order_Inv_le mf (conj H1 H2)). Qed.

(* the target form *)
Theorem C01_match_target :
  forall mf, I_cons mf ->
  forall fuel l g qty taker l' g' r,
    Inv l -> qty < W -> match_order mf fuel l g qty taker = Some (l', g', r) -> Inv l'.
Proof. intros mf H1 fuel l g qty taker l' g' r HI _. pose proof (I_cons_I_leave mf H1) as H2. exact (match_order_Inv mf (conj H1 H2) fuel l g qty taker l' g' r HI). Qed.

Theorem C01_match_match_against :
  forall fuel l g qty taker l' g' r,
    Inv l -> match_order match_against fuel l g qty taker = Some (l', g', r) -> Inv l'.
Proof. exact (match_order_Inv match_against match_against_I_full). Qed.


(* all five kinds of update; [Fits l'] implies the side condition "new quantity < W" *)
Theorem C01_update :
  forall l u l' uo, Inv l -> update_order l u = (l', uo) -> Fits l' -> Inv l'.
Proof. exact update_order_Inv. Qed.

Theorem C01_update_target :
  forall l g u l' uo,
    Inv l -> ok_op (l, g) (OUpdate u) -> update_order l u = (l', uo) -> Fits l' -> Inv l'.
Proof. intros l g u l' uo HI _. exact (update_order_Inv l u l' uo HI). Qed.

Theorem C01_cancel : forall l k l' uo, Inv l -> take_out l k = (l', uo) -> Inv l'.
Proof. exact take_out_Inv. Qed.

Theorem C01_amend : forall l k nq l' uo, Inv l -> amend l k nq = (l', uo) -> Fits l' -> Inv l'.
Proof. exact amend_Inv. Qed.

(* rebuilds: the carried aggregates a b c are ignored *)
Theorem C01_rebuild_snapshot :
  forall l listing a b c,
    Inv l -> listing_of l listing -> Inv (from_snapshot (mkSnap (price l) a b c listing)).
Proof. exact from_snapshot_Inv. Qed.

Theorem C01_rebuild_snapshot_resting :
  forall l listing a b c,
    Inv l -> listing_of l listing ->
    resting (from_snapshot (mkSnap (price l) a b c listing)) = listing.
Proof.
  intros l listing a b c (_ & Wf & _) [P _].
  exact (from_snapshot_resting _ a b c listing (listing_NoDup l listing Wf P)).
Qed.

Theorem C01_rebuild_data :
  forall l listing, Inv l -> listing_of l listing -> Inv (from_data (price l) listing).
Proof. exact from_data_Inv. Qed.

Theorem C01_rebuild_data_resting :
  forall l listing, Inv l -> listing_of l listing -> resting (from_data (price l) listing) = listing.
Proof. intros l listing HI [P _]. exact (proj2 (from_data_Inv_perm l listing (price l) HI P)). Qed.

Theorem C01_step :
  forall mf, I_cons mf ->
  forall s o s1 x, Inv (fst s) -> ok_op s o -> step mf s o s1 x -> Fits (fst s1) -> Inv (fst s1).
Proof. intros mf H1; pose proof (I_cons_I_leave mf H1) as H2. exact (step_Inv mf (conj H1 H2)). Qed.

(* ---------------- (b) every reachable state ---------------- *)

Theorem C01_reachable :
  forall mf, I_cons mf ->
  forall s, reachable mf s -> Agg (fst s) /\ WfQueue (lq (fst s)).
Proof. intros mf H1; pose proof (I_cons_I_leave mf H1) as H2. exact (reachable_Agg_Wf mf (conj H1 H2)). Qed.

Theorem C01_reachable_match_against :
  forall s, reachable match_against s -> Agg (fst s) /\ WfQueue (lq (fst s)).
Proof. exact (reachable_Agg_Wf match_against match_against_I_full). Qed.


Theorem C01_steps :
  forall mf, I_cons mf ->
  forall s ops s' outs, steps mf s ops s' outs -> Inv (fst s) -> Inv (fst s').
Proof. intros mf H1; pose proof (I_cons_I_leave mf H1) as H2. exact (steps_Inv mf (conj H1 H2)). Qed.

(* the price of the level never changes (any mf) *)
Theorem C01_price :
  forall mf s ops s' outs, steps mf s ops s' outs -> price (fst s') = price (fst s).
Proof. exact steps_price. Qed.

(* ---------------- (c) total quantity ---------------- *)

Theorem C01_total :
  forall mf, I_cons mf ->
  forall s, reachable mf s ->
    total_quantity (fst s) = sumv (resting (fst s)) + sumh (resting (fst s)) /\
    total_quantity (fst s) < W.
Proof. intros mf H1; pose proof (I_cons_I_leave mf H1) as H2. exact (reachable_total mf (conj H1 H2)). Qed.

Theorem C01_total_match_against :
  forall s, reachable match_against s ->
    total_quantity (fst s) = sumv (resting (fst s)) + sumh (resting (fst s)) /\
    total_quantity (fst s) < W.
Proof. exact (reachable_total match_against match_against_I_full). Qed.

(* ---------------- (d) never wraps ---------------- *)

Theorem C01_no_wrap_Inv :
  forall l, Agg l -> Fits l -> cvis l < W /\ chid l < W /\ ccnt l < W.
Proof. exact Inv_no_wrap. Qed.

Theorem C01_no_wrap :
  forall mf, I_cons mf ->
  forall s, reachable mf s -> cvis (fst s) < W /\ chid (fst s) < W /\ ccnt (fst s) < W.
Proof. intros mf H1; pose proof (I_cons_I_leave mf H1) as H2. exact (reachable_no_wrap mf (conj H1 H2)). Qed.

Theorem C01_no_wrap_match_against :
  forall s, reachable match_against s -> cvis (fst s) < W /\ chid (fst s) < W /\ ccnt (fst s) < W.
Proof. exact (reachable_no_wrap match_against match_against_I_full). Qed.

Theorem C01_match_against_interface : I_cons match_against /\ I_leave match_against.
Proof. exact match_against_I_full. Qed.

(* ---------------- exported structural lemmas (Proofs/BaseLemmas.v) ---------------- *)
Check WfQueue_push : forall q o, WfQueue q -> WfQueue (push q o).
Check NoDup_push : forall q o, NoDup (ids (qmap q)) -> NoDup (ids (qmap (push q o))).
Check Covered_push : forall q o, Covered q -> Covered (push q o).
Check NoDup_pop : forall q o q', NoDup (ids (qmap q)) -> pop q = (Some o, q') -> NoDup (ids (qmap q')).
Check Covered_pop : forall q o q', Covered q -> pop q = (Some o, q') -> Covered q'.
Check pop_None : forall q q', Covered q -> pop q = (None, q') -> qmap q = [] /\ q' = mkQueue [] [].
Check NoDup_qremove : forall q k r q', NoDup (ids (qmap q)) -> qremove q k = (r, q') -> NoDup (ids (qmap q')).
Check Covered_qremove : forall q k r q', Covered q -> qremove q k = (r, q') -> Covered q'.
Check sumv_upsert_fresh : forall o m, lookup (oid_of o) m = None -> sumv (upsert o m) = sumv m + vis o.
Check sumv_upsert_replace : forall o old m,
  NoDup (ids m) -> lookup (oid_of o) m = Some old -> sumv (upsert o m) + vis old = sumv m + vis o.
Check sumv_remove_key : forall k m o,
  NoDup (ids m) -> lookup k m = Some o -> sumv m = vis o + sumv (remove_key k m).
Check sumv_pop : forall q o q',
  NoDup (ids (qmap q)) -> pop q = (Some o, q') -> sumv (qmap q) = vis o + sumv (qmap q').
Check sumh_pop : forall q o q',
  NoDup (ids (qmap q)) -> pop q = (Some o, q') -> sumh (qmap q) = hid o + sumh (qmap q').

(* ---------------- non-vacuity ---------------- *)

Definition ex_o1 : order := Iceberg (mkCommon (Uuid 1) 100 Sell 1 Gtc) 10 25.
Definition ex_o2 : order := Standard (mkCommon (Uuid 2) 100 Sell 2 Gtc) 7.
Definition ex_o3 : order := Reserve (mkCommon (Ulid 3) 100 Sell 3 Day) 5 40 2 (Some 8) true.
Definition ex_o4 : order := PostOnly (mkCommon (Uuid 4) 100 Sell 4 Gtc) 6.
Definition ex_listing : list order :=
  [Iceberg (mkCommon (Uuid 1) 100 Sell 1 Gtc) 10 15; Standard (mkCommon (Uuid 2) 100 Sell 2 Gtc) 9].

Definition ex_ops : list op :=
  [OAdd ex_o1; OAdd ex_o2; OAdd ex_o3; OMatch 15 (Uuid 50);
   OUpdate (UpdateQuantity (Uuid 2) 9); OUpdate (Cancel (Ulid 3));
   OUpdate (UpdatePrice (Uuid 1) 100); ORead;
   ORebuildSnap ex_listing; OAdd ex_o4; OMatch 12 (Uuid 51); ORebuildData
     [Iceberg (mkCommon (Uuid 1) 100 Sell 1 Gtc) 10 5; Standard (mkCommon (Uuid 2) 100 Sell 2 Gtc) 7;
      ex_o4]].

Ltac ex_ok := cbn [ok_op fst]; vm_compute; repeat split.
Ltac ex_fits := split; vm_compute; reflexivity.
Ltac ex_add := eapply steps_cons; [ ex_ok | apply SAdd | ex_fits | ].
Ltac ex_match := eapply steps_cons;
  [ ex_ok | eapply (SMatch _ _ _ _ _ 10%nat); cbv; reflexivity | ex_fits | ].
Ltac ex_update := eapply steps_cons; [ ex_ok | eapply SUpdate; cbv; reflexivity | ex_fits | ].
Ltac ex_read := eapply steps_cons; [ ex_ok | apply SRead | ex_fits | ].
Ltac ex_listing_of :=
  split; [ cbv; apply Permutation_refl | apply ts_sorted_b_sound; vm_compute; reflexivity ].
Ltac ex_rebuild_snap := eapply steps_cons; [ ex_ok | eapply SRebuildSnap; ex_listing_of | ex_fits | ].
Ltac ex_rebuild_data := eapply steps_cons; [ ex_ok | eapply SRebuildData; ex_listing_of | ex_fits | ].

(* a history with all kinds of operations, three order types, a replenishing iceberg,
   an amend, a cancel, a rejected price move and both rebuilds *)
Example C01_history_example :
  exists s outs,
    steps match_against (new_level 100, 0) ex_ops s outs /\
    cvis (fst s) = 23 /\ chid (fst s) = 5 /\ ccnt (fst s) = 3 /\
    ids (resting (fst s)) = [Uuid 1; Uuid 2; Uuid 4].
Proof.
  eexists (_, _). eexists. split.
  - unfold ex_ops.
    ex_add. ex_add. ex_add. ex_match. ex_update. ex_update. ex_update. ex_read.
    ex_rebuild_snap. ex_add. ex_match.
    (* the map now iterates as [o4; o1; o2]; the listing is its sort by timestamp *)
    eapply steps_cons;
      [ ex_ok
      | eapply SRebuildData; split;
        [ cbv; apply Permutation_sym;
          apply (Permutation_cons_append
                   [Iceberg (mkCommon (Uuid 1) 100 Sell 1 Gtc) 10 5;
                    Standard (mkCommon (Uuid 2) 100 Sell 2 Gtc) 7] ex_o4)
        | apply ts_sorted_b_sound; vm_compute; reflexivity ]
      | ex_fits | ].
    apply steps_nil.
  - vm_compute. repeat split.
Qed.

(* a state satisfying the hypotheses of the one-step theorems *)
Example C01_Inv_example :
  let l := add_order (add_order (new_level 100) ex_o1) ex_o3 in
  Inv l /\ lookup (oid_of ex_o2) (resting l) = None /\ Fits (add_order l ex_o2) /\
  cvis l = 15 /\ chid l = 65 /\ ccnt l = 2.
Proof.
  cbv zeta. split; [|vm_compute; repeat split].
  apply add_order_Inv; [apply add_order_Inv; [apply Inv_new_level| |]| |];
    vm_compute; repeat split.
Qed.

Check C01_add : forall l o, Inv l -> lookup (oid_of o) (resting l) = None -> Fits (add_order l o) ->
    Inv (add_order l o).
Check C01_match_target : forall mf, I_cons mf ->
  forall fuel l g qty taker l' g' r,
    Inv l -> qty < W -> match_order mf fuel l g qty taker = Some (l', g', r) -> Inv l'.
Check C01_update : forall l u l' uo, Inv l -> update_order l u = (l', uo) -> Fits l' -> Inv l'.
Check C01_rebuild_snapshot : forall l listing a b c,
    Inv l -> listing_of l listing -> Inv (from_snapshot (mkSnap (price l) a b c listing)).
Check C01_rebuild_data : forall l listing, Inv l -> listing_of l listing -> Inv (from_data (price l) listing).
Check C01_reachable : forall mf, I_cons mf ->
  forall s, reachable mf s -> Agg (fst s) /\ WfQueue (lq (fst s)).
Check C01_reachable_match_against :
  forall s, reachable match_against s -> Agg (fst s) /\ WfQueue (lq (fst s)).
Check C01_total : forall mf, I_cons mf ->
  forall s, reachable mf s ->
    total_quantity (fst s) = sumv (resting (fst s)) + sumh (resting (fst s)) /\
    total_quantity (fst s) < W.
Check C01_no_wrap : forall mf, I_cons mf ->
  forall s, reachable mf s -> cvis (fst s) < W /\ chid (fst s) < W /\ ccnt (fst s) < W.

Print Assumptions C01_new.
Print Assumptions C01_add.
Print Assumptions C01_match.
Print Assumptions C01_match_target.
Print Assumptions C01_match_match_against.
Print Assumptions C01_update.
Print Assumptions C01_update_target.
Print Assumptions C01_cancel.
Print Assumptions C01_amend.
Print Assumptions C01_rebuild_snapshot.
Print Assumptions C01_rebuild_snapshot_resting.
Print Assumptions C01_rebuild_data.
Print Assumptions C01_rebuild_data_resting.
Print Assumptions C01_step.
Print Assumptions C01_reachable.
Print Assumptions C01_reachable_match_against.
Print Assumptions C01_steps.
Print Assumptions C01_price.
Print Assumptions C01_total.
Print Assumptions C01_total_match_against.
Print Assumptions C01_no_wrap_Inv.
Print Assumptions C01_no_wrap.
Print Assumptions C01_no_wrap_match_against.
Print Assumptions C01_match_against_interface.
Print Assumptions C01_history_example.
Print Assumptions C01_Inv_example.
