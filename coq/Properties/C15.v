(* C15 (sequential half) — Level statistics agree with the events that actually happened.
   Only statements live here; the counting functions are in Spec/StatsSpec.v and the
   proofs in Proofs/StatsProofs.v.

   Histories start from [new_level p].  The first block of theorems is for histories that
   contain no rebuild; the block "across rebuilds" below covers every history, rebuilds of the
   level from its own snapshot or serialized form included (a rebuild creates a new level
   object with fresh statistics, so the counters describe the events since the last rebuild).  [h := combine ops outs] is the list of
   (operation, outcome) events.  The statistics are wrapping 64-bit counters which the
   level never reads back, so the general statement is a congruence modulo W = 2^64; the
   exact statements follow when the true sums fit in 64 bits.  Only the identity part of
   the per-order interface ([I_id], implied by [I_cons]) is needed. *)
From PL Require Import Model.Level Spec.Hist Spec.StatsSpec
  Proofs.OrderProofs Proofs.BaseLemmas Proofs.LevelInv Proofs.StatsProofs Proofs.StatsRebuildProofs.
From PL Require Proofs.RebuildProofs.
Local Open Scope N_scope.

Theorem C15_I_cons_I_id : forall mf, I_cons mf -> I_id mf.
Proof. exact I_cons_I_id. Qed.

(* general form: no side condition at all *)
Theorem C15_stats_mod :
  forall mf, I_id mf ->
  forall p g0 ops l g outs,
    steps mf (new_level p, g0) ops (l, g) outs -> no_rebuild ops = true ->
    let h := combine ops outs in
    price l = p /\
    s_added (st l) = n_added h mod W /\
    s_removed (st l) = n_removed p h mod W /\
    s_qty (st l) = qty_executed h mod W /\
    (forall pm, s_value (st l) = value_executed pm h mod W) /\
    Forall (ev_tx_price p) h.
Proof. exact stats_mod. Qed.

(* number of orders added *)
Theorem C15_added :
  forall mf, I_id mf ->
  forall p g0 ops l g outs,
    steps mf (new_level p, g0) ops (l, g) outs -> no_rebuild ops = true ->
    n_added (combine ops outs) < W -> s_added (st l) = n_added (combine ops outs).
Proof. exact stats_added_exact. Qed.

(* number of orders removed by a cancel or a price move *)
Theorem C15_removed :
  forall mf, I_id mf ->
  forall p g0 ops l g outs,
    steps mf (new_level p, g0) ops (l, g) outs -> no_rebuild ops = true ->
    n_removed p (combine ops outs) < W -> s_removed (st l) = n_removed p (combine ops outs).
Proof. exact stats_removed_exact. Qed.

(* total quantity executed = the sum of all transaction quantities *)
Theorem C15_qty :
  forall mf, I_id mf ->
  forall p g0 ops l g outs,
    steps mf (new_level p, g0) ops (l, g) outs -> no_rebuild ops = true ->
    qty_executed (combine ops outs) < W -> s_qty (st l) = qty_executed (combine ops outs).
Proof. exact stats_qty_exact. Qed.

(* total value executed, in general: each transaction quantity times the price carried by
   its maker order (= the most recently added order with the maker id), for any initial
   price map [pm] *)
Theorem C15_value_general :
  forall mf, I_id mf ->
  forall p g0 ops l g outs,
    steps mf (new_level p, g0) ops (l, g) outs -> no_rebuild ops = true ->
    forall pm, value_executed pm (combine ops outs) < W ->
      s_value (st l) = value_executed pm (combine ops outs).
Proof. exact stats_value_exact. Qed.

(* total value executed = executed quantity times the level price, when every order
   handed to add_order carries the level price *)
Theorem C15_value_price :
  forall mf, I_id mf ->
  forall p g0 ops l g outs,
    steps mf (new_level p, g0) ops (l, g) outs -> no_rebuild ops = true ->
    all_added_at p ops -> qty_executed (combine ops outs) * p < W ->
    s_value (st l) = qty_executed (combine ops outs) * p.
Proof. exact stats_value_price_exact. Qed.

(* all four together, under I_cons *)
Theorem C15_sequential :
  forall mf, I_cons mf ->
  forall p g0 ops l g outs,
    steps mf (new_level p, g0) ops (l, g) outs -> no_rebuild ops = true ->
    all_added_at p ops ->
    let h := combine ops outs in
    n_added h < W -> n_removed p h < W -> qty_executed h < W -> qty_executed h * p < W ->
    s_added (st l) = n_added h /\ s_removed (st l) = n_removed p h /\
    s_qty (st l) = qty_executed h /\ s_value (st l) = qty_executed h * p.
Proof. intros mf H p g0 ops l g outs. exact (stats_exact_all mf p g0 ops l g outs (I_cons_I_id mf H)). Qed.

Theorem C15_sequential_match_against :
  forall p g0 ops l g outs,
    steps match_against (new_level p, g0) ops (l, g) outs -> no_rebuild ops = true ->
    all_added_at p ops ->
    let h := combine ops outs in
    n_added h < W -> n_removed p h < W -> qty_executed h < W -> qty_executed h * p < W ->
    s_added (st l) = n_added h /\ s_removed (st l) = n_removed p h /\
    s_qty (st l) = qty_executed h /\ s_value (st l) = qty_executed h * p.
Proof. intros p g0 ops l g outs. exact (stats_exact_all match_against p g0 ops l g outs match_against_I_id). Qed.

(* every reported transaction carries the level price *)
Theorem C15_tx_price :
  forall mf, I_id mf ->
  forall p g0 ops l g outs,
    steps mf (new_level p, g0) ops (l, g) outs -> no_rebuild ops = true ->
    Forall (ev_tx_price p) (combine ops outs).
Proof. intros mf H p g0 ops l g outs Hs Hn. exact (proj2 (proj2 (proj2 (proj2 (proj2 (stats_mod mf H p g0 ops l g outs Hs Hn)))))). Qed.

(* the spec's transaction-quantity sum is the model's executed_quantity *)
Theorem C15_executed_quantity : forall r, executed_quantity r = sum_txq (r_txs r).
Proof. exact executed_quantity_sum. Qed.

(* value = price * quantity on the spec side *)
Theorem C15_value_executed_const :
  forall p h pm,
    (forall k, pm k = p) -> (forall o (x : out), In (OAdd o, x) h -> price_of o = p) ->
    value_executed pm h = p * qty_executed h.
Proof. exact value_executed_const. Qed.

(* ---------------- across rebuilds ----------------
   Histories WITH rebuilds ([ORebuildSnap listing]: from_snapshot / From<&Snapshot> / package;
   [ORebuildData listing]: serde data form and Display/FromStr, i.e. new + add_order per listed
   order).  [since_rebuild h] is the suffix of the history after its last rebuild event (all of
   [h] when there is none), [before_rebuild h] the rest, and [rebuild_base h] what the last
   rebuild itself recorded as "orders added": the number of listed orders for [ORebuildData],
   0 for [ORebuildSnap] or no rebuild (Spec/StatsSpec.v). *)

(* the cut is the obvious one *)
Theorem C15_rebuild_cut :
  forall h,
    before_rebuild h ++ since_rebuild h = h /\ has_rebuild (since_rebuild h) = false /\
    ((has_rebuild h = false /\ before_rebuild h = [] /\ rebuild_base h = 0) \/
     (exists pre e, has_rebuild h = true /\ before_rebuild h = pre ++ [e] /\ ev_rebuild e = true /\
                    rebuild_base h = op_readded (fst e))).
Proof. intros h. exact (conj (cut_rebuild_app h) (conj (since_rebuild_clean h) (before_rebuild_last h))). Qed.

(* general form: no side condition at all; congruences modulo W = 2^64 *)
Theorem C15_across_rebuilds_mod :
  forall mf, I_id mf ->
  forall p g0 ops l g outs,
    steps mf (new_level p, g0) ops (l, g) outs ->
    let h := combine ops outs in
    let hs := since_rebuild h in
    price l = p /\
    s_added (st l) = (rebuild_base h + n_added hs) mod W /\
    s_removed (st l) = n_removed p hs mod W /\
    s_qty (st l) = qty_executed hs mod W /\
    (forall pm, s_value (st l) = value_executed (pm_after pm (before_rebuild h)) hs mod W) /\
    (all_added_at p ops -> s_value (st l) = (qty_executed hs * p) mod W) /\
    Forall (ev_tx_price p) h.
Proof. exact stats_rebuild_mod. Qed.

(* all four exactly, when the true sums fit in 64 bits (the hypotheses of C15_sequential, with
   the re-added orders counted) *)
Theorem C15_across_rebuilds :
  forall mf, I_cons mf ->
  forall p g0 ops l g outs,
    steps mf (new_level p, g0) ops (l, g) outs ->
    all_added_at p ops ->
    let h := combine ops outs in
    let hs := since_rebuild h in
    rebuild_base h + n_added hs < W -> n_removed p hs < W -> qty_executed hs < W ->
    qty_executed hs * p < W ->
    s_added (st l) = rebuild_base h + n_added hs /\ s_removed (st l) = n_removed p hs /\
    s_qty (st l) = qty_executed hs /\ s_value (st l) = qty_executed hs * p.
Proof. intros mf H p g0 ops l g outs. exact (stats_rebuild_exact mf p g0 ops l g outs (I_cons_I_id mf H)). Qed.

Theorem C15_across_rebuilds_match_against :
  forall p g0 ops l g outs,
    steps match_against (new_level p, g0) ops (l, g) outs ->
    all_added_at p ops ->
    let h := combine ops outs in
    let hs := since_rebuild h in
    rebuild_base h + n_added hs < W -> n_removed p hs < W -> qty_executed hs < W ->
    qty_executed hs * p < W ->
    s_added (st l) = rebuild_base h + n_added hs /\ s_removed (st l) = n_removed p hs /\
    s_qty (st l) = qty_executed hs /\ s_value (st l) = qty_executed hs * p.
Proof. intros p g0 ops l g outs. exact (stats_rebuild_exact match_against p g0 ops l g outs match_against_I_id). Qed.

(* on a history without a rebuild the statement across rebuilds is C15_sequential's *)
Theorem C15_across_rebuilds_no_rebuild :
  forall ops outs, no_rebuild ops = true ->
    since_rebuild (combine ops outs) = combine ops outs /\ rebuild_base (combine ops outs) = 0 /\
    before_rebuild (combine ops outs) = [].
Proof. exact stats_rebuild_no_rebuild. Qed.

(* ---------------- non-vacuity ---------------- *)

Definition ex_o1 : order := Iceberg (mkCommon (Uuid 1) 100 Sell 1 Gtc) 10 25.
Definition ex_o2 : order := Standard (mkCommon (Uuid 2) 100 Sell 2 Gtc) 7.
Definition ex_o3 : order := Reserve (mkCommon (Ulid 3) 100 Sell 3 Day) 5 40 2 (Some 8) true.

Definition ex_ops : list op :=
  [OAdd ex_o1; OAdd ex_o2; OAdd ex_o3; OMatch 15 (Uuid 50);
   OUpdate (UpdateQuantity (Uuid 2) 9);            (* amend: not a removal *)
   OUpdate (Cancel (Ulid 3));                      (* removal *)
   OUpdate (UpdatePrice (Uuid 1) 100);             (* same price: rejected *)
   OUpdate (Replace (Uuid 1) 101 3 Sell);          (* price move: removal *)
   OUpdate (Cancel (Uuid 77));                     (* unknown id: nothing removed *)
   ORead].

Ltac ex_ok := cbn [ok_op fst]; vm_compute; repeat split.
Ltac ex_fits := split; vm_compute; reflexivity.
Ltac ex_add := eapply steps_cons; [ ex_ok | apply SAdd | ex_fits | ].
Ltac ex_match := eapply steps_cons;
  [ ex_ok | eapply (SMatch _ _ _ _ _ 10%nat); cbv; reflexivity | ex_fits | ].
Ltac ex_update := eapply steps_cons; [ ex_ok | eapply SUpdate; cbv; reflexivity | ex_fits | ].
Ltac ex_read := eapply steps_cons; [ ex_ok | apply SRead | ex_fits | ].

Example C15_history_example :
  exists l g outs,
    steps match_against (new_level 100, 0) ex_ops (l, g) outs /\
    no_rebuild ex_ops = true /\ all_added_at 100 ex_ops /\
    let h := combine ex_ops outs in
    n_added h = 3 /\ n_removed 100 h = 2 /\ qty_executed h = 15 /\ n_tx h = 2 /\
    value_executed (fun _ => 0) h = 1500 /\
    st l = mkStats 3 2 2 15 1500.
Proof.
  eexists. eexists. eexists. split; [|split; [reflexivity|split]].
  - unfold ex_ops.
    ex_add. ex_add. ex_add. ex_match. ex_update. ex_update. ex_update. ex_update. ex_update.
    ex_read. apply steps_nil.
  - intros o Hin. cbn in Hin.
    repeat (destruct Hin as [Hin|Hin]; [try discriminate; inversion Hin; reflexivity|]).
    contradiction.
  - vm_compute. repeat split.
Qed.

(* The hypothesis [all_added_at] matters: the level accepts an order carrying another
   price, the transaction is reported at the level price but valued at the order's price. *)
Definition ex_off : order := Standard (mkCommon (Uuid 8) 105 Sell 1 Gtc) 4.

Example C15_value_off_price_example :
  exists l g outs,
    steps match_against (new_level 100, 0) [OAdd ex_off; OMatch 4 (Uuid 50)] (l, g) outs /\
    let h := combine [OAdd ex_off; OMatch 4 (Uuid 50)] outs in
    qty_executed h = 4 /\ value_executed (fun _ => 0) h = 420 /\
    s_qty (st l) = 4 /\ s_value (st l) = 420 /\ s_value (st l) <> qty_executed h * 100 /\
    Forall (ev_tx_price 100) h.
Proof.
  eexists. eexists. eexists. split.
  - ex_add. ex_match. apply steps_nil.
  - vm_compute. repeat split; try discriminate.
    repeat constructor.
Qed.

(* A history with both kinds of rebuild: add, add, match, rebuild from the snapshot (counters
   restart at 0/0/0/0), add, read, rebuild from the data form (three listed orders re-added:
   3/0/0/0), then a cancel and a match.  The listings are the level's own. *)
Definition ex_o1' : order := Iceberg (mkCommon (Uuid 1) 100 Sell 1 Gtc) 6 25.

Definition ex_rb_ops : list op :=
  [OAdd ex_o1; OAdd ex_o2; OMatch 4 (Uuid 50);
   ORebuildSnap [ex_o1'; ex_o2];
   OAdd ex_o3; ORead;
   ORebuildData [ex_o1'; ex_o2; ex_o3];
   OUpdate (Cancel (Uuid 2)); OMatch 9 (Uuid 51)].

Ltac ex_listing :=
  match goal with
  | |- listing_of ?l ?L =>
      let H := fresh in
      assert (H : to_vec (lq l) = L) by (vm_compute; reflexivity);
      rewrite <- H; apply RebuildProofs.to_vec_listing
  end.
Ltac ex_rebuild_snap := eapply steps_cons; [ exact I | apply SRebuildSnap; ex_listing | ex_fits | ].
Ltac ex_rebuild_data := eapply steps_cons; [ exact I | apply SRebuildData; ex_listing | ex_fits | ].

Example C15_rebuild_history_example :
  exists l g outs,
    steps match_against (new_level 100, 0) ex_rb_ops (l, g) outs /\
    no_rebuild ex_rb_ops = false /\ all_added_at 100 ex_rb_ops /\
    let h := combine ex_rb_ops outs in
    length (since_rebuild h) = 2%nat /\ length (before_rebuild h) = 7%nat /\ rebuild_base h = 3 /\
    n_added (since_rebuild h) = 0 /\ n_removed 100 (since_rebuild h) = 1 /\
    qty_executed (since_rebuild h) = 9 /\
    n_added h = 3 /\ qty_executed h = 13 /\       (* the whole history: NOT what is reported *)
    s_added (st l) = 3 /\ s_removed (st l) = 1 /\ s_qty (st l) = 9 /\ s_value (st l) = 900.
Proof.
  eexists. eexists. eexists. split; [|split; [reflexivity|split]].
  - unfold ex_rb_ops.
    ex_add. ex_add. ex_match. ex_rebuild_snap. ex_add. ex_read. ex_rebuild_data. ex_update. ex_match.
    apply steps_nil.
  - intros o Hin. cbn in Hin.
    repeat (destruct Hin as [Hin|Hin]; [try discriminate; inversion Hin; reflexivity|]).
    contradiction.
  - vm_compute. repeat split.
Qed.

(* the same history stopped after the read: the last rebuild is the one from the snapshot *)
Example C15_rebuild_snap_example :
  exists l g outs,
    steps match_against (new_level 100, 0) (firstn 6 ex_rb_ops) (l, g) outs /\
    let h := combine (firstn 6 ex_rb_ops) outs in
    length (since_rebuild h) = 2%nat /\ rebuild_base h = 0 /\ n_added (since_rebuild h) = 1 /\
    qty_executed h = 4 /\ st l = mkStats 1 0 0 0 0.
Proof.
  eexists. eexists. eexists. split.
  - cbn [firstn ex_rb_ops].
    ex_add. ex_add. ex_match. ex_rebuild_snap. ex_add. ex_read. apply steps_nil.
  - vm_compute. repeat split.
Qed.

Check C15_added : forall mf, I_id mf ->
  forall p g0 ops l g outs,
    steps mf (new_level p, g0) ops (l, g) outs -> no_rebuild ops = true ->
    n_added (combine ops outs) < W -> s_added (st l) = n_added (combine ops outs).
Check C15_removed : forall mf, I_id mf ->
  forall p g0 ops l g outs,
    steps mf (new_level p, g0) ops (l, g) outs -> no_rebuild ops = true ->
    n_removed p (combine ops outs) < W -> s_removed (st l) = n_removed p (combine ops outs).
Check C15_qty : forall mf, I_id mf ->
  forall p g0 ops l g outs,
    steps mf (new_level p, g0) ops (l, g) outs -> no_rebuild ops = true ->
    qty_executed (combine ops outs) < W -> s_qty (st l) = qty_executed (combine ops outs).
Check C15_value_price : forall mf, I_id mf ->
  forall p g0 ops l g outs,
    steps mf (new_level p, g0) ops (l, g) outs -> no_rebuild ops = true ->
    all_added_at p ops -> qty_executed (combine ops outs) * p < W ->
    s_value (st l) = qty_executed (combine ops outs) * p.
Check C15_value_general : forall mf, I_id mf ->
  forall p g0 ops l g outs,
    steps mf (new_level p, g0) ops (l, g) outs -> no_rebuild ops = true ->
    forall pm, value_executed pm (combine ops outs) < W ->
      s_value (st l) = value_executed pm (combine ops outs).

Check C15_across_rebuilds_mod : forall mf, I_id mf ->
  forall p g0 ops l g outs,
    steps mf (new_level p, g0) ops (l, g) outs ->
    let h := combine ops outs in
    let hs := since_rebuild h in
    price l = p /\
    s_added (st l) = (rebuild_base h + n_added hs) mod W /\
    s_removed (st l) = n_removed p hs mod W /\
    s_qty (st l) = qty_executed hs mod W /\
    (forall pm, s_value (st l) = value_executed (pm_after pm (before_rebuild h)) hs mod W) /\
    (all_added_at p ops -> s_value (st l) = (qty_executed hs * p) mod W) /\
    Forall (ev_tx_price p) h.
Check C15_across_rebuilds : forall mf, I_cons mf ->
  forall p g0 ops l g outs,
    steps mf (new_level p, g0) ops (l, g) outs ->
    all_added_at p ops ->
    let h := combine ops outs in
    let hs := since_rebuild h in
    rebuild_base h + n_added hs < W -> n_removed p hs < W -> qty_executed hs < W ->
    qty_executed hs * p < W ->
    s_added (st l) = rebuild_base h + n_added hs /\ s_removed (st l) = n_removed p hs /\
    s_qty (st l) = qty_executed hs /\ s_value (st l) = qty_executed hs * p.

Print Assumptions C15_I_cons_I_id.
Print Assumptions C15_stats_mod.
Print Assumptions C15_added.
Print Assumptions C15_removed.
Print Assumptions C15_qty.
Print Assumptions C15_value_general.
Print Assumptions C15_value_price.
Print Assumptions C15_sequential.
Print Assumptions C15_sequential_match_against.
Print Assumptions C15_tx_price.
Print Assumptions C15_executed_quantity.
Print Assumptions C15_value_executed_const.
Print Assumptions C15_history_example.
Print Assumptions C15_value_off_price_example.
Print Assumptions C15_rebuild_cut.
Print Assumptions C15_across_rebuilds_mod.
Print Assumptions C15_across_rebuilds.
Print Assumptions C15_across_rebuilds_match_against.
Print Assumptions C15_across_rebuilds_no_rebuild.
Print Assumptions C15_rebuild_history_example.
Print Assumptions C15_rebuild_snap_example.
