(* C10 — Snapshot and serialization round-trips preserve content; aggregates are derived.
   Only statements live here; proofs are in Proofs/RebuildBase.v and Proofs/RebuildProofs.v.

   Model reading.  [to_vec (lq l)] is the level's order listing; [snapshot_of l] the
   snapshot (price, the three counters as read, the listing); [from_snapshot] is
   PriceLevel::from_snapshot / From<&PriceLevelSnapshot> / the snapshot package (which
   refreshes the aggregates before hashing); [from_data p os] is TryFrom<PriceLevelData>,
   serde Deserialize and FromStr (new level, then add_order per listed order).
   The rebuild theorems quantify over ANY listing of the level ([listing_of]: a
   timestamp-sorted permutation of the resting orders), which covers every DashMap
   iteration order, and over ANY carried aggregate figures [a b c].

   Domain.  The theorems assume [Inv l] (the aggregates describe the resting orders, ids
   are unique and ticketed, the sums fit in 64 bits): the invariant of the states
   reachable by the histories of C01.  It is not re-derived from [reachable] here. *)
From PL Require Import Model.Level Spec.Hist Proofs.RebuildBase Proofs.RebuildProofs.
From Coq Require Import Sorted Permutation.
Local Open Scope N_scope.

(* ---- vocabulary (definitions are in Proofs/RebuildProofs.v; shown here by unfolding) ---- *)

Theorem C10_Inv_def : forall l, Inv l <-> Agg l /\ WfQueue (lq l) /\ Fits l.
Proof. reflexivity. Qed.

Theorem C10_ts_le_def : forall a b, ts_le a b <-> ts_of a <= ts_of b.
Proof. reflexivity. Qed.

(* ---- 1. the listing ---- *)

(* The listing is a permutation of the resting orders in non-decreasing timestamp
   order; when ids are unique each resting order appears exactly once. *)
Theorem C10_listing_spec :
  forall q,
    Permutation (to_vec q) (qmap q) /\
    Sorted ts_le (to_vec q) /\ StronglySorted ts_le (to_vec q) /\ ts_sorted (to_vec q) /\
    (NoDup (ids (qmap q)) ->
       NoDup (ids (to_vec q)) /\ NoDup (to_vec q) /\
       (forall o, In o (to_vec q) <-> In o (qmap q)) /\
       forall o, In o (qmap q) -> exists! i, nth_error (to_vec q) i = Some o).
Proof. exact listing_spec. Qed.

Theorem C10_Sorted_ts_sorted : forall l, Sorted ts_le l -> ts_sorted l.
Proof. exact Sorted_ts_sorted. Qed.

Theorem C10_listing_of : forall l, listing_of l (to_vec (lq l)).
Proof. exact to_vec_listing. Qed.

(* ---- 2. rebuilding from a listing of the level preserves the content ---- *)

Theorem C10_rebuild_content_snapshot :
  forall l listing a b c,
    Inv l -> listing_of l listing ->
    let l' := from_snapshot (mkSnap (price l) a b c listing) in
    (price l' = price l /\
     (forall k, lookup k (resting l') = lookup k (resting l)) /\
     Permutation (resting l') (resting l) /\
     Agg l' /\ cvis l' = cvis l /\ chid l' = chid l /\ ccnt l' = ccnt l /\
     WfQueue (lq l') /\ Fits l') /\
    st l' = stats0.
Proof. exact rebuild_content_snap. Qed.

Theorem C10_rebuild_content_data :
  forall l listing,
    Inv l -> listing_of l listing ->
    let l' := from_data (price l) listing in
    (price l' = price l /\
     (forall k, lookup k (resting l') = lookup k (resting l)) /\
     Permutation (resting l') (resting l) /\
     Agg l' /\ cvis l' = cvis l /\ chid l' = chid l /\ ccnt l' = ccnt l /\
     WfQueue (lq l') /\ Fits l') /\
    st l' = mkStats (N.of_nat (length listing)) 0 0 0 0.
Proof. exact rebuild_content_data. Qed.

(* ---- 4. round trip through the model's own snapshot / level data ---- *)

Theorem C10_snapshot_round_trip :
  forall l,
    Inv l ->
    let l' := from_snapshot (snapshot_of l) in
    (price l' = price l /\
     (forall k, lookup k (resting l') = lookup k (resting l)) /\
     Permutation (resting l') (resting l) /\
     Agg l' /\ cvis l' = cvis l /\ chid l' = chid l /\ ccnt l' = ccnt l /\
     WfQueue (lq l') /\ Fits l') /\
    st l' = stats0.
Proof. exact snapshot_round_trip. Qed.

Theorem C10_data_round_trip :
  forall l,
    Inv l ->
    let l' := from_data (price l) (to_vec (lq l)) in
    (price l' = price l /\
     (forall k, lookup k (resting l') = lookup k (resting l)) /\
     Permutation (resting l') (resting l) /\
     Agg l' /\ cvis l' = cvis l /\ chid l' = chid l /\ ccnt l' = ccnt l /\
     WfQueue (lq l') /\ Fits l') /\
    st l' = mkStats (N.of_nat (length (resting l))) 0 0 0 0.
Proof. exact data_round_trip. Qed.

(* ---- 3. constructors derive the aggregates; carried figures are never believed ---- *)

(* any external snapshot, whatever its sn_vis / sn_hid / sn_cnt say *)
Theorem C10_from_snapshot_derives_aggregates :
  forall s,
    NoDup (ids (sn_orders s)) -> sumv (sn_orders s) + sumh (sn_orders s) < W ->
    N.of_nat (length (sn_orders s)) < W ->
    let l' := from_snapshot s in
    Agg l' /\ WfQueue (lq l') /\ Fits l' /\ price l' = sn_price s /\ resting l' = sn_orders s.
Proof. exact from_snapshot_Agg. Qed.

Theorem C10_from_data_derives_aggregates :
  forall p os,
    NoDup (ids os) -> sumv os + sumh os < W -> N.of_nat (length os) < W ->
    let l' := from_data p os in
    Agg l' /\ WfQueue (lq l') /\ Fits l' /\ price l' = p /\ resting l' = os.
Proof. exact from_data_Agg. Qed.

(* unconditionally: the result depends on the price and the orders only *)
Theorem C10_from_snapshot_ignores_aggregates :
  forall s s', sn_price s = sn_price s' -> sn_orders s = sn_orders s' ->
    from_snapshot s = from_snapshot s'.
Proof. exact from_snapshot_ignores_aggregates. Qed.

Theorem C10_from_snapshot_refresh :
  forall s, from_snapshot s = from_snapshot (refresh s) /\ refresh (refresh s) = refresh s.
Proof. intros s. split; [exact (from_snapshot_refresh s) | exact (refresh_idem s)]. Qed.

(* both constructors build the same level up to the statistics *)
Theorem C10_constructors_agree :
  forall p a b c os,
    NoDup (ids os) -> sumv os + sumh os < W -> N.of_nat (length os) < W ->
    from_snapshot (mkSnap p a b c os)
      = mkLevel p (sumv os) (sumh os) (N.of_nat (length os)) (mkQueue os (ids os)) stats0 /\
    from_data p os
      = mkLevel p (sumv os) (sumh os) (N.of_nat (length os)) (mkQueue os (ids os))
                (mkStats (N.of_nat (length os)) 0 0 0 0).
Proof.
  intros p a b c os H1 H2 H3.
  split; [exact (from_snapshot_canon p a b c os H1 H2) | exact (from_data_canon p os H1 H2 H3)].
Qed.

(* ---- examples ---- *)

(* A reachable level with a replenished iceberg, a partially filled reserve order, an
   amended post-only order, a cancelled pegged order and stale tickets. *)
Definition cm (i ts : N) : common := mkCommon (Uuid i) 100 Sell ts Gtc.
Definition ex_T : oid := Uuid 99.
Definition ex_ops : list op :=
  [ OAdd (Standard (cm 1 1) 5);
    OAdd (Iceberg (cm 2 2) 5 10);
    OAdd (Reserve (cm 3 3) 10 200 0 None true);
    OAdd (PostOnly (cm 4 4) 7);
    OMatch 12 ex_T;
    OAdd (Pegged (mkCommon (Ulid 5) 100 Sell 6 Day) 9 (-2)%Z MidPrice);
    OUpdate (UpdateQuantity (Uuid 4) 3);
    OUpdate (Cancel (Ulid 5)) ].
Definition ex_run := exec match_against 10 (new_level 100, 0) ex_ops.
Definition ex_l : level := match ex_run with Some ((l, _), _) => l | None => new_level 0 end.
Definition ex_outs : list out := match ex_run with Some (_, outs) => outs | None => [] end.
Definition ex_orders : list order :=
  [ Iceberg (cm 2 2) 5 5; Reserve (cm 3 3) 8 200 0 None true; PostOnly (cm 4 4) 3 ].

Example C10_ex_state :
  resting ex_l = ex_orders /\
  tickets (lq ex_l) = [Uuid 4; Uuid 2; Uuid 3; Ulid 5; Uuid 4] /\
  cvis ex_l = 16 /\ chid ex_l = 205 /\ ccnt ex_l = 3 /\
  st ex_l = mkStats 5 1 3 12 1200 /\
  to_vec (lq ex_l) = ex_orders.
Proof. vm_compute. repeat split; reflexivity. Qed.

Example C10_ex_reachable : reachable match_against (ex_l, 3).
Proof.
  apply (exec_reachable match_against 10 100 0 ex_ops ex_l 3 ex_outs); vm_compute; reflexivity.
Qed.

Example C10_ex_Inv : Inv ex_l.
Proof. apply inv_b_sound. vm_compute. reflexivity. Qed.

(* the round trips computed: same price, orders and aggregates; statistics are fresh *)
Example C10_ex_round_trip :
  from_snapshot (snapshot_of ex_l)
    = mkLevel 100 16 205 3 (mkQueue ex_orders [Uuid 2; Uuid 3; Uuid 4]) stats0 /\
  from_data (price ex_l) (to_vec (lq ex_l))
    = mkLevel 100 16 205 3 (mkQueue ex_orders [Uuid 2; Uuid 3; Uuid 4]) (mkStats 3 0 0 0 0).
Proof. vm_compute. split; reflexivity. Qed.

(* an external snapshot whose aggregate fields lie *)
Example C10_ex_lying_snapshot :
  let s := mkSnap 100 999 0 77 ex_orders in
  NoDup (ids (sn_orders s)) /\ sumv (sn_orders s) + sumh (sn_orders s) < W /\
  N.of_nat (length (sn_orders s)) < W /\
  cvis (from_snapshot s) = 16 /\ chid (from_snapshot s) = 205 /\ ccnt (from_snapshot s) = 3 /\
  from_snapshot s = from_snapshot (snapshot_of ex_l).
Proof.
  cbv zeta. split; [apply nodup_b_sound; vm_compute; reflexivity|].
  vm_compute. repeat split; reflexivity.
Qed.

(* a listing in a different tie order: two orders with equal timestamps *)
Example C10_ex_ties :
  let a := Standard (cm 1 7) 5 in
  let b := Iceberg (cm 2 7) 4 6 in
  let l := add_order (add_order (new_level 100) a) b in
  Inv l /\ listing_of l [a; b] /\ listing_of l [b; a] /\ to_vec (lq l) = [b; a] /\
  resting (from_snapshot (mkSnap 100 0 0 0 [a; b])) = [a; b] /\
  cvis (from_snapshot (mkSnap 100 0 0 0 [a; b])) = 9 /\
  chid (from_data 100 [a; b]) = 6.
Proof.
  cbv zeta. split; [apply inv_b_sound; vm_compute; reflexivity|].
  split; [split; [apply Permutation_refl|apply le_sorted_b_sound; vm_compute; reflexivity]|].
  split; [split; [apply perm_swap|apply le_sorted_b_sound; vm_compute; reflexivity]|].
  vm_compute. repeat split; reflexivity.
Qed.

(* Remark, outside the domain: with a duplicated id in the input the count follows the
   list while the map keeps one entry per id, so the aggregates no longer describe the
   resting orders. *)
Example C10_ex_duplicate_ids :
  let a := Standard (cm 1 1) 5 in
  let a' := Standard (cm 1 2) 7 in
  let s := mkSnap 100 0 0 0 [a; a'] in
  ~ NoDup (ids (sn_orders s)) /\
  ccnt (from_snapshot s) = 2 /\ cvis (from_snapshot s) = 12 /\ resting (from_snapshot s) = [a'] /\
  ~ Agg (from_snapshot s) /\ ~ Agg (from_data 100 [a; a']).
Proof.
  cbv zeta. split.
  { intros H. inversion H as [|? ? Hin _]; subst. apply Hin. left. reflexivity. }
  split; [vm_compute; reflexivity|]. split; [vm_compute; reflexivity|].
  split; [vm_compute; reflexivity|].
  split; intros (_ & _ & H); vm_compute in H; discriminate.
Qed.

Check C10_listing_spec.
Check C10_rebuild_content_snapshot :
  forall l listing a b c,
    Inv l -> listing_of l listing ->
    let l' := from_snapshot (mkSnap (price l) a b c listing) in
    (price l' = price l /\
     (forall k, lookup k (resting l') = lookup k (resting l)) /\
     Permutation (resting l') (resting l) /\
     Agg l' /\ cvis l' = cvis l /\ chid l' = chid l /\ ccnt l' = ccnt l /\
     WfQueue (lq l') /\ Fits l') /\
    st l' = stats0.
Check C10_from_snapshot_derives_aggregates :
  forall s,
    NoDup (ids (sn_orders s)) -> sumv (sn_orders s) + sumh (sn_orders s) < W ->
    N.of_nat (length (sn_orders s)) < W ->
    let l' := from_snapshot s in
    Agg l' /\ WfQueue (lq l') /\ Fits l' /\ price l' = sn_price s /\ resting l' = sn_orders s.
Check C10_from_data_derives_aggregates :
  forall p os,
    NoDup (ids os) -> sumv os + sumh os < W -> N.of_nat (length os) < W ->
    let l' := from_data p os in
    Agg l' /\ WfQueue (lq l') /\ Fits l' /\ price l' = p /\ resting l' = os.

Print Assumptions C10_Inv_def.
Print Assumptions C10_ts_le_def.
Print Assumptions C10_listing_spec.
Print Assumptions C10_Sorted_ts_sorted.
Print Assumptions C10_listing_of.
Print Assumptions C10_rebuild_content_snapshot.
Print Assumptions C10_rebuild_content_data.
Print Assumptions C10_snapshot_round_trip.
Print Assumptions C10_data_round_trip.
Print Assumptions C10_from_snapshot_derives_aggregates.
Print Assumptions C10_from_data_derives_aggregates.
Print Assumptions C10_from_snapshot_ignores_aggregates.
Print Assumptions C10_from_snapshot_refresh.
Print Assumptions C10_constructors_agree.
Print Assumptions C10_ex_state.
Print Assumptions C10_ex_reachable.
Print Assumptions C10_ex_Inv.
Print Assumptions C10_ex_round_trip.
Print Assumptions C10_ex_lying_snapshot.
Print Assumptions C10_ex_ties.
Print Assumptions C10_ex_duplicate_ids.
