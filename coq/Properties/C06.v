(* C06 — Matching always terminates and exhausts the displayed liquidity.
   Only statements live here; proofs are in Proofs/MatchBase.v and Proofs/MatchProofs.v.

   The model's [match_order] runs the `while remaining > 0` loop on explicit fuel
   and answers [None] when the fuel runs out: "the request returns" = "some amount
   of fuel suffices", and the answer does not depend on how much more is given.
   All statements are for an arbitrary per-order function [mf] meeting [I_cons]
   (Spec/Hist.v), with corollaries for [match_against]. *)
From PL Require Import Model.Level Spec.Hist Spec.LedgerSpec Proofs.OrderProofs
                       Proofs.MatchBase Proofs.MatchProofs.
Local Open Scope N_scope.

(* 1. Termination, for EVERY level state (reachable or not; no invariant needed),
      including levels holding orders with nothing displayed. *)
Theorem C06_terminates :
  forall mf, I_cons mf ->
  forall l g qty taker, exists n, forall fuel, (n <= fuel)%nat ->
    exists res, match_order mf fuel l g qty taker = Some res.
Proof. exact match_order_terminates. Qed.

(* 2. Surplus fuel changes nothing. *)
Theorem C06_loop_fuel_mono :
  forall mf taker f f' s s',
    match_loop mf f taker s = Some s' -> (f <= f')%nat -> match_loop mf f' taker s = Some s'.
Proof. exact match_loop_mono. Qed.

Theorem C06_fuel_mono :
  forall mf f f' l g qty taker res,
    match_order mf f l g qty taker = Some res -> (f <= f')%nat ->
    match_order mf f' l g qty taker = Some res.
Proof. exact match_order_mono. Qed.

Theorem C06_fuel_independent :
  forall mf f f' l g qty taker res res',
    match_order mf f l g qty taker = Some res ->
    match_order mf f' l g qty taker = Some res' -> res = res'.
Proof. exact match_order_fuel_indep. Qed.

(* 1+2: every request has exactly one answer. *)
Theorem C06_unique_answer :
  forall mf, I_cons mf ->
  forall l g qty taker, exists res,
    (exists fuel, match_order mf fuel l g qty taker = Some res) /\
    (forall fuel res', match_order mf fuel l g qty taker = Some res' -> res' = res).
Proof.
  intros mf Hc l g qty taker. destruct (match_order_terminates mf Hc l g qty taker) as [n Hn].
  destruct (Hn n (le_n n)) as [res Hres]. exists res. split; [eauto|].
  intros fuel res' H. exact (match_order_fuel_indep mf _ _ _ _ _ _ _ _ H Hres).
Qed.

(* 3. Returning with quantity remaining means no resting order has displayed quantity left. *)
Theorem C06_exhausts :
  forall mf, I_cons mf ->
  forall fuel l g qty taker l' g' r,
    WfQueue (lq l) ->
    match_order mf fuel l g qty taker = Some (l', g', r) -> 0 < r_remaining r ->
    forall o, In o (resting l') -> vis o = 0.
Proof.
  intros mf Hc fuel l g qty taker l' g' r [_ Hcov].
  exact (match_exhausts mf Hc fuel l g qty taker l' g' r Hcov).
Qed.

(* (only the "every resting order holds a ticket" half of WfQueue is used) *)
Theorem C06_exhausts_covered :
  forall mf, I_cons mf ->
  forall fuel l g qty taker l' g' r,
    Covered (lq l) ->
    match_order mf fuel l g qty taker = Some (l', g', r) -> 0 < r_remaining r ->
    forall o, In o (resting l') -> vis o = 0.
Proof. exact match_exhausts. Qed.

(* 4. At least min(requested, displayed at the start) is executed. *)
Theorem C06_lower :
  forall mf, I_cons mf ->
  forall fuel l g qty taker l' g' r,
    Inv l -> qty < W ->
    match_order mf fuel l g qty taker = Some (l', g', r) ->
    N.min qty (sumv (resting l)) <= executed_quantity r.
Proof.
  intros mf Hc fuel l g qty taker l' g' r (_ & Hwf & _) _.
  exact (match_lower_bound mf Hc fuel l g qty taker l' g' r Hwf).
Qed.

(* (the counters and the 64-bit bounds play no role: WfQueue is enough) *)
Theorem C06_lower_wf :
  forall mf, I_cons mf ->
  forall fuel l g qty taker l' g' r,
    WfQueue (lq l) ->
    match_order mf fuel l g qty taker = Some (l', g', r) ->
    N.min qty (sumv (resting l)) <= executed_quantity r.
Proof. exact match_lower_bound. Qed.

(* The queue invariants assumed above are re-established by the call. *)
Theorem C06_preserves_WfQueue :
  forall mf, I_cons mf ->
  forall fuel l g qty taker l' g' r,
    WfQueue (lq l) ->
    match_order mf fuel l g qty taker = Some (l', g', r) -> WfQueue (lq l').
Proof. exact match_preserves_WfQueue. Qed.

(* ---- the implementation's per-order function ---- *)
Corollary C06_terminates_match_against :
  forall l g qty taker, exists n, forall fuel, (n <= fuel)%nat ->
    exists res, match_order match_against fuel l g qty taker = Some res.
Proof. exact (match_order_terminates match_against match_against_I_cons). Qed.

Corollary C06_exhausts_match_against :
  forall fuel l g qty taker l' g' r,
    WfQueue (lq l) ->
    match_order match_against fuel l g qty taker = Some (l', g', r) -> 0 < r_remaining r ->
    forall o, In o (resting l') -> vis o = 0.
Proof.
  intros fuel l g qty taker l' g' r [_ Hcov].
  exact (match_exhausts match_against match_against_I_cons fuel l g qty taker l' g' r Hcov).
Qed.

Corollary C06_lower_match_against :
  forall fuel l g qty taker l' g' r,
    Inv l -> qty < W ->
    match_order match_against fuel l g qty taker = Some (l', g', r) ->
    N.min qty (sumv (resting l)) <= executed_quantity r.
Proof.
  intros fuel l g qty taker l' g' r (_ & Hwf & _) _.
  exact (match_lower_bound match_against match_against_I_cons fuel l g qty taker l' g' r Hwf).
Qed.

(* ---- non-vacuity: a level with an order that displays nothing and replenishes
   nothing (reserve, display 0, replenish amount 0), an iceberg swept over several
   replenishment rounds, and a plain order ---- *)
Definition ex_o1 := Reserve (mkCommon (Uuid 1) 100 Sell 1 Gtc) 0 50 0 (Some 0) true.
Definition ex_o2 := Iceberg (mkCommon (Ulid 2) 100 Sell 2 Gtc) 5 12.
Definition ex_o3 := Standard (mkCommon (Uuid 3) 100 Sell 3 Day) 4.
Definition ex_level := add_order (add_order (add_order (new_level 100) ex_o1) ex_o2) ex_o3.

Example C06_example_Inv : Inv ex_level.
Proof. solve_Inv. Qed.

(* 7 iterations are needed (one ends the loop on an empty pop); 6 do not suffice *)
Example C06_example_run :
  match_order match_against 6 ex_level 7 30 (Uuid 99) = None /\
  exists l' r,
    match_order match_against 7 ex_level 7 30 (Uuid 99) = Some (l', 12, r) /\
    sumv (resting ex_level) = 9 /\
    executed_quantity r = 21 /\ r_remaining r = 9 /\ r_complete r = false /\
    map tx_qty (r_txs r) = [5; 4; 5; 5; 2] /\
    r_filled r = [Uuid 3; Ulid 2] /\
    resting l' = [ex_o1] /\ Inv l'.
Proof.
  split; [vm_compute; reflexivity|].
  destruct (match_order match_against 7 ex_level 7 30 (Uuid 99)) as [[[l' g'] r]|] eqn:E;
    vm_compute in E; [|discriminate].
  inversion E; subst; clear E. eexists. eexists. split; [reflexivity|].
  repeat (split; [vm_compute; reflexivity|]). solve_Inv.
Qed.

Check C06_terminates :
  forall mf, I_cons mf ->
  forall l g qty taker, exists n, forall fuel, (n <= fuel)%nat ->
    exists res, match_order mf fuel l g qty taker = Some res.
Check C06_exhausts :
  forall mf, I_cons mf ->
  forall fuel l g qty taker l' g' r,
    WfQueue (lq l) ->
    match_order mf fuel l g qty taker = Some (l', g', r) -> 0 < r_remaining r ->
    forall o, In o (resting l') -> vis o = 0.
Check C06_lower :
  forall mf, I_cons mf ->
  forall fuel l g qty taker l' g' r,
    Inv l -> qty < W ->
    match_order mf fuel l g qty taker = Some (l', g', r) ->
    N.min qty (sumv (resting l)) <= executed_quantity r.

Print Assumptions C06_terminates.
Print Assumptions C06_loop_fuel_mono.
Print Assumptions C06_fuel_mono.
Print Assumptions C06_fuel_independent.
Print Assumptions C06_unique_answer.
Print Assumptions C06_exhausts.
Print Assumptions C06_exhausts_covered.
Print Assumptions C06_lower.
Print Assumptions C06_lower_wf.
Print Assumptions C06_preserves_WfQueue.
Print Assumptions C06_terminates_match_against.
Print Assumptions C06_exhausts_match_against.
Print Assumptions C06_lower_match_against.
Print Assumptions C06_example_Inv.
Print Assumptions C06_example_run.
