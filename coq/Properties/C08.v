(* C08 — Concurrent operations never strand or duplicate an order.
   Only statements live here; proofs are in Proofs/ConcLemmas.v, Proofs/CovProofs.v
   and Proofs/DrainProofs.v.  Model: Model/Conc.v (one shared operation per step,
   every program, every number of threads, every schedule).  The per-order
   function [mf] is arbitrary in 1-3; the drain (4) needs [I_cons mf]. *)
From PL Require Import Spec.CovSpec Proofs.ConcLemmas Proofs.CovProofs Proofs.DrainProofs
                       Proofs.OrderProofs.
Local Open Scope N_scope.

(* ---------- 1. the coverage invariant ---------- *)

(* Every order in the map has a ticket, or a thread stands between its map
   insert and its ticket append, or a thread has taken its ticket and not yet
   tried the map remove.  Preserved by every step of every thread. *)
Theorem C08_coverage_step :
  forall mf c i c' e, Cov c -> cstep mf c i = Some (c', e) -> Cov c'.
Proof. exact Cov_step. Qed.

Theorem C08_coverage_reachable :
  forall mf l gen progs sched,
    Covered (lq l) -> Cov (fst (exec mf sched (init_config l gen progs))).
Proof. exact Cov_reachable. Qed.

(* the map never holds two orders with one id *)
Theorem C08_map_nodup_step :
  forall mf c i c' e,
    NoDup (ids (sh_map (cf_sh c))) -> cstep mf c i = Some (c', e) ->
    NoDup (ids (sh_map (cf_sh c'))).
Proof. exact MapNoDup_step. Qed.

Theorem C08_map_nodup_reachable :
  forall mf l gen progs sched,
    NoDup (ids (resting l)) ->
    NoDup (ids (sh_map (cf_sh (fst (exec mf sched (init_config l gen progs)))))).
Proof. exact MapNoDup_reachable. Qed.

(* ---------- 2. nothing is stranded at quiescence ---------- *)

Theorem C08_quiescent_covered :
  forall mf l gen progs sched c tr,
    Covered (lq l) ->
    exec mf sched (init_config l gen progs) = (c, tr) ->
    quiescent c = true ->
    Covered (lq (level_of_config c)).
Proof. exact quiescent_covered. Qed.

Theorem C08_quiescent_wfqueue :
  forall mf l gen progs sched c tr,
    WfQueue (lq l) ->
    exec mf sched (init_config l gen progs) = (c, tr) ->
    quiescent c = true ->
    WfQueue (lq (level_of_config c)).
Proof. exact quiescent_wfqueue. Qed.

(* every resting order is reached by popping: the pop order of the queue lists
   exactly the ids of the resting orders, each once *)
Theorem C08_quiescent_reachable_by_pop :
  forall mf l gen progs sched c tr,
    Covered (lq l) ->
    exec mf sched (init_config l gen progs) = (c, tr) ->
    quiescent c = true ->
    (forall k, In k (abs (lq (level_of_config c))) <-> In k (ids (resting (level_of_config c)))) /\
    NoDup (abs (lq (level_of_config c))).
Proof. exact quiescent_reachable_by_pop. Qed.

Theorem C08_covered_pop_order :
  forall q, Covered q ->
    (forall k, In k (abs q) <-> In k (ids (qmap q))) /\ NoDup (abs q).
Proof. exact abs_exact. Qed.

(* a covered queue with something resting never answers "empty" *)
Theorem C08_covered_pop_finds :
  forall q, Covered q -> fst (pop q) = None -> qmap q = [].
Proof. exact Covered_pop_none. Qed.

(* ---------- 3. handed out exactly once ---------- *)

(* Along every trace the map cell of every id behaves as a cell: each remove /
   get of id k observes exactly the order most recently inserted with id k and
   not removed since (initially: the resting one). *)
Theorem C08_trace_cell :
  forall mf k sched c c' tr,
    exec mf sched c = (c', tr) ->
    trace_ok k (lookup k (sh_map (cf_sh c))) tr /\
    lookup k (sh_map (cf_sh c')) = cell_after k (lookup k (sh_map (cf_sh c))) tr.
Proof. exact exec_cell. Qed.

(* never to two: between two successful removes of id k, an order with id k was inserted *)
Theorem C08_no_double_handout :
  forall mf sched c c' k t1 i o1 t2 j o2 t3,
    exec mf sched c = (c', t1 ++ (i, ERemove k (Some o1)) :: t2 ++ (j, ERemove k (Some o2)) :: t3) ->
    inserts k t2.
Proof. exact exec_no_double_handout. Qed.

(* the order handed out is the one most recently handed in ... *)
Theorem C08_handout_is_last_insert :
  forall mf sched c c' k t1 i o t2 j o2 t3,
    exec mf sched c = (c', t1 ++ (i, EInsert o) :: t2 ++ (j, ERemove k (Some o2)) :: t3) ->
    oid_of o = k -> ~ inserts k t2 -> o2 = o.
Proof. exact exec_handout_is_last_insert. Qed.

(* ... or the one resting initially *)
Theorem C08_handout_is_initial :
  forall mf sched c c' k t1 j o2 t3,
    exec mf sched c = (c', t1 ++ (j, ERemove k (Some o2)) :: t3) ->
    ~ inserts k t1 -> lookup k (sh_map (cf_sh c)) = Some o2.
Proof. exact exec_handout_is_initial. Qed.

(* ---------- 4. drain ---------- *)

(* sequential: a match that ends with quantity left over leaves nothing that displays quantity *)
Theorem C08_drain :
  forall mf, I_cons mf ->
  forall fuel l g qty taker l' g' r,
    Covered (lq l) ->
    match_order mf fuel l g qty taker = Some (l', g', r) ->
    0 < r_remaining r ->
    forall o, In o (resting l') -> vis o = 0.
Proof. exact drain_exhausts. Qed.

(* the draining match issued after all threads have returned *)
Theorem C08_drain_after_quiescence :
  forall mf, I_cons mf ->
  forall l gen progs sched c tr fuel g qty taker l' g' r,
    Covered (lq l) ->
    exec mf sched (init_config l gen progs) = (c, tr) ->
    quiescent c = true ->
    match_order mf fuel (level_of_config c) g qty taker = Some (l', g', r) ->
    0 < r_remaining r ->
    forall o, In o (resting l') -> vis o = 0.
Proof. exact drain_after_quiescence. Qed.

Corollary C08_drain_after_quiescence_match_against :
  forall l gen progs sched c tr fuel g qty taker l' g' r,
    Covered (lq l) ->
    exec match_against sched (init_config l gen progs) = (c, tr) ->
    quiescent c = true ->
    match_order match_against fuel (level_of_config c) g qty taker = Some (l', g', r) ->
    0 < r_remaining r ->
    forall o, In o (resting l') -> vis o = 0.
Proof. exact (drain_after_quiescence match_against match_against_I_cons). Qed.

(* ---------- examples: the hypotheses are satisfiable, the model runs ---------- *)

Definition ex_A : order := Standard (mkCommon (Uuid 1) 100 Sell 1 Gtc) 10.
Definition ex_B : order := Iceberg (mkCommon (Uuid 2) 100 Sell 2 Gtc) 5 7.
Definition ex_level : level := add_order (new_level 100) ex_A.

Example C08_ex_level_wf : WfQueue (lq ex_level).
Proof.
  split.
  - vm_compute. constructor; [intros [] | constructor].
  - intros o H. vm_compute in H. destruct H as [<-|[]]. vm_compute. left. reflexivity.
Qed.

(* thread 0 adds B then cancels A; thread 1 matches 12 against the level; the
   add, the match and the cancel are interleaved step by step *)
Definition ex_progs : list (list call) :=
  [[CAdd ex_B; CUpdate (Cancel (Uuid 1))]; [CMatch 12 (Uuid 99)]].
Definition ex_sched : list nat :=
  [0;1;0;1;0;0;0;1;1;0;1;1;1;1;1;1;1;1;1;1;1;1;1;1;1;0;0]%nat.

Example C08_ex_run :
  let '(c, tr) := exec match_against ex_sched (init_config ex_level 0 ex_progs) in
  quiescent c = true /\
  sh_map (cf_sh c) = [Iceberg (mkCommon (Uuid 2) 100 Sell 2 Gtc) 3 7] /\
  sh_tk (cf_sh c) = [Uuid 2] /\
  abs (lq (level_of_config c)) = [Uuid 2] /\
  (* A was handed out once (to the matcher); the later cancel finds nothing *)
  filter (fun ie => match snd ie with ERemove (Uuid 1) _ => true | _ => false end) tr =
    [(1%nat, ERemove (Uuid 1) (Some ex_A)); (0%nat, ERemove (Uuid 1) None)].
Proof. vm_compute. repeat split; reflexivity. Qed.

(* mid-run configuration in which the map holds an order without a ticket:
   thread 0 stands between the insert (A5) and the ticket append (A6) *)
Example C08_ex_window :
  let c := fst (exec match_against [0;0;0;0;0]%nat (init_config ex_level 0 ex_progs)) in
  sh_map (cf_sh c) = [ex_A; ex_B] /\ sh_tk (cf_sh c) = [Uuid 1] /\
  option_map th_pc (nth_error (cf_threads c) 0) = Some (A6 ex_B).
Proof. vm_compute. repeat split; reflexivity. Qed.

(* the draining match after the run: 20 requested, 10 available *)
Example C08_ex_drain :
  let c := fst (exec match_against ex_sched (init_config ex_level 0 ex_progs)) in
  match match_order match_against 10 (level_of_config c) 2 20 (Uuid 98) with
  | Some (l', _, r) => resting l' = [] /\ r_remaining r = 10 /\ cvis l' = 0 /\ chid l' = 0 /\ ccnt l' = 0
  | None => False
  end.
Proof. vm_compute. repeat split; reflexivity. Qed.

Check C08_coverage_step :
  forall mf c i c' e, Cov c -> cstep mf c i = Some (c', e) -> Cov c'.
Check C08_quiescent_covered :
  forall mf l gen progs sched c tr,
    Covered (lq l) -> exec mf sched (init_config l gen progs) = (c, tr) ->
    quiescent c = true -> Covered (lq (level_of_config c)).
Check C08_no_double_handout :
  forall mf sched c c' k t1 i o1 t2 j o2 t3,
    exec mf sched c = (c', t1 ++ (i, ERemove k (Some o1)) :: t2 ++ (j, ERemove k (Some o2)) :: t3) ->
    inserts k t2.
Check C08_drain_after_quiescence :
  forall mf, I_cons mf ->
  forall l gen progs sched c tr fuel g qty taker l' g' r,
    Covered (lq l) -> exec mf sched (init_config l gen progs) = (c, tr) ->
    quiescent c = true ->
    match_order mf fuel (level_of_config c) g qty taker = Some (l', g', r) ->
    0 < r_remaining r -> forall o, In o (resting l') -> vis o = 0.

Print Assumptions C08_coverage_step.
Print Assumptions C08_coverage_reachable.
Print Assumptions C08_map_nodup_step.
Print Assumptions C08_map_nodup_reachable.
Print Assumptions C08_quiescent_covered.
Print Assumptions C08_quiescent_wfqueue.
Print Assumptions C08_quiescent_reachable_by_pop.
Print Assumptions C08_covered_pop_order.
Print Assumptions C08_covered_pop_finds.
Print Assumptions C08_trace_cell.
Print Assumptions C08_no_double_handout.
Print Assumptions C08_handout_is_last_insert.
Print Assumptions C08_handout_is_initial.
Print Assumptions C08_drain.
Print Assumptions C08_drain_after_quiescence.
Print Assumptions C08_drain_after_quiescence_match_against.
Print Assumptions C08_ex_level_wf.
Print Assumptions C08_ex_run.
Print Assumptions C08_ex_window.
Print Assumptions C08_ex_drain.
