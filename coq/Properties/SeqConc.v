(* SeqConc — the sequential model (Model/Level.v) and the step machines of
   Model/Conc.v are the same code: ONE thread run alone through [tstep] computes
   exactly add_order / update_order / match_order / the reads, for an arbitrary
   per-order function [mf] (no interface hypothesis); and every accepted
   implementation trace is a run of [exec].
   Only statements live here; proofs are in Proofs/SeqConc.v. *)
From PL Require Import Model.Conc Proofs.SeqConc.
Local Open Scope N_scope.

(* [run_alone mf fuel p s]: iterate [tstep mf] from program point [p] on shared state [s]
   until the call has returned ([Done r]); [None] if [fuel] steps do not suffice. *)
Theorem SC_run_alone_unfold :
  forall mf fuel p s,
    run_alone mf fuel p s =
    match p with
    | Done r => Some (r, s)
    | _ =>
        match fuel with
        | O => None
        | S f =>
            match tstep mf p s with
            | Some (p', s', _) => run_alone mf f p' s'
            | None => None
            end
        end
    end.
Proof. intros mf fuel p s. destruct fuel; destruct p; reflexivity. Qed.

(* 1. add_order = A1..A6 *)
Theorem SC_run_alone_add :
  forall mf l g o,
    exists n, forall fuel, (n <= fuel)%nat ->
      run_alone mf fuel (start (price l) (CAdd o)) (shared_of_level l g)
      = Some (RetAdd o, shared_of_level (add_order l o) g).
Proof. exact run_alone_add. Qed.

(* 2. update_order (all five kinds; take_out = C1..C5, amend = U1..U6, UErr returns at once) *)
Theorem SC_run_alone_update :
  forall mf l g u l' uo,
    update_order l u = (l', uo) ->
    exists n, forall fuel, (n <= fuel)%nat ->
      run_alone mf fuel (start (price l) (CUpdate u)) (shared_of_level l g)
      = Some (RetUpd uo, shared_of_level l' g).
Proof. exact run_alone_update. Qed.

(* 3. match_order = (M1 M2)* M3..M15 ... (F1 F2)* *)
Theorem SC_run_alone_match :
  forall mf fuel0 l g qty taker l' g' r,
    match_order mf fuel0 l g qty taker = Some (l', g', r) ->
    exists n, forall fuel, (n <= fuel)%nat ->
      run_alone mf fuel (start (price l) (CMatch qty taker)) (shared_of_level l g)
      = Some (RetMatch r, shared_of_level l' g').
Proof. exact run_alone_match. Qed.

(* the arithmetic fact behind M7: fetch_add((c*p) mod 2^64) is fetch_add(c*p) *)
Theorem SC_wadd_mod_r : forall a b, wadd a (b mod W) = wadd a b.
Proof. exact wadd_mod_r. Qed.

(* 4. reads and the generator *)
Theorem SC_run_alone_read_vis :
  forall mf l g, exists n, forall fuel, (n <= fuel)%nat ->
    run_alone mf fuel (start (price l) CReadVis) (shared_of_level l g)
    = Some (RetNum (cvis l), shared_of_level l g).
Proof. exact run_alone_read_vis. Qed.

Theorem SC_run_alone_read_hid :
  forall mf l g, exists n, forall fuel, (n <= fuel)%nat ->
    run_alone mf fuel (start (price l) CReadHid) (shared_of_level l g)
    = Some (RetNum (chid l), shared_of_level l g).
Proof. exact run_alone_read_hid. Qed.

Theorem SC_run_alone_read_cnt :
  forall mf l g, exists n, forall fuel, (n <= fuel)%nat ->
    run_alone mf fuel (start (price l) CReadCnt) (shared_of_level l g)
    = Some (RetNum (ccnt l), shared_of_level l g).
Proof. exact run_alone_read_cnt. Qed.

Theorem SC_run_alone_list :
  forall mf l g, exists n, forall fuel, (n <= fuel)%nat ->
    run_alone mf fuel (start (price l) CList) (shared_of_level l g)
    = Some (RetList (to_vec (lq l)), shared_of_level l g).
Proof. exact run_alone_list. Qed.

Theorem SC_run_alone_next :
  forall mf l g, exists n, forall fuel, (n <= fuel)%nat ->
    run_alone mf fuel (start (price l) CNext) (shared_of_level l g)
    = Some (RetNum g, shared_of_level l (wadd g 1)).
Proof. exact run_alone_next. Qed.

(* snapshot(), run alone (four steps): the three aggregates and the listing, nothing changed *)
Theorem SC_run_alone_snapshot :
  forall mf l g, exists n, forall fuel, (n <= fuel)%nat ->
    run_alone mf fuel (start (price l) CSnapshot) (shared_of_level l g)
    = Some (RetSnap (cvis l) (chid l) (ccnt l) (to_vec (lq l)), shared_of_level l g).
Proof. exact run_alone_snapshot. Qed.

(* all calls at once: [seq_call] is the sequential meaning of a call on (level, generator) *)
Theorem SC_seq_call_unfold :
  forall mf fuel l g c,
    seq_call mf fuel l g c =
    match c with
    | CAdd o => Some (add_order l o, g, RetAdd o)
    | CMatch qty taker =>
        match match_order mf fuel l g qty taker with
        | Some (l', g', r) => Some (l', g', RetMatch r)
        | None => None
        end
    | CUpdate u => Some (fst (update_order l u), g, RetUpd (snd (update_order l u)))
    | CReadVis => Some (l, g, RetNum (cvis l))
    | CReadHid => Some (l, g, RetNum (chid l))
    | CReadCnt => Some (l, g, RetNum (ccnt l))
    | CList => Some (l, g, RetList (to_vec (lq l)))
    | CNext => Some (l, wadd g 1, RetNum g)
    | CSnapshot => Some (l, g, RetSnap (cvis l) (chid l) (ccnt l) (to_vec (lq l)))
    end.
Proof. reflexivity. Qed.

Theorem SC_run_alone_call :
  forall mf fuel0 l g c l' g' r,
    seq_call mf fuel0 l g c = Some (l', g', r) ->
    exists n, forall fuel, (n <= fuel)%nat ->
      run_alone mf fuel (start (price l) c) (shared_of_level l g) = Some (r, shared_of_level l' g').
Proof. exact run_alone_call. Qed.

(* 5. every accepted implementation trace is a run of the interleaving semantics, under
   the schedule read off the trace, producing exactly those events *)
Theorem SC_accept_sound :
  forall mf tr c c',
    accept mf tr c 0 = (c', None) -> exec mf (map fst tr) c = (c', tr).
Proof. exact accept_sound. Qed.

(* rejected at position p: the first p entries are a run ending in the returned configuration *)
Theorem SC_accept_reject_prefix :
  forall mf tr c c' p,
    accept mf tr c 0 = (c', Some p) ->
    (p < length tr)%nat /\ exec mf (map fst (firstn p tr)) c = (c', firstn p tr).
Proof. exact accept_reject_prefix. Qed.

(* 6. one thread running the calls [cs] (ANY calls, not only add/update/match), scheduled
   [0;0;0;...] long enough: ends with the sequential state and the sequential outputs.
   [seq_calls] folds [seq_call] over the list ([None] iff some match lacks fuel).
   The value of the last call stays in [th_pc] ([settle] appends to [th_rets] only when
   the next call starts), hence [last] / [removelast]. *)
Theorem SC_seq_calls_unfold :
  forall mf fuel cs l g,
    seq_calls mf fuel cs l g =
    match cs with
    | [] => Some (l, g, [])
    | c :: cs' =>
        match seq_call mf fuel l g c with
        | None => None
        | Some (l1, g1, r) =>
            match seq_calls mf fuel cs' l1 g1 with
            | None => None
            | Some (l2, g2, rs) => Some (l2, g2, r :: rs)
            end
        end
    end.
Proof. intros mf fuel cs l g. destruct cs; reflexivity. Qed.

Theorem SC_single_thread_history :
  forall mf fuel0 cs l g l' g' rs,
    seq_calls mf fuel0 cs l g = Some (l', g', rs) ->
    exists n, forall m, (n <= m)%nat ->
      exists tr,
        exec mf (repeat 0%nat m) (mkConfig (shared_of_level l g) [thread_init (price l) cs])
        = (mkConfig (shared_of_level l' g')
                    [mkThread (Done (last rs (RetNum 0))) [] (removelast rs)], tr).
Proof. exact single_thread_history. Qed.

Theorem SC_single_thread_outputs :
  forall mf fuel0 cs l g l' g' rs,
    cs <> [] ->
    seq_calls mf fuel0 cs l g = Some (l', g', rs) ->
    exists n, forall m, (n <= m)%nat ->
      exists t r tr,
        exec mf (repeat 0%nat m) (mkConfig (shared_of_level l g) [thread_init (price l) cs])
        = (mkConfig (shared_of_level l' g') [t], tr) /\
        quiescent (mkConfig (shared_of_level l' g') [t]) = true /\
        th_pc t = Done r /\ th_rets t ++ [r] = rs.
Proof. exact single_thread_outputs. Qed.

(* ---- corollaries for the real per-order function ---- *)
Corollary SC_run_alone_match_against :
  forall fuel0 l g qty taker l' g' r,
    match_order match_against fuel0 l g qty taker = Some (l', g', r) ->
    exists n, forall fuel, (n <= fuel)%nat ->
      run_alone match_against fuel (start (price l) (CMatch qty taker)) (shared_of_level l g)
      = Some (RetMatch r, shared_of_level l' g').
Proof. exact (run_alone_match match_against). Qed.

(* ---- non-vacuity, by computation with mf := match_against ---- *)
Definition ex_c (i ts : N) : common := mkCommon (Uuid i) 100 Sell ts Gtc.
(* five makers; #1 is then cancelled (its ticket stays behind, stale);
   #3 is an iceberg showing 0 (set aside by the loop, re-queued by F1/F2);
   #4 is a reserve that replenishes (M10, M11); #2 is a non-replenishing reserve that leaves with hidden quantity (M14, M15),
   #5 partially filled (M12, M13) *)
Definition ex_level : level :=
  fst (update_order
         (from_data 100 [Standard (ex_c 1 1) 10; Reserve (ex_c 2 2) 5 9 0 None false; Iceberg (ex_c 3 3) 0 7;
                         Reserve (ex_c 4 4) 10 200 0 None true; Standard (ex_c 5 5) 50])
         (Cancel (Uuid 1))).

Example SC_match_example :
  match match_order match_against 10 ex_level 7 40 (Ulid 99) with
  | Some (l', g', r) =>
      run_alone match_against 60 (start (price ex_level) (CMatch 40 (Ulid 99))) (shared_of_level ex_level 7)
      = Some (RetMatch r, shared_of_level l' g')
      /\ length (r_txs r) = 3%nat /\ r_complete r = true /\ g' = 10
      /\ run_alone match_against 20 (start (price ex_level) (CMatch 40 (Ulid 99))) (shared_of_level ex_level 7)
         = None
  | None => False
  end.
Proof. vm_compute. repeat split; reflexivity. Qed.

Definition ex_calls : list call :=
  [CAdd (Standard (ex_c 6 6) 3); CUpdate (UpdatePrice (Uuid 6) 100) (* UErr: returns at once *);
   CUpdate (UpdateQuantity (Uuid 5) 20); CMatch 30 (Ulid 98); CNext; CReadVis; CList;
   CUpdate (Cancel (Uuid 4))].

Example SC_single_thread_example :
  match seq_calls match_against 10 ex_calls ex_level 7 with
  | Some (l', g', rs) =>
      fst (exec match_against (repeat 0%nat 100)
             (mkConfig (shared_of_level ex_level 7) [thread_init (price ex_level) ex_calls]))
      = mkConfig (shared_of_level l' g') [mkThread (Done (last rs (RetNum 0))) [] (removelast rs)]
      /\ length rs = 8%nat /\ nth 1 rs (RetNum 0) = RetUpd UErr
  | None => False
  end.
Proof. vm_compute. repeat split; reflexivity. Qed.

(* an accepted two-thread trace (hypothesis of SC_accept_sound), and a rejected one *)
Definition ex_config : config :=
  mkConfig (shared_of_level ex_level 7)
           [thread_init 100 [CMatch 12 (Ulid 97)]; thread_init 100 [CAdd (Standard (ex_c 8 8) 4); CReadCnt]].
Definition ex_sched : list nat := [0; 1; 1; 0; 0; 1; 0; 1; 1; 0; 0; 0; 1; 1; 0; 0; 0; 0; 0; 0; 0; 0]%nat.

Example SC_accept_example :
  let '(c', tr) := exec match_against ex_sched ex_config in
  accept match_against tr ex_config 0 = (c', None) /\ (10 < length tr)%nat /\
  exists c'', accept match_against (firstn 3 tr ++ [(1%nat, EPop None)]) ex_config 0 = (c'', Some 3%nat).
Proof. vm_compute. split; [reflexivity|]. split; [repeat constructor|]. eexists. reflexivity. Qed.

Check SC_run_alone_add : forall mf l g o,
    exists n, forall fuel, (n <= fuel)%nat ->
      run_alone mf fuel (start (price l) (CAdd o)) (shared_of_level l g)
      = Some (RetAdd o, shared_of_level (add_order l o) g).
Check SC_run_alone_update : forall mf l g u l' uo,
    update_order l u = (l', uo) ->
    exists n, forall fuel, (n <= fuel)%nat ->
      run_alone mf fuel (start (price l) (CUpdate u)) (shared_of_level l g)
      = Some (RetUpd uo, shared_of_level l' g).
Check SC_run_alone_match : forall mf fuel0 l g qty taker l' g' r,
    match_order mf fuel0 l g qty taker = Some (l', g', r) ->
    exists n, forall fuel, (n <= fuel)%nat ->
      run_alone mf fuel (start (price l) (CMatch qty taker)) (shared_of_level l g)
      = Some (RetMatch r, shared_of_level l' g').
Check SC_accept_sound : forall mf tr c c',
    accept mf tr c 0 = (c', None) -> exec mf (map fst tr) c = (c', tr).
Check SC_single_thread_history : forall mf fuel0 cs l g l' g' rs,
    seq_calls mf fuel0 cs l g = Some (l', g', rs) ->
    exists n, forall m, (n <= m)%nat ->
      exists tr,
        exec mf (repeat 0%nat m) (mkConfig (shared_of_level l g) [thread_init (price l) cs])
        = (mkConfig (shared_of_level l' g')
                    [mkThread (Done (last rs (RetNum 0))) [] (removelast rs)], tr).

Print Assumptions SC_run_alone_unfold.
Print Assumptions SC_run_alone_add.
Print Assumptions SC_run_alone_update.
Print Assumptions SC_run_alone_match.
Print Assumptions SC_wadd_mod_r.
Print Assumptions SC_run_alone_read_vis.
Print Assumptions SC_run_alone_read_hid.
Print Assumptions SC_run_alone_read_cnt.
Print Assumptions SC_run_alone_list.
Print Assumptions SC_run_alone_next.
Print Assumptions SC_run_alone_snapshot.
Print Assumptions SC_seq_call_unfold.
Print Assumptions SC_run_alone_call.
Print Assumptions SC_accept_sound.
Print Assumptions SC_accept_reject_prefix.
Print Assumptions SC_seq_calls_unfold.
Print Assumptions SC_single_thread_history.
Print Assumptions SC_single_thread_outputs.
Print Assumptions SC_run_alone_match_against.
Print Assumptions SC_match_example.
Print Assumptions SC_single_thread_example.
Print Assumptions SC_accept_example.
